#!/usr/bin/env python3
"""Regenerate the seeded-change table of DESIGN.md (between the SEEDS-BEGIN/SEEDS-END markers)
from seeded/*/meta.json."""
import glob, json, os, re
HERE = os.path.dirname(os.path.dirname(os.path.abspath(__file__)))
rows = []
for mp in sorted(glob.glob(os.path.join(HERE, 'seeded', '*', 'meta.json'))):
    m = json.load(open(mp))
    fired = []
    for prop, vs in sorted(m['checks_that_fire'].items()):
        rules = sorted({v.split(' :: ')[0] for v in vs})
        fired.append(f"{prop}: {', '.join(rules)}")
    patch = open(os.path.join(os.path.dirname(mp), 'patch.diff')).read()
    files = sorted({l[6:] for l in patch.splitlines() if l.startswith('+++ b/')})
    status = 'target' if m['detected_by_target_property'] else ('other property' if m['detected'] else 'MISSED')
    first = m.get('first_result', '')
    if m.get('strengthened'):
        first += f" -> added: {m['strengthened']}"
    rows.append(f"| {m['id']} | {', '.join(f.replace('edzed/', '') for f in files)} | "
                f"{m['needs_to_manifest'].replace('|', '/')} | {'; '.join(fired) or '-'} | {status} | {first} |")
table = ["| seed | file(s) | needs, in order to manifest | rules that fire today (quick tier) | caught by | when first evaluated |",
         "|------|---------|------------------------------|------------------------------------|-----------|----------------------|"] + rows
p = os.path.join(HERE, 'DESIGN.md')
s = open(p).read()
new = "<!-- SEEDS-BEGIN -->\n" + "\n".join(table) + "\n<!-- SEEDS-END -->"
if '<!-- SEEDS-BEGIN -->' in s:
    s = re.sub(r"<!-- SEEDS-BEGIN -->.*?<!-- SEEDS-END -->", lambda _m: new, s, flags=re.S)
else:
    s = s.rstrip('\n') + "\n\n" + new + "\n"
open(p, 'w').write(s)
print(f"{len(rows)} seeds")
