#!/usr/bin/env python3
"""
Development aid (NOT a registered check): behaviour-preserving whole-file transformations used to
look for FALSE ALARMS of the rules.  For every file of edzed/ and every transformation

  T1 unparse      ast.unparse round trip (comments dropped, layout and quoting normalised)
  T2 locals       every local variable of every function renamed (x -> x_r), parameters kept
  T3 flip-if      `if c: A else: B`  ->  `if not c: B else: A`   (both arms non-empty)
  T4 cmp-mirror   `a < b` -> `b > a`, `a <= b` -> `b >= a`, `x is not None` -> `not (x is None)`
  T5 temp-return  `return <call expr>` -> `result_ = <call expr>; return result_`

the transformed tree must leave all 20 checks at exit 0.  Exit 1 on such a tree is a false alarm
(to be corrected in the rule), exit 2 says the rule does not recognise the idiom (honest, but worth
widening where cheap).  With --tests the transformed tree is also run through the repository's
test suite, to confirm that the transformation really is behaviour preserving.

usage: tools/equivsweep.py [--files a.py,b.py] [--trans T1,T2] [--jobs N] [--tests]
"""
from __future__ import annotations

import argparse
import ast
import contextlib
import io
import json
import multiprocessing as mp
import os
import shutil
import subprocess
import sys
import tempfile

HERE = os.path.dirname(os.path.dirname(os.path.abspath(__file__)))
sys.path.insert(0, HERE)


class RenameLocals(ast.NodeTransformer):
    """Rename locals (assigned names that are not parameters / global / nonlocal) function-wise."""

    def __init__(self, tree=None):
        self.stack = []
        self.keep = set()
        if tree is not None:
            for n in ast.walk(tree):
                if isinstance(n, (ast.Global, ast.Nonlocal)):
                    self.keep.update(n.names)

    def _locals_of(self, fn):
        params = {a.arg for a in fn.args.posonlyargs + fn.args.args + fn.args.kwonlyargs}
        if fn.args.vararg:
            params.add(fn.args.vararg.arg)
        if fn.args.kwarg:
            params.add(fn.args.kwarg.arg)
        assigned, declared = set(), set()

        def walk(node, top):
            for ch in ast.iter_child_nodes(node):
                if isinstance(ch, (ast.FunctionDef, ast.AsyncFunctionDef, ast.ClassDef)):
                    assigned.discard(None)
                    if not isinstance(ch, ast.ClassDef):
                        assigned.add(ch.name) if False else None
                    continue        # names of nested scopes are theirs
                if isinstance(ch, ast.Lambda):
                    continue
                if isinstance(ch, (ast.Global, ast.Nonlocal)):
                    declared.update(ch.names)
                if isinstance(ch, ast.Name) and isinstance(ch.ctx, (ast.Store, ast.Del)):
                    assigned.add(ch.id)
                if isinstance(ch, ast.ExceptHandler) and ch.name:
                    pass            # handler names are kept (they are deleted at the end of the clause)
                walk(ch, False)
        walk(fn, True)
        # names used by nested functions / lambdas / comprehensions are renamed there too, because
        # the transformer descends with the same mapping (unless they re-bind the name as a parameter)
        return {n for n in assigned if n not in params and n not in declared and n not in self.keep
                and not n.startswith('__')}

    def visit_FunctionDef(self, node):
        loc = self._locals_of(node)
        # nested function names defined here are locals too, but renaming them is risky for
        # decorators / introspection: keep them
        params = {a.arg for a in node.args.posonlyargs + node.args.args + node.args.kwonlyargs}
        if node.args.vararg:
            params.add(node.args.vararg.arg)
        if node.args.kwarg:
            params.add(node.args.kwarg.arg)
        saved = self.stack
        # parameters and own locals of a nested function shadow the enclosing scopes
        self.stack = [s - params for s in self.stack] + [loc]
        node.body = [self.visit(s) for s in node.body]
        self.stack = saved
        return node

    visit_AsyncFunctionDef = visit_FunctionDef

    def visit_Lambda(self, node):
        params = {a.arg for a in node.args.posonlyargs + node.args.args + node.args.kwonlyargs}
        self.stack.append(set())        # a barrier entry that shadows nothing by itself
        saved = [set(s) for s in self.stack]
        self.stack = [s - params for s in self.stack]
        node.body = self.visit(node.body)
        self.stack = saved
        self.stack.pop()
        return node

    def visit_ClassDef(self, node):
        saved = self.stack
        self.stack = []                 # class bodies do not see enclosing function locals by rename
        node.body = [self.visit(s) for s in node.body]
        self.stack = saved
        return node

    def visit_Name(self, node):
        for scope in reversed(self.stack):
            if node.id in scope:
                return ast.copy_location(ast.Name(id=node.id + '_r', ctx=node.ctx), node)
        return node


class FlipIf(ast.NodeTransformer):
    def visit_If(self, node):
        self.generic_visit(node)
        if node.orelse and not (len(node.orelse) == 1 and isinstance(node.orelse[0], ast.If)):
            node.test, node.body, node.orelse = ast.UnaryOp(op=ast.Not(), operand=node.test), node.orelse, node.body
        return node


class CmpMirror(ast.NodeTransformer):
    MIRROR = {ast.Lt: ast.Gt, ast.LtE: ast.GtE, ast.Gt: ast.Lt, ast.GtE: ast.LtE}

    def visit_Compare(self, node):
        self.generic_visit(node)
        if len(node.ops) == 1:
            op = type(node.ops[0])
            if op in self.MIRROR:
                return ast.Compare(left=node.comparators[0], ops=[self.MIRROR[op]()], comparators=[node.left])
            if op is ast.IsNot and isinstance(node.comparators[0], ast.Constant) and node.comparators[0].value is None:
                return ast.UnaryOp(op=ast.Not(), operand=ast.Compare(left=node.left, ops=[ast.Is()],
                                                                   comparators=node.comparators))
        return node


class TempReturn(ast.NodeTransformer):
    def _fix(self, body):
        out = []
        for st in body:
            if isinstance(st, ast.Return) and isinstance(st.value, ast.Call):
                out.append(ast.Assign(targets=[ast.Name(id='result_', ctx=ast.Store())], value=st.value))
                out.append(ast.Return(value=ast.Name(id='result_', ctx=ast.Load())))
            else:
                out.append(st)
        return out

    def generic_visit(self, node):
        super().generic_visit(node)
        for f in ('body', 'orelse', 'finalbody'):
            v = getattr(node, f, None)
            if isinstance(v, list) and v and isinstance(v[0], ast.stmt):
                setattr(node, f, self._fix(v))
        return node


class AddLogging(ast.NodeTransformer):
    """T6: a debug log call before every return / after every simple assignment of a method."""
    def __init__(self):
        self.in_method = []

    def visit_FunctionDef(self, node):
        is_method = bool(node.args.args) and node.args.args[0].arg == 'self'
        self.in_method.append(is_method)
        self.generic_visit(node)
        self.in_method.pop()
        return node

    visit_AsyncFunctionDef = visit_FunctionDef

    def _log(self):
        if self.in_method and self.in_method[-1]:
            return ast.parse("self.log_debug('trace')").body[0]
        return ast.parse("_logger.debug('trace')").body[0]

    def generic_visit(self, node):
        super().generic_visit(node)
        if not self.in_method:
            return node
        for f in ('body', 'orelse', 'finalbody'):
            v = getattr(node, f, None)
            if isinstance(v, list) and v and isinstance(v[0], ast.stmt) and not isinstance(node, ast.ClassDef):
                out = []
                for st in v:
                    if isinstance(st, ast.Return):
                        out.append(self._log())
                    out.append(st)
                    if isinstance(st, ast.Assign):
                        out.append(self._log())
                setattr(node, f, out)
        return node


class Annotate(ast.NodeTransformer):
    """T8: `x = E` -> `x: object = E` for simple local names inside functions."""
    def __init__(self):
        self.depth = 0

    def visit_FunctionDef(self, node):
        self.depth += 1
        self.generic_visit(node)
        self.depth -= 1
        return node

    visit_AsyncFunctionDef = visit_FunctionDef

    def visit_ClassDef(self, node):
        d, self.depth = self.depth, 0
        self.generic_visit(node)
        self.depth = d
        return node

    def visit_Module(self, node):
        self.skip = {n for x in ast.walk(node) if isinstance(x, (ast.Global, ast.Nonlocal)) for n in x.names}
        self.generic_visit(node)
        return node

    def visit_Assign(self, node):
        if self.depth and len(node.targets) == 1 and isinstance(node.targets[0], ast.Name) \
                and node.targets[0].id not in getattr(self, 'skip', ()):
            return ast.copy_location(ast.AnnAssign(target=node.targets[0], annotation=ast.Name(id='object', ctx=ast.Load()),
                                                   value=node.value, simple=1), node)
        return node


class ElseAfterReturn(ast.NodeTransformer):
    """T12: `if c: ...return` followed by the rest  ->  `if c: ...return  else: <rest>`."""
    def generic_visit(self, node):
        super().generic_visit(node)
        for f in ('body', 'orelse', 'finalbody'):
            v = getattr(node, f, None)
            if isinstance(v, list) and v and isinstance(v[0], ast.stmt):
                for i, st in enumerate(v):
                    if isinstance(st, ast.If) and not st.orelse and st.body and \
                            isinstance(st.body[-1], (ast.Return, ast.Raise)) and i + 1 < len(v):
                        st.orelse = v[i + 1:]
                        setattr(node, f, v[:i + 1])
                        break
        return node


class AugToAssign(ast.NodeTransformer):
    """T13: `x op= e` -> `x = x op e` for simple names and self attributes."""
    def visit_AugAssign(self, node):
        t = node.target
        if isinstance(t, ast.Name) or (isinstance(t, ast.Attribute) and isinstance(t.value, ast.Name)):
            load = ast.Name(id=t.id, ctx=ast.Load()) if isinstance(t, ast.Name) else \
                ast.Attribute(value=t.value, attr=t.attr, ctx=ast.Load())
            return ast.copy_location(ast.Assign(targets=[t], value=ast.BinOp(left=load, op=node.op, right=node.value)), node)
        return node


class ReorderKeywords(ast.NodeTransformer):
    """T14: explicit keyword arguments of calls in reverse order (no ** in between is crossed)."""
    def visit_Call(self, node):
        self.generic_visit(node)
        if len(node.keywords) >= 2 and all(k.arg is not None for k in node.keywords) and \
                all(isinstance(k.value, (ast.Name, ast.Constant, ast.Attribute)) for k in node.keywords):
            node.keywords = list(reversed(node.keywords))
        return node


class SplitAnd(ast.NodeTransformer):
    """T17: `if a and b: X` (no else) -> `if a: if b: X`."""
    def visit_If(self, node):
        self.generic_visit(node)
        if not node.orelse and isinstance(node.test, ast.BoolOp) and isinstance(node.test.op, ast.And) \
                and len(node.test.values) == 2:
            inner = ast.If(test=node.test.values[1], body=node.body, orelse=[])
            return ast.copy_location(ast.If(test=node.test.values[0], body=[inner], orelse=[]), node)
        return node


class GuardClause(ast.NodeTransformer):
    """T19: a function ending in `if c: <block>` (no else, no value returned) -> `if not c: return` + block."""
    def visit_FunctionDef(self, node):
        self.generic_visit(node)
        last = node.body[-1]
        if isinstance(last, ast.If) and not last.orelse and len(node.body) >= 2 and \
                not any(isinstance(x, (ast.Yield, ast.YieldFrom)) for x in ast.walk(node)) and \
                not isinstance(last.body[-1], (ast.Return, ast.Raise)):
            guard = ast.If(test=ast.UnaryOp(op=ast.Not(), operand=last.test), body=[ast.Return(value=None)], orelse=[])
            node.body = node.body[:-1] + [guard] + last.body
        return node

    visit_AsyncFunctionDef = visit_FunctionDef


class CircuitAlias(ast.NodeTransformer):
    """T15: methods using self.circuit at least twice get `circuit_ = self.circuit` first."""
    def visit_FunctionDef(self, node):
        self.generic_visit(node)
        uses = [x for x in ast.walk(node) if isinstance(x, ast.Attribute) and x.attr == 'circuit'
                and isinstance(x.value, ast.Name) and x.value.id == 'self' and isinstance(x.ctx, ast.Load)]
        nested = any(isinstance(x, (ast.FunctionDef, ast.AsyncFunctionDef, ast.Lambda)) and x is not node
                     for x in ast.walk(node))
        if len(uses) >= 2 and not nested and node.name != '__init__':
            class R(ast.NodeTransformer):
                def visit_Attribute(s2, a):
                    s2.generic_visit(a)
                    if a.attr == 'circuit' and isinstance(a.value, ast.Name) and a.value.id == 'self' \
                            and isinstance(a.ctx, ast.Load):
                        return ast.copy_location(ast.Name(id='circuit_', ctx=ast.Load()), a)
                    return a
            body = [R().visit(st) for st in node.body]
            first = 1 if (body and isinstance(body[0], ast.Expr) and isinstance(body[0].value, ast.Constant)) else 0
            alias = ast.parse('circuit_ = self.circuit').body[0]
            node.body = body[:first] + [alias] + body[first:]
        return node

    visit_AsyncFunctionDef = visit_FunctionDef


TRANS = {
    'T1': lambda t: t,
    'T2': lambda t: RenameLocals(t).visit(t),
    'T3': lambda t: FlipIf().visit(t),
    'T4': lambda t: CmpMirror().visit(t),
    'T5': lambda t: TempReturn().visit(t),
    'T6': lambda t: AddLogging().visit(t),
    'T8': lambda t: Annotate().visit(t),
    'T12': lambda t: ElseAfterReturn().visit(t),
    'T13': lambda t: AugToAssign().visit(t),
    'T14': lambda t: ReorderKeywords().visit(t),
    'T15': lambda t: CircuitAlias().visit(t),
    'T17': lambda t: SplitAnd().visit(t),
    'T19': lambda t: GuardClause().visit(t),
}


def transform(path, tname):
    src = open(path, encoding='utf-8').read()
    tree = ast.parse(src)
    tree = TRANS[tname](tree)
    ast.fix_missing_locations(tree)
    new = ast.unparse(tree) + '\n'
    compile(new, path, 'exec')
    return new


def work(args):
    idx, rel, tname, repo, base, run_tests = args
    from sa.main import run_property, PROPS
    d = tempfile.mkdtemp(prefix=f'e{idx}-', dir=base)
    res = {'file': rel, 'trans': tname}
    try:
        for sub in ('edzed', 'docs', 'examples', 'tests'):
            s = os.path.join(repo, sub)
            if os.path.isdir(s):
                shutil.copytree(s, os.path.join(d, sub),
                                ignore=shutil.ignore_patterns('__pycache__', '_static', '*.pyc'))
        files = [rel] if rel != '*' else [
            os.path.relpath(os.path.join(r, n), d) for r, _d, ns in os.walk(os.path.join(d, 'edzed'))
            for n in ns if n.endswith('.py') and n != 'demo.py']
        for f in files:
            new = transform(os.path.join(d, f), tname)
            with open(os.path.join(d, f), 'w', encoding='utf-8') as fh:
                fh.write(new)
        fired = {}
        for p in PROPS:
            with contextlib.redirect_stdout(io.StringIO()):
                code, ck = run_property(p, 'quick', d, 0, quiet=True)
            if code != 0:
                fired[p] = {'exit': code,
                            'viol': sorted({f"{o['rule']} :: {o['construct']}" for o in ck.obligations if not o['ok']})[:5],
                            'err': [f"{r}: {w}"[:200] for r, w in ck.analysis_errors][:3]}
        res['fired'] = fired
        if run_tests:
            env = dict(os.environ, PYTHONPATH=d, PYTHONDONTWRITEBYTECODE='1')
            r = subprocess.run(['/venv/bin/python', '-m', 'pytest', '-q', '-p', 'no:cacheprovider',
                                '--timeout=120', 'tests'], cwd=d, env=env, capture_output=True, text=True,
                               timeout=900)
            res['tests'] = r.stdout.strip().splitlines()[-1] if r.stdout.strip() else f"rc={r.returncode}"
    except Exception as err:       # pylint: disable=broad-except
        res['error'] = f"{type(err).__name__}: {err}"
    finally:
        shutil.rmtree(d, ignore_errors=True)
    return res


def main():
    ap = argparse.ArgumentParser()
    ap.add_argument('--repo', default='/repo')
    ap.add_argument('--files', default='')
    ap.add_argument('--trans', default='T1,T2,T3,T4,T5')
    ap.add_argument('--jobs', type=int, default=8)
    ap.add_argument('--tests', action='store_true')
    ap.add_argument('--whole', action='store_true', help='transform all files at once')
    args = ap.parse_args()
    files = []
    for root, _dirs, names in os.walk(os.path.join(args.repo, 'edzed')):
        for n in sorted(names):
            if n.endswith('.py') and n not in ('demo.py', 'version.py'):
                files.append(os.path.relpath(os.path.join(root, n), args.repo))
    if args.files:
        want = set(args.files.split(','))
        files = [f for f in files if os.path.basename(f) in want or f in want]
    if args.whole:
        files = ['*']
    base = tempfile.mkdtemp(prefix='edzed-equiv-')
    jobs = [(i, f, t, args.repo, base, args.tests) for i, (f, t) in
            enumerate((f, t) for t in args.trans.split(',') for f in sorted(files))]
    bad = 0
    try:
        with mp.Pool(args.jobs) as pool:
            for res in pool.imap_unordered(work, jobs, chunksize=1):
                if res.get('error') or res.get('fired'):
                    bad += 1
                    print(json.dumps(res, indent=1), flush=True)
                elif args.tests:
                    print(res['file'], res['trans'], 'silent; tests:', res.get('tests'), flush=True)
        print(f"done: {len(jobs)} transformed trees, {bad} with a non-silent check")
    finally:
        shutil.rmtree(base, ignore_errors=True)
    return 0


if __name__ == '__main__':
    sys.exit(main())
