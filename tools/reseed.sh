#!/bin/sh
# re-evaluate every kept seed against the current checks and refresh its meta.json
cd "$(dirname "$0")/.." || exit 2
for d in seeded/*/; do
  id=$(basename "$d")
  prop=$(/venv/bin/python -c "import json;print(json.load(open('$d/meta.json'))['breaks_property'])")
  needs=$(/venv/bin/python -c "import json;print(json.load(open('$d/meta.json'))['needs_to_manifest'])")
  tests=$(/venv/bin/python -c "import json;print(json.load(open('$d/meta.json'))['confirmed']['existing_suite_with_patch'])")
  /venv/bin/python tools/keep_seed.py "$d" "$id" "$prop" "$needs" --tests "$tests" | /venv/bin/python -c "
import json,sys; m=json.load(sys.stdin); print(m['id'], 'DETECTED' if m['detected'] else 'MISSED', 'target' if m['detected_by_target_property'] else '', sorted(m['checks_that_fire']), m['checks_with_analysis_error'] or '')"
done
