#!/usr/bin/env python3
"""
Development aid (NOT a registered check): generic mutation sweep used to look for blind spots of
the rules.  For every syntactic mutant of edzed/*.py (comparison boundary, negated test, and<->or,
deleted simple statement, swapped adjacent statements, constant flips, dropped `not`) it
  1. runs all 20 quick checks on a scratch copy (static, ~6 s),
  2. if no check fires, runs the repository's own test suite on the scratch copy,
and lists the mutants that survive BOTH.  Those are reviewed by hand: a surviving mutant that
breaks a property is a gap of the rules (strengthen them); an equivalent / out-of-scope one is not.

usage: tools/mutsweep.py [--files a.py,b.py] [--jobs N] [--out FILE] [--limit N] [--no-tests]
Scratch copies live under a mkdtemp directory that is removed at the end.
"""
from __future__ import annotations

import argparse
import ast
import contextlib
import io
import json
import multiprocessing as mp
import os
import shutil
import subprocess
import sys
import tempfile

HERE = os.path.dirname(os.path.dirname(os.path.abspath(__file__)))
sys.path.insert(0, HERE)

SKIP_FUNCS = {'__str__', '__repr__', 'log_msg', 'log_debug', 'log_info', 'log_warning', 'log_error',
              'debug', '_check_arg'}
LOG_CALLS = {'log_debug', 'log_info', 'log_warning', 'log_error', 'log_msg', 'debug', 'warning', 'info',
             'error', 'warn', 'log', 'exception'}

CMP_SWAP = {ast.Lt: '<=', ast.LtE: '<', ast.Gt: '>=', ast.GtE: '>', ast.Eq: '!=', ast.NotEq: '==',
            ast.Is: 'is not', ast.IsNot: 'is', ast.In: 'not in', ast.NotIn: 'in'}


def seg(src_lines, node):
    return ast.get_source_segment('\n'.join(src_lines), node)


class Collector(ast.NodeVisitor):
    def __init__(self, src):
        self.src = src
        self.lines = src.split('\n')
        self.muts = []      # (lineno, desc, (start, end), replacement)  positions = absolute offsets
        self.offs = [0]
        for ln in self.lines:
            self.offs.append(self.offs[-1] + len(ln.encode('utf-8')) + 1)
        self.bsrc = src.encode('utf-8')
        self.func = []

    def pos(self, node):
        s = self.offs[node.lineno - 1] + node.col_offset
        e = self.offs[node.end_lineno - 1] + node.end_col_offset
        return s, e

    def text(self, node):
        s, e = self.pos(node)
        return self.bsrc[s:e].decode('utf-8')

    def add(self, node, desc, s, e, repl):
        fn = '.'.join(self.func) or '<module>'
        self.muts.append({'line': node.lineno, 'func': fn, 'desc': desc, 'start': s, 'end': e, 'repl': repl})

    # -- scoping
    def visit_FunctionDef(self, node):
        if node.name in SKIP_FUNCS:
            return
        self.func.append(node.name)
        self.body(node.body)
        self.func.pop()

    visit_AsyncFunctionDef = visit_FunctionDef

    def visit_ClassDef(self, node):
        self.func.append(node.name)
        self.body(node.body)
        self.func.pop()

    def body(self, stmts):
        simple = (ast.Expr, ast.Assign, ast.AugAssign, ast.AnnAssign)
        for i, st in enumerate(stmts):
            if isinstance(st, ast.Expr) and isinstance(st.value, ast.Constant) and isinstance(st.value.value, str):
                continue    # docstring
            if self.is_log(st) or isinstance(st, (ast.Assert, ast.Import, ast.ImportFrom, ast.Global, ast.Nonlocal)):
                continue
            if isinstance(st, (ast.Raise,)):
                continue
            # delete a simple statement
            if isinstance(st, simple) and not (isinstance(st, ast.AnnAssign) and st.value is None):
                s, e = self.pos(st)
                self.add(st, f"delete `{self.text(st)[:70]}`", s, e, 'pass')
            if isinstance(st, (ast.Return,)) and st.value is not None and not isinstance(st.value, ast.Constant):
                pass
            if isinstance(st, (ast.Continue, ast.Break)):
                s, e = self.pos(st)
                self.add(st, f"{self.text(st)} -> pass", s, e, 'pass')
            # swap with the next simple statement
            if i + 1 < len(stmts) and isinstance(st, simple) and isinstance(stmts[i + 1], simple) \
                    and not self.is_log(stmts[i + 1]) and st.col_offset == stmts[i + 1].col_offset \
                    and not (isinstance(st, ast.AnnAssign) and st.value is None) \
                    and not (isinstance(stmts[i + 1], ast.AnnAssign) and stmts[i + 1].value is None):
                s, _ = self.pos(st)
                _, e = self.pos(stmts[i + 1])
                a, b = self.text(st), self.text(stmts[i + 1])
                ind = ' ' * st.col_offset
                self.add(st, f"swap `{a[:40]}` <-> `{b[:40]}`", s, e, b + '\n' + ind + a)
            self.visit(st)

    def is_log(self, st):
        if isinstance(st, ast.Expr) and isinstance(st.value, ast.Call):
            f = st.value.func
            name = f.attr if isinstance(f, ast.Attribute) else getattr(f, 'id', None)
            return name in LOG_CALLS
        return False

    def generic_visit(self, node):
        for field, value in ast.iter_fields(node):
            if field in ('body', 'orelse', 'finalbody') and isinstance(value, list) and value \
                    and isinstance(value[0], ast.stmt):
                self.body(value)
            elif isinstance(value, list):
                for item in value:
                    if isinstance(item, ast.AST):
                        self.visit(item)
            elif isinstance(value, ast.AST):
                if field in ('annotation', 'returns'):
                    continue
                self.visit(value)

    def visit_Try(self, node):
        self.body(node.body)
        for h in node.handlers:
            self.body(h.body)
        self.body(node.orelse)
        self.body(node.finalbody)

    def visit_Raise(self, node):
        return

    def visit_Assert(self, node):
        return

    def visit_Call(self, node):
        f = node.func
        name = f.attr if isinstance(f, ast.Attribute) else getattr(f, 'id', None)
        if name in LOG_CALLS or name in ('ValueError', 'TypeError', 'EdzedCircuitError', 'EdzedInvalidState',
                                         'EdzedUnknownEvent', 'RuntimeError'):
            return
        self.generic_visit(node)

    def visit_JoinedStr(self, node):
        return

    def visit_If(self, node):
        self.neg_test(node)
        self.generic_visit(node)

    def visit_While(self, node):
        if not isinstance(node.test, ast.Constant):
            self.neg_test(node)
        self.generic_visit(node)

    def visit_IfExp(self, node):
        self.neg_test(node)
        self.generic_visit(node)

    def neg_test(self, node):
        t = node.test
        s, e = self.pos(t)
        self.add(t, f"negate test `{self.text(t)[:60]}`", s, e, f"(not ({self.text(t)}))")

    def visit_Compare(self, node):
        if len(node.ops) == 1 and type(node.ops[0]) in CMP_SWAP:
            l, r = node.left, node.comparators[0]
            _, ls = self.pos(l)
            rs, _ = self.pos(r)
            new = CMP_SWAP[type(node.ops[0])]
            self.add(node, f"`{self.text(node)[:60]}` op -> {new}", ls, rs, f" {new} ")
        self.generic_visit(node)

    def visit_BoolOp(self, node):
        # flip and<->or between the first two operands
        a, b = node.values[0], node.values[1]
        _, s = self.pos(a)
        e, _ = self.pos(b)
        between = self.bsrc[s:e].decode()
        if '(' not in between and ')' not in between and '#' not in between:
            new = 'or' if isinstance(node.op, ast.And) else 'and'
            old = 'and' if isinstance(node.op, ast.And) else 'or'
            if between.count(old) == 1:
                self.add(node, f"`{self.text(node)[:60]}` {old} -> {new}", s, e, between.replace(old, new))
        self.generic_visit(node)

    def visit_UnaryOp(self, node):
        if isinstance(node.op, ast.Not):
            s, e = self.pos(node)
            self.add(node, f"drop not in `{self.text(node)[:60]}`", s, e, f"({self.text(node.operand)})")
        self.generic_visit(node)

    def visit_Constant(self, node):
        v = node.value
        s, e = self.pos(node)
        if v is True or v is False:
            self.add(node, f"{v} -> {not v}", s, e, str(not v))
        elif isinstance(v, int) and not isinstance(v, bool) and 0 <= v <= 3:
            self.add(node, f"{v} -> {v + 1}", s, e, str(v + 1))

    def visit_BinOp(self, node):
        swap = {ast.Add: '-', ast.Sub: '+'}
        if type(node.op) in swap and not isinstance(node.left, ast.Constant) or \
                (type(node.op) in swap and not isinstance(getattr(node.left, 'value', None), str)):
            if type(node.op) in swap:
                _, ls = self.pos(node.left)
                rs, _ = self.pos(node.right)
                between = self.bsrc[ls:rs].decode()
                if '(' not in between and ')' not in between:
                    old = '+' if isinstance(node.op, ast.Add) else '-'
                    if between.count(old) == 1:
                        self.add(node, f"`{self.text(node)[:50]}` {old} -> {swap[type(node.op)]}", ls, rs,
                                 between.replace(old, swap[type(node.op)]))
        self.generic_visit(node)


def mutants_of(path, rel):
    src = open(path, encoding='utf-8').read()
    col = Collector(src)
    tree = ast.parse(src)
    col.body(tree.body)
    out = []
    seen = set()
    for m in col.muts:
        new = col.bsrc[:m['start']] + m['repl'].encode() + col.bsrc[m['end']:]
        try:
            new_s = new.decode('utf-8')
            compile(new_s, rel, 'exec')
        except Exception:
            continue
        key = (m['start'], m['end'], m['repl'])
        if key in seen:
            continue
        seen.add(key)
        out.append({'file': rel, 'line': m['line'], 'func': m['func'], 'desc': m['desc'], 'new_src': new_s})
    return out


def work(args):
    idx, mut, repo, base, run_tests = args
    from sa.main import run_property, PROPS
    d = tempfile.mkdtemp(prefix=f'm{idx}-', dir=base)
    res = {'idx': idx, 'file': mut['file'], 'line': mut['line'], 'func': mut['func'], 'desc': mut['desc']}
    try:
        for sub in ('edzed', 'docs', 'examples', 'tests'):
            s = os.path.join(repo, sub)
            if os.path.isdir(s):
                shutil.copytree(s, os.path.join(d, sub),
                                ignore=shutil.ignore_patterns('__pycache__', '_static', '*.pyc'))
        with open(os.path.join(d, mut['file']), 'w', encoding='utf-8') as f:
            f.write(mut['new_src'])
        fired = {}
        for p in PROPS:
            buf = io.StringIO()
            with contextlib.redirect_stdout(buf):
                code, ck = run_property(p, 'quick', d, 0, quiet=True)
            if code != 0:
                fired[p] = code
        res['fired'] = fired
        if not fired and run_tests:
            env = dict(os.environ, PYTHONPATH=d, PYTHONDONTWRITEBYTECODE='1')
            try:
                r = subprocess.run(['/venv/bin/python', '-m', 'pytest', '-q', '-x', '-p', 'no:cacheprovider',
                                    '--timeout=120', '--deselect', 'tests/test_outputasync.py::test_executor',
                                    '--deselect', 'tests/test_outputasync.py::test_executor_args', 'tests'],
                                   cwd=d, env=env, capture_output=True, text=True, timeout=600)
                res['tests'] = 'pass' if r.returncode == 0 else 'fail'
                if r.returncode != 0:
                    tail = [l for l in r.stdout.splitlines() if l.startswith(('FAILED', 'ERROR'))]
                    res['test_fail'] = tail[:2]
            except subprocess.TimeoutExpired:
                res['tests'] = 'timeout'
    except Exception as err:       # pylint: disable=broad-except
        res['error'] = f"{type(err).__name__}: {err}"
    finally:
        shutil.rmtree(d, ignore_errors=True)
    return res


def main():
    ap = argparse.ArgumentParser()
    ap.add_argument('--repo', default='/repo')
    ap.add_argument('--files', default='')
    ap.add_argument('--jobs', type=int, default=14)
    ap.add_argument('--out', default='/tmp/mutsweep.jsonl')
    ap.add_argument('--limit', type=int, default=0)
    ap.add_argument('--no-tests', action='store_true')
    ap.add_argument('--list', action='store_true')
    ap.add_argument('--resume', action='store_true', help='skip mutants already present in --out')
    ap.add_argument('--only', default='', help='JSONL of mutants to (re)run (file, line, desc)')
    args = ap.parse_args()
    files = []
    for root, _dirs, names in os.walk(os.path.join(args.repo, 'edzed')):
        for n in sorted(names):
            if n.endswith('.py') and n not in ('demo.py', 'version.py', '__init__.py', 'exceptions.py'):
                files.append(os.path.relpath(os.path.join(root, n), args.repo))
    if args.files:
        want = set(args.files.split(','))
        files = [f for f in files if os.path.basename(f) in want or f in want]
    muts = []
    for f in sorted(files):
        muts.extend(mutants_of(os.path.join(args.repo, f), f))
    if args.only:
        want = {(r['file'], r['line'], r['desc']) for r in map(json.loads, open(args.only))}
        muts = [m for m in muts if (m['file'], m['line'], m['desc']) in want]
    done = set()
    if args.resume and os.path.isfile(args.out):
        done = {(r['file'], r['line'], r['desc']) for r in map(json.loads, open(args.out))}
        muts = [m for m in muts if (m['file'], m['line'], m['desc']) not in done]
    if args.limit:
        muts = muts[:args.limit]
    print(f"{len(muts)} mutants over {len(files)} files", flush=True)
    if args.list:
        for m in muts:
            print(m['file'], m['line'], m['func'], m['desc'])
        return 0
    base = tempfile.mkdtemp(prefix='edzed-mut-')
    n_det = n_killed = n_surv = 0
    try:
        with mp.Pool(args.jobs) as pool, open(args.out, 'a' if args.resume else 'w', encoding='utf-8') as out:
            jobs = [(i, m, args.repo, base, not args.no_tests) for i, m in enumerate(muts)]
            for res in pool.imap_unordered(work, jobs, chunksize=1):
                out.write(json.dumps(res) + '\n')
                out.flush()
                if res.get('fired'):
                    n_det += 1
                elif res.get('tests') == 'pass':
                    n_surv += 1
                    print(f"SURVIVOR {res['file']}:{res['line']} {res['func']} :: {res['desc']}", flush=True)
                else:
                    n_killed += 1
        print(f"done: {len(muts)} mutants, detected by checks {n_det}, killed by tests only {n_killed}, "
              f"survived both {n_surv}")
    finally:
        shutil.rmtree(base, ignore_errors=True)
    return 0


if __name__ == '__main__':
    sys.exit(main())
