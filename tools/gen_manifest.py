#!/usr/bin/env python3
"""Generate /verif/MANIFEST.json from the rule modules that exist (keeps it valid at all times)."""
from __future__ import annotations

import importlib
import json
import os
import sys

HERE = os.path.dirname(os.path.dirname(os.path.abspath(__file__)))
sys.path.insert(0, HERE)

BASELINE = ("cd /repo && /venv/bin/python -m pytest -ra -q -p no:cacheprovider --timeout=900 "
            "--continue-on-collection-errors")

TECH = {
    'C01': "static analysis: work-list invariants by CFG must-use / must-pass-through / dominance, ownership tables, AST truth table for Not; abstract interpretation (AST interpreter over a finite case grid) of SBlock.set_output and of the resolved And/Or/Xor/Override functions",
    'C02': "static analysis: CFG x automaton path-language inclusion (typestate), reaching definitions, ownership tables; abstract interpretation of SBlock.set_output (27 cases) and Event.send (73 filter pipelines) against the documented trace; single-traversal rule for arguments that may be one-shot iterators",
    'C03': "static analysis: typestate (action-order language) on the CFG of FSM._ctx_event, effect-freedom of rejecting exits, reaching definitions; abstract interpretation of FSM._ctx_event on 17 scenarios (recording stand-ins, re-entrant nested events) and of FSM._build_tables on 8 small tables",
    'C04': "static analysis: ownership of the timer handle, must-pass-through cancel on exit/stop, branch-effect classification of the duration case split; abstract interpretation of FSM._ctx_event (timer stop/start order, per-event duration, no timer for a passed-through state)",
    'C05': "static analysis: typestate of the init-step protocol, dominance of guards, who-may-call tables, bounded-wait shape; abstract interpretation of AddonPersistence.init_from_persistent_data (saved state restored whether or not the block is initialised) and of SBlock.event (early initialisation inside the recursion window)",
    'C06': "static analysis: save/restore protocol by must-pass-through under fault model M1, writer/reader table agreement, time-base unit typing, timer-handle clearing before delivery; abstract interpretation of the expiry decision on a (expiration, stop time, now, initialised) grid",
    'C07': "static analysis: non-emptiness domain for partial operations on the alarm registry, must-call registry protocol; abstract interpretation of interval membership (__contains__, 589 cases per class), of the scheduler's add/remove registry (all call sequences up to length 3) and of the clock-jump guard on impossible delays; who-may-call rule for the registry (reconfiguration only)",
    'C08': "static analysis: CFG with exceptional and cancellation edges (M1/M1c), linear task ownership (must-use), who-may-call, super-chain, docs<->code; abstract interpretation of Circuit.check_not_finalized (4 cases) with dominance of the gate in every mutator",
    'C09': "static analysis: write-once ownership with dominance, no-swallow handler classification against a frozen sink table; abstract interpretation of SBlock.event (23 scenarios: error raised inside a handler -> abort with cause and re-raise; call failure and unknown event -> no abort)",
    'C10': "static analysis: loop-cycle must-pass-through (counter/limit), dominance of resets by the idle point, constant folding; multi-site removed=>evaluated rule shared with C01; abstract interpretation of SBlock.set_output for 'queued before any delivery'; path rule 'counter restarts at every idle'; wiring-completeness rules shared with C01/C15",
    'C11': "static analysis: acquire/release pairing on all exits under the any-statement-may-raise fault model M2, ownership and who-may-lift tables, no-swallow table over the may-deliver call closure; abstract interpretation of FSM._ctx_event for the guard flag on every exit and the recursion window; abstract interpretation of SBlock.event (23 scenarios: refusal keeps the outer guard, guard released after every outcome, EventCond resolution incl. missing value, initialising event let through)",
    'C12': "static analysis: linear use of dequeued items (at least once and at most once, pruned path search), outcome-arm classification, counter pairing under M2, mode-shape rules; explicit-raise escape analysis on the M1 CFG of the output and control coroutines; who-may-call for the uncounted coroutine",
    'C13': "static analysis: finite abstract evaluation over the 13 weak orderings (exhaustive), literal-table agreement; abstract interpretation of __contains__ per concrete class (one and two ranges), fresh-list rule for the exporters; abstract interpretation of the date / date-time string parser (_convert_str with _match_pattern and the module's own regular expressions matched by CPython's re) on 20 well-formed and 22 malformed strings",
    'C14': "static analysis: dominance of the is_ready gate, two-point string-prefix dataflow domain, who-may-pass _reserved; abstract interpretation of Event.send (source item), CFG rule 'recorded task implies recorded error at every exit' under M1, result-passing rule for event() wrappers; signature agreement of every event() definition (positional-only type, **data)",
    'C15': "static analysis: dominance and order of resolve/connect before the freeze flag, who-must-call gate, literal<->attribute agreement of the resolver, finite abstract evaluation of the signature comparison; abstract interpretation of Const.__new__/__init__ on pairs of constants identified by equality or hashing; must-pass-through of an unconditional resolve() before the first start()",
    'C16': "static analysis: typestate of the filter pipeline, finite abstract evaluation on the truthiness domain (Edge: 144 cases) and on the key-equality domain (DataEdit, incl. pairs of deliveries), docs<->code; abstract interpretation of Event.send (73 pipelines) and of Edge with several representatives per truthiness class",
    'C17': "static analysis: reaching definitions (only validated values reach set_output / sdata), stage-order and effect-free rejection on the CFG; abstract interpretation of Input._event_put and InputExp.cond_put (also with a value already held); result-passing rule for event() wrappers",
    'C18': "static analysis: def-use agreement of output and repeat number, effect-free exits, keyword map of the implicit Repeat, key-absence dataflow for spread-plus-keyword calls; no-discard rule for the dequeue sites of the main task",
    'C19': "static analysis: regex AST <-> unit letter <-> scale tuple agreement, constant folding, branch classification, abstract evaluation of the fraction test over the pattern's separator class; abstract interpretation of _convert as a whole with stand-ins for the compiled patterns (2 930 element combinations); repeat bounds of whitespace gaps in the regex AST",
    'C20': "static analysis: reaching definitions (every output passes the modulo reduction), handler return/operand table, signatures; result-passing rule for the event() wrappers in Counter's MRO; abstract interpretation of Counter.__init__ (stored modulo keeps value and type)",
}


def main():
    props = [json.loads(l) for l in open(os.path.join(HERE, 'properties.jsonl'))]
    checks = []
    na = []
    notes_na = {}
    try:
        with open(os.path.join(HERE, 'tools', 'not_applicable.json')) as f:
            notes_na = json.load(f)
    except OSError:
        pass
    for p in props:
        pid = p['id']
        modpath = os.path.join(HERE, 'rules', f"{pid.lower()}.py")
        if pid in notes_na or not os.path.isfile(modpath):
            na.append({'property_id': pid,
                       'reason': notes_na.get(pid, "check under construction; not claimed yet")})
            continue
        mod = importlib.import_module(f"rules.{pid.lower()}")
        undec = getattr(mod, 'UNDECIDED', [])
        checks.append({
            'property_id': pid,
            'quick_cmd': f"./check {pid} --tier quick",
            'thorough_cmd': f"./check {pid} --tier thorough",
            'evidence_file': f"evidence/{pid}.json",
            'replay_cmd_template': f"./check {pid} --replay {{path}}",
            'engine': 'sa',
            'technique': TECH[pid],
            'level_claimed': {
                'category': 'other',
                'text': ("Static decision of the structural clauses of the property listed in "
                         f"DESIGN.md section 6 ({pid}): each rule is evaluated on every matching "
                         "construct of /repo's current source (all paths, exits and write sites of "
                         "the anchored functions, not sampled executions) and a violation names "
                         "file:line, rule and a witness path. It is a necessary-condition check: "
                         "breaking a decided clause breaks the behaviour; the behavioural "
                         "remainder listed in level_note is NOT decided."),
                'design_ref': f"DESIGN.md section 6, {pid}; engine section 2; verdict protocol section 3",
            },
            'level_note': ("Decides structural clauses only. NOT decided: " + ' | '.join(undec) +
                           " || Trusted base: CPython ast/re parsers; the checker's CFG/fault "
                           "models (M0 raise statements only; M1 awaits + hook calls; M2 anything "
                           "may raise); the abstract evaluators (sa/absval, dictval, minieval) and "
                           "the behaviour-preserving normalisation of the analysed AST towards "
                           "the pinned tree's spelling (E12, DESIGN.md section 13); closed-world "
                           "assumptions A1-A6 of DESIGN.md sections 1 and 13 (recorded in every "
                           "evidence file)."),
        })
    man = {
        'version': 1,
        'setup_cmd': './check --setup',
        'hooks': {
            'guard': 'EDZED_VERIF (reserved; no hook exists: the source is analysed, not instrumented)',
            'enable': "n/a - the checks parse /repo's working tree with CPython's ast; nothing is built or run",
            'baseline_off_cmd': BASELINE,
            'source_commits': [],
            'add_only': True,
        },
        'engines': [{
            'name': 'sa', 'path': 'sa/',
            'serves_properties': [c['property_id'] for c in checks],
            'kind_free_text': "repository-specific static analyser: AST loader with C3 MRO, "
                              "statement CFGs with exceptional edges and three fault models, "
                              "dominators, reaching definitions, typestate (CFG x NFA), finite "
                              "abstract evaluation, literal/regex table folding, docs<->code",
        }],
        'checks': checks,
        'not_applicable': na,
        'notes': ("All checks are static (no code of /repo is imported or executed). Thorough = "
                  "quick rules on the wider scope + self-validation of the rules on violating / "
                  "equivalent variants of the current tree in scratch copies (mkdtemp, removed). "
                  "Repairs of genuine defects found by the rules are `fix:` commits in /repo and "
                  "are listed in known_findings.json."),
    }
    with open(os.path.join(HERE, 'MANIFEST.json'), 'w') as f:
        json.dump(man, f, indent=1)
        f.write('\n')
    print(f"MANIFEST: {len(checks)} checks, {len(na)} not applicable")


if __name__ == '__main__':
    main()
