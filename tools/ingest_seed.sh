#!/bin/sh
# usage: tools/ingest_seed.sh <Cxx> <k> "<needs to manifest>"
# Confirms a sub-agent's seeded change in its scratch worktree /tmp/wt-<Cxx> (suite passes with the
# patch; demo fails with it and passes without), then keeps it as /verif/seeded/<Cxx>-<k>/.
P=$1; K=$2; NEEDS=$3; ID=${4:-$2}
WT=/tmp/wt-$P; SD=$WT/_seed/$K
cd "$WT" || exit 2
git checkout -q -- edzed || exit 2
git apply --check "$SD/patch.diff" || { echo "patch does not apply"; exit 2; }
PYTHONPATH=$WT /venv/bin/python "$SD/demo.py" >/dev/null 2>&1; echo "demo clean exit=$?"
git apply "$SD/patch.diff"
PYTHONPATH=$WT /venv/bin/python "$SD/demo.py" >/dev/null 2>&1; echo "demo patched exit=$?"
OUT=$(PYTHONPATH=$WT /venv/bin/python -m pytest -q -p no:cacheprovider --timeout=900 tests 2>&1)
T=$(echo "$OUT" | tail -1)
echo "suite with patch: $T"
FAILED=$(echo "$OUT" | grep '^FAILED' | sed 's/^FAILED //; s/ - .*//')
if [ -n "$FAILED" ]; then
  echo "failed: $FAILED -- re-running those (timing-sensitive tests fail under load)"
  T2=$(PYTHONPATH=$WT /venv/bin/python -m pytest -q -p no:cacheprovider --timeout=900 $FAILED 2>&1 | tail -1)
  echo "re-run: $T2"
  T="$T; re-run of [$FAILED] alone: $T2"
fi
git checkout -q -- edzed
cd /verif && /venv/bin/python tools/keep_seed.py "$SD" "$P-$ID" "$P" "$NEEDS" --tests "$T"
