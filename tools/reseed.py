#!/usr/bin/env python3
"""Re-evaluate every kept seed against the current checks in parallel and refresh its meta.json
(the detection fields only; confirmation data and first_result are kept).
usage: tools/reseed.py [jobs] [id-prefix ...]"""
import json, os, subprocess, sys
from concurrent.futures import ThreadPoolExecutor
HERE = os.path.dirname(os.path.dirname(os.path.abspath(__file__)))
jobs = int(sys.argv[1]) if len(sys.argv) > 1 and sys.argv[1].isdigit() else 12
prefixes = tuple(a for a in sys.argv[1:] if not a.isdigit())


def one(d):
    r = subprocess.run(['/venv/bin/python', 'tools/seedcheck.py', d], cwd=HERE, capture_output=True, text=True)
    try:
        return d, json.loads(r.stdout)
    except ValueError:
        return d, None


dirs = sorted(os.path.join('seeded', x) for x in os.listdir(os.path.join(HERE, 'seeded'))
              if os.path.isfile(os.path.join(HERE, 'seeded', x, 'meta.json')) and
              (not prefixes or x.startswith(prefixes)))
tgt = oth = miss = 0
with ThreadPoolExecutor(jobs) as ex:
    for d, res in ex.map(one, dirs):
        mp = os.path.join(HERE, d, 'meta.json')
        meta = json.load(open(mp))
        if res is None or 'fired' not in res:
            print(d, 'evaluation failed', res)
            continue
        prop = meta['breaks_property']
        fired = res['fired']
        meta['checks_that_fire'] = {p: v['violations'] for p, v in fired.items() if v['exit'] == 1}
        meta['checks_with_analysis_error'] = {p: v['errors'] for p, v in fired.items() if v['exit'] == 2}
        meta['detected'] = any(v['exit'] == 1 for v in fired.values())
        meta['detected_by_target_property'] = fired.get(prop, {}).get('exit') == 1
        json.dump(meta, open(mp, 'w'), indent=1)
        st = 'target' if meta['detected_by_target_property'] else ('other' if meta['detected'] else 'MISSED')
        tgt += st == 'target'; oth += st == 'other'; miss += st == 'MISSED'
        print(meta['id'], st, {p: sorted({x.split(' :: ')[0] for x in v}) for p, v in meta['checks_that_fire'].items()},
              ('exit2: ' + ','.join(sorted(meta['checks_with_analysis_error']))) if meta['checks_with_analysis_error'] else '')
print(f'{len(dirs)} seeds: target {tgt}, other property only {oth}, missed {miss}')
