#!/usr/bin/env python3
"""Regenerate sa/localnames.json (reference local names of every function of the pinned tree).
Run it only against a tree on which all checks pass: it freezes the local names the rules use."""
import ast, json, os, sys
HERE = os.path.dirname(os.path.dirname(os.path.abspath(__file__)))
sys.path.insert(0, HERE)
from sa import alpha
repo = sys.argv[1] if len(sys.argv) > 1 else '/repo'
pkg = os.path.join(repo, 'edzed')
mods = {}
for root, dirs, files in os.walk(pkg):
    dirs[:] = sorted(d for d in dirs if d != '__pycache__')
    for fn in sorted(files):
        if fn.endswith('.py'):
            path = os.path.join(root, fn)
            rel = os.path.relpath(path, pkg)
            parts = rel[:-3].split(os.sep)
            if parts[-1] == '__init__':
                parts = parts[:-1]
            mods['.'.join(parts)] = ast.parse(open(path, encoding='utf-8').read())
ref = alpha.build_reference(mods)
with open(alpha.REF_PATH, 'w', encoding='utf-8') as f:
    json.dump(ref, f, indent=0, sort_keys=True)
    f.write('\n')
print(sum(len(v) for v in ref.values()), 'functions with locals in', len(ref), 'modules')
