#!/usr/bin/env python3
"""
Evaluate a seeded change against the checks WITHOUT touching /repo: copy the current /repo tree
(edzed, docs, examples, tests) to a scratch directory, apply <seed>/patch.diff there, run all
(or selected) properties' quick checks with --repo <scratch>, and optionally run the seed's
demonstration with and without the patch. The scratch directory is removed afterwards.

usage: tools/seedcheck.py <seed-dir> [--demo] [--props C01,C02]
"""
from __future__ import annotations

import argparse
import contextlib
import io
import json
import os
import shutil
import subprocess
import sys
import tempfile

HERE = os.path.dirname(os.path.dirname(os.path.abspath(__file__)))
sys.path.insert(0, HERE)


def copy_tree(repo, dst):
    for d in ('edzed', 'docs', 'examples', 'tests'):
        src = os.path.join(repo, d)
        if os.path.isdir(src):
            shutil.copytree(src, os.path.join(dst, d),
                            ignore=shutil.ignore_patterns('__pycache__', '_static', '*.pyc'))


def run_demo(tree, demo):
    env = dict(os.environ, PYTHONPATH=tree, PYTHONDONTWRITEBYTECODE='1')
    # demonstrations may locate the tree relative to themselves (<tree>/_seed/<k>/demo.py)
    place = os.path.join(tree, '_seed', 'k')
    os.makedirs(place, exist_ok=True)
    shutil.copy(demo, os.path.join(place, 'demo.py'))
    demo = os.path.join(place, 'demo.py')
    try:
        r = subprocess.run(['/venv/bin/python', demo], cwd=tree, env=env, capture_output=True,
                           text=True, timeout=120)
        return r.returncode, (r.stdout + r.stderr)[-600:]
    except subprocess.TimeoutExpired:
        return 124, 'timeout'


def main():
    ap = argparse.ArgumentParser()
    ap.add_argument('seed')
    ap.add_argument('--demo', action='store_true')
    ap.add_argument('--props', default='')
    ap.add_argument('--repo', default='/repo')
    ap.add_argument('--verbose', action='store_true')
    args = ap.parse_args()
    patch = os.path.join(args.seed, 'patch.diff')
    demo = next((os.path.join(args.seed, n) for n in ('demo.py', 'demo_test.py', 'test_demo.py')
                 if os.path.isfile(os.path.join(args.seed, n))), None)
    from sa.main import run_property, PROPS
    props = [p for p in args.props.split(',') if p] or PROPS
    tmp = tempfile.mkdtemp(prefix='edzed-seed-')
    result = {'seed': args.seed}
    try:
        copy_tree(args.repo, tmp)
        if args.demo and demo:
            result['demo_clean'] = run_demo(tmp, demo)[0]
        r = subprocess.run(['git', 'apply', '--unsafe-paths', f'--directory={tmp}', os.path.abspath(patch)],
                           cwd='/', capture_output=True, text=True)
        if r.returncode != 0:
            r = subprocess.run(['patch', '-p1', '-s', '-i', os.path.abspath(patch)], cwd=tmp,
                               capture_output=True, text=True)
        if r.returncode != 0:
            result['error'] = f"patch does not apply: {r.stderr[-300:]} {r.stdout[-300:]}"
            print(json.dumps(result, indent=1))
            return 2
        if args.demo and demo:
            rc, out = run_demo(tmp, demo)
            result['demo_patched'] = rc
            if args.verbose:
                result['demo_output'] = out
        try:
            known = {(e['rule'], e['construct']) for e in json.load(open(os.path.join(HERE, 'known_findings.json')))['findings']
                     if e.get('status') == 'known'}
        except (OSError, ValueError, KeyError):
            known = set()
        fired = {}
        for p in props:
            buf = io.StringIO()
            with contextlib.redirect_stdout(buf):
                code, ck = run_property(p, 'quick', tmp, 0, quiet=True)
            if code != 0:
                fired[p] = {'exit': code,
                            'violations': sorted({f"{o['rule']} :: {o['construct']}" for o in ck.obligations
                                                  if not o['ok'] and (o['rule'], o['construct']) not in known})[:6],
                            'errors': [f"{r_}: {w}" for r_, w in ck.analysis_errors][:3]}
        result['fired'] = fired
        print(json.dumps(result, indent=1))
        return 0
    finally:
        shutil.rmtree(tmp, ignore_errors=True)


if __name__ == '__main__':
    sys.exit(main())
