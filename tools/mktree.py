#!/usr/bin/env python3
"""usage: tools/mktree.py <T1..T5> <dest-dir> : write a transformed copy of /repo (see equivsweep.py)"""
import os, shutil, sys
HERE = os.path.dirname(os.path.dirname(os.path.abspath(__file__)))
sys.path.insert(0, HERE)
sys.path.insert(0, os.path.join(HERE, 'tools'))
import equivsweep as E
t, dst = sys.argv[1], sys.argv[2]
repo = sys.argv[3] if len(sys.argv) > 3 else '/repo'
shutil.rmtree(dst, ignore_errors=True)
for sub in ('edzed', 'docs', 'examples', 'tests'):
    shutil.copytree(os.path.join(repo, sub), os.path.join(dst, sub),
                    ignore=shutil.ignore_patterns('__pycache__', '_static', '*.pyc'))
for r, _d, ns in os.walk(os.path.join(dst, 'edzed')):
    for n in ns:
        if n.endswith('.py') and n != 'demo.py':
            p = os.path.join(r, n)
            new = E.transform(p, t)
            open(p, 'w').write(new)
print('written', dst)
