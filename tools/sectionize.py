#!/usr/bin/env python3
"""One-off source transformation of rules/cXX.py: wrap every rule section of run(ck) in
`with ck.section('<rule id>'):` so that an abstention (AnalysisError) of one section no longer
hides the verdicts of the others.  Sections = the statements after the last top-level ck.rule()
registration, split at the `# ---- Rxx.y` marker comments."""
import ast, re, sys

def transform(path):
    src = open(path).read()
    lines = src.split('\n')
    tree = ast.parse(src)
    run = next(n for n in tree.body if isinstance(n, ast.FunctionDef) and n.name == FN)
    body = run.body
    if any(isinstance(s, ast.With) and 'ck.section' in ast.unparse(s.items[0].context_expr) for s in body):
        print(path, 'already sectionized'); return
    marker = re.compile(r'^    # -{4,}.*?(R\d\d\.\d+\w*)')
    markers = [(i + 1, m.group(1)) for i, l in enumerate(lines) if (m := marker.match(l))]
    last_reg = -1
    for i, st in enumerate(body):
        if markers and st.lineno > markers[0][0]:
            break
        if not isinstance(st, (ast.Assign, ast.Expr, ast.Import, ast.ImportFrom)):
            break
        if isinstance(st, ast.Assign) and isinstance(st.value, ast.Call) and ast.unparse(st.value.func) == 'ck.rule':
            last_reg = i
    first = last_reg + 1
    # imports / plain setup right after the registrations stay outside
    prop = re.search(r'c(\d\d)\.py$', path).group(1)
    groups = []     # (label, start_line, end_line) 1-based inclusive
    cur = None
    prev_end = body[first - 1].end_lineno if first > 0 else run.body[0].lineno - 1
    for st in body[first:]:
        ms = [m for m in markers if m[0] < st.lineno]
        label = ms[-1][1] if ms and ms[-1][0] > (body[first - 1].end_lineno if first > 0 else run.lineno) else f'R{prop}.1'
        # start of this statement incl. its leading comment lines
        start = prev_end + 1
        if cur is not None and cur[0] == label:
            cur[2] = st.end_lineno
        else:
            if cur is not None:
                groups.append(tuple(cur))
            cur = [label, start, st.end_lineno]
        prev_end = st.end_lineno
    if cur is not None:
        groups.append(tuple(cur))
    out = lines[:]
    for label, a, b in reversed(groups):
        seg = out[a - 1:b]
        # leading blank lines stay outside
        k = 0
        while k < len(seg) and not seg[k].strip():
            k += 1
        new = seg[:k] + [f"    with ck.section('{label}'):"] + [('    ' + l) if l.strip() else l for l in seg[k:]]
        out[a - 1:b] = new
    new_src = '\n'.join(out)
    # verify: same statements modulo the With wrappers
    t2 = ast.parse(new_src)
    run2 = next(n for n in t2.body if isinstance(n, ast.FunctionDef) and n.name == FN)
    flat = []
    for st in run2.body:
        if isinstance(st, ast.With) and 'ck.section' in ast.unparse(st.items[0].context_expr):
            flat.extend(st.body)
        else:
            flat.append(st)
    def nd(st):
        st = ast.parse(ast.unparse(st))
        for n in ast.walk(st):
            if isinstance(n, ast.Constant) and isinstance(n.value, str):
                n.value = ' '.join(n.value.split())
        return ast.dump(st)
    assert [nd(s) for s in flat] == [nd(s) for s in body], path
    open(path, 'w').write(new_src)
    print(path, [g[0] for g in groups])

import os
FN = os.environ.get('FN', 'run')
for p in sys.argv[1:]:
    transform(p)
