#!/usr/bin/env python3
"""usage: tools/ingest_refactor.py <Cxx> <k> [offset]
Confirms a sub-agent's BEHAVIOUR-PRESERVING refactoring in its scratch worktree /tmp/wt-<Cxx>
(patch applies; full suite passes with it, timing-sensitive failures re-run alone), keeps it as
/verif/refactorings/<Cxx>-r<k>/ and records which checks (must be none) are not silent on it."""
import json, os, shutil, subprocess, sys
HERE = os.path.dirname(os.path.dirname(os.path.abspath(__file__)))
P, K = sys.argv[1], sys.argv[2]
wt = f'/tmp/wt-{P}'
sd = f'{wt}/_seed/{K}'
OFF = int(sys.argv[3]) if len(sys.argv) > 3 else 0
RID = f'{P}-r{int(K) + OFF}'
dst = os.path.join(HERE, 'refactorings', RID)
def run(cmd, **kw):
    return subprocess.run(cmd, shell=True, capture_output=True, text=True, **kw)
run('git checkout -q -- edzed', cwd=wt)
if run(f'git apply --check {sd}/patch.diff', cwd=wt).returncode:
    print('patch does not apply'); sys.exit(2)
run(f'git apply {sd}/patch.diff', cwd=wt)
env = dict(os.environ, PYTHONPATH=wt)
r = run('/venv/bin/python -m pytest -q -p no:cacheprovider --timeout=900 tests', cwd=wt, env=env)
tail = r.stdout.strip().splitlines()[-1] if r.stdout.strip() else ''
failed = [l.split()[1] for l in r.stdout.splitlines() if l.startswith('FAILED')]
if failed:
    r2 = run('/venv/bin/python -m pytest -q -p no:cacheprovider --timeout=900 ' + ' '.join(failed), cwd=wt, env=env)
    tail += f"; re-run of {failed} alone: {r2.stdout.strip().splitlines()[-1] if r2.stdout.strip() else ''}"
run('git checkout -q -- edzed', cwd=wt)
os.makedirs(dst, exist_ok=True)
for n in ('patch.diff', 'README.md'):
    if os.path.isfile(f'{sd}/{n}'):
        shutil.copy(f'{sd}/{n}', dst)
r = run(f'/venv/bin/python tools/seedcheck.py {dst}', cwd=HERE)
res = json.loads(r.stdout)
meta = {'id': RID, 'round': 2 if OFF else 1, 'around_property': P, 'kind': 'behaviour-preserving refactoring',
        'origin': 'independent sub-agent given only the property text and a scratch worktree of /repo',
        'suite_with_patch': tail,
        'checks_not_silent': res.get('fired', {}), 'silent': not res.get('fired')}
json.dump(meta, open(os.path.join(dst, 'meta.json'), 'w'), indent=1)
print(meta['id'], tail, 'SILENT' if meta['silent'] else json.dumps(meta['checks_not_silent'])[:600])
