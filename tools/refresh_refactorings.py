#!/usr/bin/env python3
"""Re-evaluate every kept refactoring against the current checks (all 20 properties) and refresh
its meta.json: `first_result` keeps what the checks said when it was ingested, `silent` /
`checks_not_silent` say what they say now.   usage: tools/refresh_refactorings.py [jobs]"""
import json, os, subprocess, sys
from concurrent.futures import ThreadPoolExecutor
HERE = os.path.dirname(os.path.dirname(os.path.abspath(__file__)))


def one(d):
    r = subprocess.run(['/venv/bin/python', 'tools/seedcheck.py', d], cwd=HERE, capture_output=True, text=True)
    try:
        res = json.loads(r.stdout)
    except ValueError:
        return d, None
    return d, res.get('fired', {})


dirs = sorted(os.path.join('refactorings', x) for x in os.listdir(os.path.join(HERE, 'refactorings'))
              if os.path.isfile(os.path.join(HERE, 'refactorings', x, 'meta.json')))
jobs = int(sys.argv[1]) if len(sys.argv) > 1 and sys.argv[1].isdigit() else 8
only = tuple(a for a in sys.argv[1:] if not a.isdigit())     # optional ids: refresh only these
if only:
    dirs = [d for d in dirs if os.path.basename(d) in only]
silent = 0
with ThreadPoolExecutor(jobs) as ex:
    for d, fired in ex.map(one, dirs):
        mp = os.path.join(HERE, d, 'meta.json')
        meta = json.load(open(mp))
        if fired is None:
            print(d, 'evaluation failed')
            continue
        if 'first_result' not in meta:
            meta['first_result'] = 'SILENT' if meta.get('silent') else 'NOT SILENT: ' + ', '.join(
                sorted(meta.get('checks_not_silent', {})))
        meta['silent'] = not fired
        meta['checks_not_silent'] = {k: {'exit': v.get('exit'), 'rules': sorted(
            {x.split(' :: ')[0] for x in v.get('violations', [])} | {x.split(':')[0] for x in v.get('errors', [])})}
            for k, v in fired.items()}
        json.dump(meta, open(mp, 'w'), indent=1)
        silent += not fired
        print(os.path.basename(d), 'SILENT' if not fired else 'fires ' + ' '.join(sorted(fired)))
print(f'{silent} of {len(dirs)} refactorings leave all checks silent')
