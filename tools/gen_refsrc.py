#!/usr/bin/env python3
"""Regenerate sa/reference_src.json (E13: the reference form of every function of the pinned tree).
Run it only against a tree on which all checks pass."""
import json, os, sys
HERE = os.path.dirname(os.path.dirname(os.path.abspath(__file__)))
sys.path.insert(0, HERE)
from sa import summary
repo = sys.argv[1] if len(sys.argv) > 1 else '/repo'
pkg = os.path.join(repo, 'edzed')
mods = {}
for root, dirs, files in os.walk(pkg):
    dirs[:] = sorted(d for d in dirs if d != '__pycache__')
    for fn in sorted(files):
        if fn.endswith('.py'):
            path = os.path.join(root, fn)
            rel = os.path.relpath(path, pkg)
            parts = rel[:-3].split(os.sep)
            if parts[-1] == '__init__':
                parts = parts[:-1]
            mods['.'.join(parts)] = open(path, encoding='utf-8').read()
ref = summary.build_reference_src(mods)
with open(summary.REFSRC_PATH, 'w', encoding='utf-8') as f:
    json.dump(ref, f, indent=0, sort_keys=True)
    f.write('\n')
print(sum(len(v['funcs']) for v in ref.values()), 'functions in', len(ref), 'modules')
