#!/usr/bin/env python3
"""Copy a confirmed seeded change into /verif/seeded/<id>/ and record what was run.
usage: tools/keep_seed.py <src-dir> <id> <property> "<what it needs to manifest>" [--tests "<suite result>"]"""
import json, os, shutil, subprocess, sys

HERE = os.path.dirname(os.path.dirname(os.path.abspath(__file__)))
src, sid, prop, needs = sys.argv[1:5]
tests = sys.argv[6] if len(sys.argv) > 6 and sys.argv[5] == '--tests' else ''
dst = os.path.join(HERE, 'seeded', sid)
os.makedirs(dst, exist_ok=True)
for n in os.listdir(src):
    if n.endswith(('.diff', '.py', '.md')) and os.path.abspath(src) != os.path.abspath(dst):
        shutil.copy(os.path.join(src, n), os.path.join(dst, n))
r = subprocess.run([sys.executable, os.path.join(HERE, 'tools', 'seedcheck.py'), dst, '--demo'],
                   capture_output=True, text=True, cwd=HERE)
res = json.loads(r.stdout)
meta = {
    'id': sid,
    'breaks_property': prop,
    'origin': 'independent sub-agent given only the property text and a scratch worktree of /repo',
    'needs_to_manifest': needs,
    'confirmed': {
        'demo_exit_on_unchanged_tree': res.get('demo_clean'),
        'demo_exit_with_patch': res.get('demo_patched'),
        'existing_suite_with_patch': tests or 'see README.md',
        'how': 'tools/seedcheck.py <dir> --demo : scratch copy of /repo (mkdtemp), git apply patch.diff, '
               'PYTHONPATH=<copy> /venv/bin/python demo.py before and after, then ./check --all --repo <copy>',
    },
    'checks_that_fire': {p: v['violations'] for p, v in res.get('fired', {}).items() if v['exit'] == 1},
    'checks_with_analysis_error': {p: v['errors'] for p, v in res.get('fired', {}).items() if v['exit'] == 2},
    'detected': any(v['exit'] == 1 for p, v in res.get('fired', {}).items()),
    'detected_by_target_property': res.get('fired', {}).get(prop, {}).get('exit') == 1,
}
try:
    prev = json.load(open(os.path.join(dst, 'meta.json')))
except (OSError, ValueError):
    prev = {}
# what the checks said when the change was first evaluated (kept across re-evaluations)
meta['first_result'] = prev.get('first_result') or (
    'caught by the target property' if meta['detected_by_target_property'] else
    ('caught by another property only: ' + ', '.join(sorted(meta['checks_that_fire'])) if meta['detected']
     else ('analysis error only (exit 2): ' + ', '.join(sorted(meta['checks_with_analysis_error']))
           if meta['checks_with_analysis_error'] else 'MISSED')))
if prev.get('strengthened'):
    meta['strengthened'] = prev['strengthened']
json.dump(meta, open(os.path.join(dst, 'meta.json'), 'w'), indent=1)
print(json.dumps({k: meta[k] for k in ('id', 'detected', 'detected_by_target_property', 'checks_that_fire',
                                       'checks_with_analysis_error')}, indent=1))
