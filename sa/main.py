"""Command line of the checker."""
from __future__ import annotations

import argparse
import importlib
import json
import os
import sys
import traceback

from .loader import AnalysisError
from .report import Check, VERIF

PROPS = [f"C{i:02d}" for i in range(1, 21)]


def run_property(prop: str, tier: str, repo: str, seed: int, quiet: bool = False) -> tuple[int, Check]:
    ck = Check(prop, tier, repo, seed, quiet=quiet)
    try:
        mod = importlib.import_module(f"rules.{prop.lower()}")
    except ModuleNotFoundError:
        print(f"ANALYSIS-ERROR property={prop} rule=- reason=no rule set implemented")
        return 2, ck
    try:
        from .assumptions import check_a1
        for prob in check_a1(ck):
            ck.analysis_errors.append(('A1', prob))
        mod.run(ck)
    except AnalysisError as err:
        ck.analysis_errors.append((err.rule, err.reason))
    except Exception as err:        # the checker itself failed: never a verdict
        tb = traceback.format_exc(limit=6)
        ck.analysis_errors.append(('internal', f"{type(err).__name__}: {err} :: {tb.splitlines()[-3:]}"))
    code = ck.finish()
    return code, ck


def main(argv=None) -> int:
    ap = argparse.ArgumentParser(prog='check')
    ap.add_argument('prop', nargs='?')
    ap.add_argument('--tier', default=None, choices=['quick', 'thorough'])
    ap.add_argument('--repo', default='/repo')
    ap.add_argument('--replay')
    ap.add_argument('--setup', action='store_true')
    ap.add_argument('--all', action='store_true')
    ap.add_argument('--selftest', nargs='?', const='all')
    ap.add_argument('--jobs', type=int, default=0)
    ap.add_argument('--list', action='store_true')
    args = ap.parse_args(argv)
    try:
        seed = int(os.environ.get('VERIF_SEED', '0'))
    except ValueError:
        seed = 0
    if args.tier is None:       # an explicit --tier wins over the environment
        args.tier = os.environ.get('VERIF_TIER') if os.environ.get('VERIF_TIER') in ('quick', 'thorough') \
            else 'quick'

    if args.setup:
        from . import setup as setup_mod
        return setup_mod.run(args.repo)
    if args.selftest:
        from selftest import runner
        return runner.main(args.selftest, args.repo, args.jobs)
    if args.all:
        worst = 0
        for p in PROPS:
            code, _ = run_property(p, args.tier, args.repo, seed)
            worst = max(worst, code)
        return worst
    if not args.prop or args.prop not in PROPS:
        ap.error("property id C01..C20 required")
    if args.replay:
        try:
            with open(args.replay, encoding='utf-8') as f:
                rp = json.load(f)
        except (OSError, ValueError) as err:
            print(f"ANALYSIS-ERROR property={args.prop} rule=replay reason=cannot read {args.replay}: {err}")
            return 2
        code, ck = run_property(args.prop, rp.get('tier', 'quick'), args.repo, seed, quiet=True)
        hits = [o for o in ck.obligations
                if o['rule'] == rp.get('rule') and o['construct'] == rp.get('construct')]
        print(f"replay of {rp.get('rule')} on construct {rp.get('construct')!r}")
        print(f"  rule: {rp.get('sentence')}")
        if not hits:
            print("  the construct is no longer matched by the rule on the current tree")
            return 0 if code == 0 else code
        bad = [o for o in hits if not o['ok']]
        for o in hits:
            print(f"  {o['where']}: {'VIOLATED' if not o['ok'] else 'holds'} -- {o['msg']}")
            for line in (o.get('witness') or []):
                print(f"      | {line}")
        if bad:
            print(f"VIOLATION property={args.prop} replay={args.replay}")
            return 1
        return 0
    if args.tier == 'thorough':
        code, ck = run_property(args.prop, 'thorough', args.repo, seed)
        if code != 0:
            # the tree itself does not pass: self-validation of the rules on variants of a
            # violating tree would be meaningless (every 'equivalent' variant inherits the hit)
            print(f"{args.prop} selftest: skipped (the analysed tree does not pass)")
            return code
        from selftest import runner
        st = runner.for_property(args.prop, args.repo, args.jobs, ck)
        return code if code else st
    code, _ = run_property(args.prop, args.tier, args.repo, seed)
    return code


if __name__ == '__main__':
    try:
        rc = main()
    except SystemExit:
        raise
    except BaseException as err:     # pylint: disable=broad-except
        print(f"ANALYSIS-ERROR property=? rule=internal reason={type(err).__name__}: {err}")
        traceback.print_exc()
        rc = 2
    sys.stdout.flush()
    sys.exit(rc)
