"""
E10 -- literal folding and table extraction (no repository code is executed: the folder is a
small interpreter over literal nodes, names bound to literals and a handful of pure builtins).
"""
from __future__ import annotations

import ast
import re

try:
    import re._parser as sre_parse       # Python 3.11+
    import re._constants as sre_constants
except ImportError:                       # pragma: no cover
    import sre_parse
    import sre_constants

from .loader import AnalysisError, Program, Module, norm


class Unfoldable(Exception):
    pass


def fold(prog: Program, mod: Module, expr, _depth=0, local=None):
    """Fold a constant expression; raises Unfoldable."""
    if _depth > 20:
        raise Unfoldable("too deep")
    f = lambda e: fold(prog, mod, e, _depth + 1, local)
    if isinstance(expr, ast.Constant):
        return expr.value
    if isinstance(expr, ast.Name):
        if local and expr.id in local:
            return local[expr.id]
        b = prog.lookup(mod, expr.id)
        if b is None or b[0] != 'value':
            if expr.id in ('None', 'True', 'False'):
                return {'None': None, 'True': True, 'False': False}[expr.id]
            raise Unfoldable(f"name {expr.id}")
        # the defining module may differ (star import): find it
        target_mod = _defining_module(prog, mod, expr.id) or mod
        return fold(prog, target_mod, b[1], _depth + 1, None)
    if isinstance(expr, ast.Attribute):
        b = prog.resolve_expr(mod, expr)
        if b is not None and b[0] == 'value':
            base = prog.resolve_expr(mod, expr.value)
            tm = prog.modules.get(base[1]) if base and base[0] == 'module' else mod
            return fold(prog, tm or mod, b[1], _depth + 1, None)
        t = norm(expr)
        if t.startswith('re.'):
            flag = getattr(re, expr.attr, None)
            if isinstance(flag, re.RegexFlag):
                return flag
        raise Unfoldable(t)
    if isinstance(expr, (ast.Tuple, ast.List)):
        vals = []
        for e in expr.elts:
            if isinstance(e, ast.Starred):
                vals.extend(f(e.value))
            else:
                vals.append(f(e))
        return tuple(vals) if isinstance(expr, ast.Tuple) else vals
    if isinstance(expr, ast.Set):
        return {f(e) for e in expr.elts}
    if isinstance(expr, ast.Dict):
        return {f(k): f(v) for k, v in zip(expr.keys, expr.values)}
    if isinstance(expr, ast.UnaryOp):
        v = f(expr.operand)
        if isinstance(expr.op, ast.USub):
            return -v
        if isinstance(expr.op, ast.UAdd):
            return +v
        if isinstance(expr.op, ast.Not):
            return not v
        raise Unfoldable("unary")
    if isinstance(expr, ast.BinOp):
        l, r = f(expr.left), f(expr.right)
        ops = {ast.Add: lambda a, b: a + b, ast.Sub: lambda a, b: a - b,
               ast.Mult: lambda a, b: a * b, ast.Div: lambda a, b: a / b,
               ast.FloorDiv: lambda a, b: a // b, ast.Mod: lambda a, b: a % b,
               ast.BitOr: lambda a, b: a | b, ast.Pow: lambda a, b: a ** b}
        fn = ops.get(type(expr.op))
        if fn is None:
            raise Unfoldable("binop")
        try:
            return fn(l, r)
        except Exception as err:
            raise Unfoldable(str(err)) from None
    if isinstance(expr, ast.Subscript):
        v = f(expr.value)
        s = expr.slice
        try:
            if isinstance(s, ast.Slice):
                lo = f(s.lower) if s.lower is not None else None
                hi = f(s.upper) if s.upper is not None else None
                st = f(s.step) if s.step is not None else None
                return v[lo:hi:st]
            return v[f(s)]
        except Unfoldable:
            raise
        except Exception as err:
            raise Unfoldable(str(err)) from None
    if isinstance(expr, ast.JoinedStr):
        parts = []
        for v in expr.values:
            if isinstance(v, ast.Constant):
                parts.append(str(v.value))
            elif isinstance(v, ast.FormattedValue) and v.format_spec is None and v.conversion == -1:
                parts.append(str(f(v.value)))
            else:
                raise Unfoldable("f-string")
        return ''.join(parts)
    if isinstance(expr, ast.Call):
        if isinstance(expr.func, ast.Attribute) and expr.func.attr == 'split' and \
                not expr.keywords and len(expr.args) <= 1:
            base = f(expr.func.value)
            if isinstance(base, str):
                return base.split(*[f(a) for a in expr.args])
        if isinstance(expr.func, ast.Name) and expr.func.id in ('tuple', 'list', 'frozenset',
                                                               'set', 'len', 'sorted') \
                and len(expr.args) == 1 and not expr.keywords:
            v = f(expr.args[0])
            return {'tuple': tuple, 'list': list, 'frozenset': frozenset, 'set': set,
                    'len': len, 'sorted': sorted}[expr.func.id](v)
        raise Unfoldable(f"call {norm(expr)[:40]}")
    raise Unfoldable(type(expr).__name__)


def _defining_module(prog: Program, mod: Module, name: str, _seen=None):
    _seen = _seen or set()
    if mod.name in _seen:
        return None
    _seen.add(mod.name)
    b = mod.bindings.get(name)
    if b is not None:
        if b[0] == 'import':
            tgt = prog.modules.get(b[1])
            return _defining_module(prog, tgt, b[2], _seen) if tgt else None
        return mod
    for base in mod.star_imports:
        tgt = prog.modules.get(base)
        if tgt is not None:
            r = _defining_module(prog, tgt, name, _seen)
            if r is not None:
                return r
    return None


def compiled_patterns(prog: Program, mod: Module) -> dict:
    """Module-level `NAME = re.compile(pattern, flags=...)` -> {NAME: (pattern str, flags int,
    assign node)}."""
    res = {}
    for st in mod.tree.body:
        if isinstance(st, ast.Assign) and len(st.targets) == 1 and isinstance(st.targets[0], ast.Name) \
                and isinstance(st.value, ast.Call) and norm(st.value.func) == 're.compile':
            call = st.value
            try:
                pat = fold(prog, mod, call.args[0])
                flags = 0
                if len(call.args) > 1:
                    flags = int(fold(prog, mod, call.args[1]))
                for k in call.keywords:
                    if k.arg == 'flags':
                        flags = int(fold(prog, mod, k.value))
            except Unfoldable as err:
                raise AnalysisError('E10', f"cannot fold pattern {st.targets[0].id}: {err}") from None
            res[st.targets[0].id] = (pat, flags, st)
    return res


def parse_regex(pattern: str, flags: int):
    try:
        return sre_parse.parse(pattern, flags)
    except re.error as err:
        raise AnalysisError('E10', f"regular expression does not parse: {err}") from None


OPS = sre_constants
