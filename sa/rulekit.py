"""
Shared rule families (section 5 of DESIGN.md): OWN, DOM, PDOM/PAIR, EFFECTFREE, SUPERCHAIN,
NOSWALLOW and small matching helpers.
"""
from __future__ import annotations

import ast

from .loader import (AnalysisError, FuncInfo, ClassInfo, norm, norm1, walk_shallow, own_nodes,
                     attr_writes, subscript_writes, calls_in, call_name, is_super_call, cname)
from .cfg import CFG, Node, handler_types
from .report import Check, path_witness


# ------------------------------------------------------------------ site queries

def attr_write_sites(ck: Check, attr: str, include_demo: bool = True, include_extra: bool = False):
    """All write sites of `<expr>.attr` in the package: (FuncInfo|None, target, kind, stmt)."""
    res = []
    prog = ck.prog
    funcs = list(prog.funcs.values())
    for fi in sorted(funcs, key=lambda f: f.fid):
        if '/' in fi.module.name and not include_extra:
            continue
        if fi.module.name == 'demo' and not include_demo:
            continue
        for st in fi.node.body:
            if isinstance(st, (ast.FunctionDef, ast.AsyncFunctionDef, ast.ClassDef)):
                continue        # nested definitions have their own FuncInfo
            for tgt, kind, stmt in attr_writes(st):
                if tgt.attr == attr:
                    res.append((fi, tgt, kind, stmt))
    # module / class level writes
    for mod in list(prog.modules.values()) + (list(prog.extra.values()) if include_extra else []):
        for st in mod.tree.body:
            if isinstance(st, (ast.FunctionDef, ast.AsyncFunctionDef)):
                continue
            if isinstance(st, ast.ClassDef):
                for sub in _class_level_stmts(st):
                    for tgt, kind, stmt in attr_writes(sub):
                        if tgt.attr == attr:
                            res.append((None, tgt, kind, stmt))
                continue
            for tgt, kind, stmt in attr_writes(st):
                if tgt.attr == attr:
                    res.append((None, tgt, kind, stmt))
    return res


def _class_level_stmts(cls_node):
    for st in cls_node.body:
        if isinstance(st, (ast.FunctionDef, ast.AsyncFunctionDef)):
            continue
        if isinstance(st, ast.ClassDef):
            yield from _class_level_stmts(st)
        else:
            yield st


def func_stmts(fi: FuncInfo):
    """All statements/expressions of the function's own body (nested defs excluded)."""
    return list(own_nodes(fi.node))


def call_sites(ck: Check, name: str, include_demo: bool = False, include_extra: bool = False):
    """All Call nodes in the package whose callee's last component is `name`:
    list of (FuncInfo, Call)."""
    res = []
    for fi in sorted(ck.prog.funcs.values(), key=lambda f: f.fid):
        if '/' in fi.module.name and not include_extra:
            continue
        if fi.module.name == 'demo' and not include_demo:
            continue
        for n in own_nodes(fi.node):
            if isinstance(n, ast.Call) and call_name(n) == name:
                res.append((fi, n))
    return res


def nodes_where(cfg: CFG, pred, kinds=('stmt', 'test', 'for', 'with')) -> list[Node]:
    res = []
    reach = cfg.reachable()
    for n in cfg.nodes:
        if n.id in reach and n.kind in kinds and n.ast is not None and pred(n):
            res.append(n)
    return res


def node_roots(n: Node):
    """The AST parts that are evaluated when node n executes."""
    a = n.ast
    if a is None:
        return []
    if n.kind == 'for':
        return [a.iter]
    if n.kind == 'with':
        return [it.context_expr for it in a.items]
    if n.kind in ('with_exit', 'handler', 'branch', 'entry', 'exit', 'raise', 'join', 'dispatch'):
        return []
    if isinstance(a, (ast.FunctionDef, ast.AsyncFunctionDef, ast.ClassDef)):
        return []
    return [a]


def node_calls(n: Node, name: str | None = None, base: str | None = None):
    res = []
    for r in node_roots(n):
        res.extend(calls_in(r, name, base))
    return res


def nodes_calling(cfg: CFG, name: str, base: str | None = None, argpred=None) -> list[Node]:
    def pred(n):
        for c in node_calls(n, name, base):
            if argpred is None or argpred(c):
                return True
        return False
    return nodes_where(cfg, pred)


def nodes_writing_attr(cfg: CFG, attr: str, base: str | None = 'self') -> list[Node]:
    def pred(n):
        if n.kind != 'stmt':
            return False
        for tgt, kind, stmt in attr_writes(n.ast):
            if tgt.attr == attr and (base is None or norm(tgt.value) == base):
                return True
        return False
    return nodes_where(cfg, pred)


def written_value(n: Node, attr: str):
    """The value expression assigned to `<x>.attr` by a stmt node (None for del/aug)."""
    a = n.ast
    if isinstance(a, ast.Assign):
        for t in a.targets:
            if isinstance(t, ast.Attribute) and t.attr == attr:
                return a.value
            if isinstance(t, (ast.Tuple, ast.List)) and isinstance(a.value, (ast.Tuple, ast.List)) \
                    and len(t.elts) == len(a.value.elts):
                for te, ve in zip(t.elts, a.value.elts):
                    if isinstance(te, ast.Attribute) and te.attr == attr:
                        return ve
    if isinstance(a, ast.AnnAssign) and isinstance(a.target, ast.Attribute) and a.target.attr == attr:
        return a.value
    return None


def exits_of(cfg: CFG, normal=True, exceptional=False) -> list[Node]:
    res = []
    if normal:
        res.append(cfg.exit)
    if exceptional:
        res.append(cfg.raise_exit)
    return res


def return_nodes(cfg: CFG, pred=None) -> list[Node]:
    return nodes_where(cfg, lambda n: isinstance(n.ast, ast.Return) and (pred is None or pred(n.ast)),
                       kinds=('stmt',))


def is_const(node, value) -> bool:
    return isinstance(node, ast.Constant) and node.value is value or \
        (isinstance(node, ast.Constant) and not isinstance(value, bool) and value is not None
         and type(node.value) is type(value) and node.value == value)


def kw(call: ast.Call, name: str):
    for k in call.keywords:
        if k.arg == name:
            return k.value
    return None


# ------------------------------------------------------------------ rule families

def own(ck: Check, rule: str, attr: str, table: dict, ignore=None, include_extra=None,
        what: str | None = None):
    """OWN(attr, table): every write site of `<expr>.attr` lies in a function of `table`
    ({fid: reason}); `ignore(fi, tgt, stmt)` may exclude sites that belong to another class."""
    if include_extra is None:
        include_extra = ck.tier == 'thorough'
    sites = attr_write_sites(ck, attr, include_extra=include_extra)
    n = 0
    for fi, tgt, kind, stmt in sites:
        if ignore is not None and ignore(fi, tgt, stmt):
            continue
        fid = fi.fid if fi is not None else '<module/class level>'
        ok = fid in table
        n += 1
        ck.ob(rule, f"{fid} :: {norm1(stmt)}", ok,
              (f"permitted writer of {attr}: {table[fid]}" if ok else
               f"{fid} writes `{norm(tgt)}` but is not among the permitted writers of "
               f"{what or attr}: {sorted(table)}"),
              fi, stmt if fi is not None else None)
    return n


def must_pass(cfg: CFG, start: Node, must: list[Node], exits: list[Node], labels_excluded=()):
    """PDOM: every path from `start` to one of `exits` passes a node of `must`.
    Returns None if it holds, else a witness path."""
    return cfg.path_avoiding(start, exits, avoid=must, labels_excluded=labels_excluded,
                             start_successors_only=True)


def check_must_pass(ck: Check, rule: str, construct: str, fi: FuncInfo, cfg: CFG, start: Node,
                    must: list[Node], exits: list[Node], what: str, labels_excluded=()) -> bool:
    if not must:
        return ck.ob(rule, construct, False, f"{what}: the required statement does not exist "
                     f"in {fi.fid}", fi, start.ast if start.kind != 'entry' else None)
    path = must_pass(cfg, start, must, exits, labels_excluded)
    return ck.ob(rule, construct, path is None,
                 (f"{what}: holds on all paths" if path is None else
                  f"{what}: a path from line {start.lineno} reaches "
                  f"{'the exceptional exit' if path[-1].kind == 'raise' else 'an exit'} "
                  f"without it"),
                 fi, start.ast if start.kind not in ('entry',) else None,
                 witness=path_witness(cfg, path))


def dominated_by_any(cfg: CFG, node: Node, doms: list[Node]) -> bool:
    return any(cfg.dominates(d, node) for d in doms)


def effect_nodes(cfg: CFG, attrs_written=(), calls=(), pred=None) -> list[Node]:
    """Nodes having one of the listed effects (syntactically)."""
    res = []
    reach = cfg.reachable()
    for n in cfg.nodes:
        if n.id not in reach or n.ast is None or n.kind in ('branch', 'handler', 'with_exit'):
            continue
        hit = False
        for r in node_roots(n):
            if n.kind == 'stmt':
                for tgt, kind, stmt in attr_writes(r):
                    if tgt.attr in attrs_written:
                        hit = True
            for c in calls_in(r):
                if call_name(c) in calls:
                    hit = True
            if pred is not None and pred(n):
                hit = True
        if hit:
            res.append(n)
    return res


def effect_free_to(ck: Check, rule: str, construct: str, fi: FuncInfo, cfg: CFG,
                   exit_nodes: list[Node], forbidden: list[Node], what: str,
                   start: Node | None = None, allow=()) -> bool:
    """EFFECTFREE: no path from start (entry) to one of `exit_nodes` passes a forbidden node."""
    start = start or cfg.entry
    allow_ids = {a.id for a in allow}
    bad = [f for f in forbidden if f.id not in allow_ids]
    reach_from_start = cfg.reachable_from(start)
    ok = True
    for e in exit_nodes:
        for f in bad:
            if f.id not in reach_from_start:
                continue
            # f lies on a path start ->* f ->* e ?
            p2 = cfg.path_avoiding(f, [e], start_successors_only=(f.id == e.id))
            if p2 is not None:
                p1 = cfg.path_avoiding(start, [f])
                ok = False
                ck.ob(rule, f"{construct} :: {norm1(f.ast)}", False,
                      f"{what}: the exit at line {e.lineno} is reachable through "
                      f"`{f.text()}` (line {f.lineno})", fi, f.ast,
                      witness=path_witness(cfg, (p1 or []) + p2[1:]))
    if ok:
        ck.ob(rule, construct, True, f"{what}: {len(exit_nodes)} exit(s), "
              f"{len(bad)} effectful node(s) in the function, none on a path to these exits",
              fi, exit_nodes[0].ast if exit_nodes and exit_nodes[0].ast is not None else None)
    return ok


def superchain(ck: Check, rule: str, method: str, classes=None, awaited=None):
    """SUPERCHAIN(method): every definition of `method` in a class that has a base defining
    `method` calls super().method(...) exactly once on every normal path."""
    prog = ck.prog
    count = 0
    for ci in prog.pkg_classes():
        if classes is not None and ci.qual not in classes:
            continue
        fi = ci.methods.get(method)
        if fi is None:
            continue
        # is there a later definition in the MRO of this class or of any subclass?
        has_next = False
        for sub in prog.subclasses(ci):
            nxt = prog.resolve_method(sub, method, start_after=ci)
            if nxt is not None:
                has_next = True
                break
        is_addon = any(cname(c) == 'Addon' for c in ci.mro)
        if not has_next and not is_addon:
            continue
        cfg = ck.cfg(fi.fid, 'M0')
        sup = nodes_where(cfg, lambda n: any(is_super_call(c, method) for c in node_calls(n)))
        count += 1
        construct = f"{fi.fid}"
        if not sup:
            ck.ob(rule, construct, False,
                  f"{fi.fid} never calls super().{method}(); the cooperative chain of "
                  f"{ci.name} and its subclasses stops here", fi, fi.node)
            continue
        # exactly once on every normal path: every path entry->exit passes one, and no path
        # passes two
        path = must_pass(cfg, cfg.entry, sup, [cfg.exit])
        twice = None
        for s in sup:
            p = cfg.path_avoiding(s, sup, start_successors_only=True)
            if p is not None:
                twice = p
        is_async = fi.is_async
        awaited_ok = True
        if is_async:
            for s in sup:
                for r in node_roots(s):
                    for x in walk_shallow(r):
                        if isinstance(x, ast.Call) and is_super_call(x, method):
                            awaited_ok = awaited_ok and _is_awaited(r, x)
        ok = path is None and twice is None and awaited_ok
        msg = (f"super().{method}() is called exactly once on every normal path"
               if ok else
               (f"a normal path through {fi.fid} skips super().{method}()" if path is not None else
                (f"super().{method}() may be called twice" if twice is not None else
                 f"super().{method}() is not awaited")))
        ck.ob(rule, construct, ok, msg, fi, fi.node,
              witness=path_witness(cfg, path or twice))
    return count


def _is_awaited(root, call) -> bool:
    for x in walk_shallow(root):
        if isinstance(x, ast.Await) and x.value is call:
            return True
    return False


def handlers_in(fi: FuncInfo):
    """All except clauses of a function's own body."""
    return [n for n in own_nodes(fi.node) if isinstance(n, ast.ExceptHandler)]


def handler_reraises(fi: FuncInfo, h: ast.ExceptHandler) -> bool:
    """Does every path through the handler body end in `raise`?"""
    # the body is wrapped in a loop so that break/continue (leaving the handler normally) are
    # representable; falling through, break, continue and return all reach the normal exit
    loop = ast.For(target=ast.Name(id='_', ctx=ast.Store()), iter=ast.Name(id='_it', ctx=ast.Load()),
                   body=list(h.body) + [ast.Break()], orelse=[], lineno=h.lineno, col_offset=0)
    mini = ast.FunctionDef(name='_h', args=ast.arguments(posonlyargs=[], args=[], kwonlyargs=[],
                           kw_defaults=[], defaults=[]), body=[loop], decorator_list=[],
                           lineno=h.lineno, col_offset=0)
    g = CFG(mini, 'M0', name=fi.fid + ':handler')
    # a path from the loop body to the normal exit => some path does not raise
    body_entry = [v for n in g.nodes if n.kind == 'for' for v, lab in g.succ[n.id] if lab == 'iter']
    if not body_entry:
        return False
    return g.exit.id not in g.reachable_from(g.nodes[body_entry[0]])


def catches_broad(h: ast.ExceptHandler) -> bool:
    return any(t in ('Exception', 'BaseException') for t in handler_types(h))


def flows_from(rd, node: Node, expr, accept, depth: int = 0) -> bool:
    """Derives-from query: does `expr` (evaluated at `node`) derive only from definitions
    accepted by `accept(valueexpr_or_marker)` through plain copies?"""
    if depth > 6:
        return False
    if accept(expr):
        return True
    if isinstance(expr, ast.Name):
        vals = rd.value_exprs(node, expr.id)
        if not vals:
            return False
        for v in vals:
            if isinstance(v, str):
                if not accept(v):
                    return False
            else:
                # find the defining node to continue from there
                dnodes = [d for d in rd.defs_at(node, expr.id)]
                ok = False
                for d in dnodes:
                    if d.ast is not None and any(x is v for x in walk_shallow(d.ast)):
                        ok = flows_from(rd, d, v, accept, depth + 1)
                        break
                if not ok:
                    return False
        return True
    return False


def expr_is(ck: Check, fid: str, model: str, node: Node, expr, texts) -> bool:
    """Is `expr` (evaluated at `node`) one of the source texts `texts`, possibly through local
    aliases (a Name all of whose reaching definitions are plain assignments of such a text)?"""
    if isinstance(texts, str):
        texts = (texts,)
    if expr is None:
        return False
    if norm(expr) in texts:
        return True
    if isinstance(expr, ast.Name):
        rd = ck.rdefs(fid, model)
        vals = rd.value_exprs(node, expr.id)
        if not vals:
            return False
        for v in vals:
            if isinstance(v, str):
                return False
            dn = [d for d in rd.defs_at(node, expr.id)
                  if d.ast is not None and any(x is v for x in walk_shallow(d.ast))]
            if not dn or not expr_is(ck, fid, model, dn[0], v, texts):
                return False
        return True
    return False
