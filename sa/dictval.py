"""
E9b -- finite abstract evaluation of small dictionary-editing functions.

A function that touches its mapping argument only through key look-ups, key membership tests,
item assignment / deletion, `pop(key, default)`, spreads in dict displays and iteration over a
key tuple depends only on the *equality pattern* between the parameter keys and the keys present
in the mapping. Evaluating it on every mapping over a three-key universe with every choice of
parameter keys is therefore a complete case analysis (the analogue of the 13 weak orderings for
comparison-only functions). The interpreter below walks the AST of such a function; it never
executes repository code, and any construct outside the fragment raises AnalysisError.
"""
from __future__ import annotations

import ast

from .loader import AnalysisError, norm, is_logging_stmt


class _Ret(Exception):
    def __init__(self, v):
        self.v = v


class KeyErr(Exception):
    pass


class DictInterp:
    def __init__(self, rule: str, env: dict, apply_func=None):
        self.rule = rule
        self.env = dict(env)            # name / normalised text -> value
        self.apply_func = apply_func    # how to apply an opaque callable parameter

    def fail(self, node, why=''):
        raise AnalysisError(self.rule, f"construct outside the dictionary-editing fragment: "
                            f"`{norm(node)[:80]}` {why}")

    # ---- expressions
    def ev(self, e):
        t = norm(e)
        if t in self.env:
            return self.env[t]
        if isinstance(e, ast.Constant):
            return e.value
        if isinstance(e, ast.Name):
            self.fail(e, '(unbound name)')
        if isinstance(e, ast.Subscript):
            base = self.ev(e.value)
            key = self.ev(e.slice)
            if not isinstance(base, dict):
                self.fail(e)
            if key not in base:
                raise KeyErr(key)
            return base[key]
        if isinstance(e, ast.Dict):
            out = {}
            for k, v in zip(e.keys, e.values):
                if k is None:
                    sp = self.ev(v)
                    if not isinstance(sp, dict):
                        self.fail(e, '(spread of a non-mapping)')
                    out.update(sp)
                else:
                    out[self.ev(k)] = self.ev(v)
            return out
        if isinstance(e, ast.Compare) and len(e.ops) == 1:
            l = self.ev(e.left)
            r = self.ev(e.comparators[0])
            op = e.ops[0]
            if isinstance(op, ast.In):
                return l in r
            if isinstance(op, ast.NotIn):
                return l not in r
            if isinstance(op, ast.Is):
                return l is r
            if isinstance(op, ast.IsNot):
                return l is not r
            if isinstance(op, ast.Eq):
                return l == r
            if isinstance(op, ast.NotEq):
                return l != r
            self.fail(e)
        if isinstance(e, ast.BoolOp):
            vals = [self.ev(v) for v in e.values]     # no side effects in the fragment
            return all(vals) if isinstance(e.op, ast.And) else any(vals)
        if isinstance(e, ast.UnaryOp) and isinstance(e.op, ast.Not):
            return not self.ev(e.operand)
        if isinstance(e, ast.Call):
            f = e.func
            if isinstance(f, ast.Name) and f.id in ('list', 'tuple', 'dict') and len(e.args) == 1 \
                    and not e.keywords:
                v = self.ev(e.args[0])
                if f.id == 'dict':
                    return dict(v)
                return list(v) if f.id == 'list' else tuple(v)
            if isinstance(f, ast.Attribute) and f.attr == 'pop':
                base = self.ev(f.value)
                if not isinstance(base, dict):
                    self.fail(e)
                key = self.ev(e.args[0])
                if len(e.args) == 2:
                    return base.pop(key, self.ev(e.args[1]))
                if key not in base:
                    raise KeyErr(key)
                return base.pop(key)
            if isinstance(f, ast.Attribute) and f.attr == 'update' and len(e.args) == 1 and not e.keywords:
                base = self.ev(f.value)
                other = self.ev(e.args[0])
                if not isinstance(base, dict) or not isinstance(other, dict):
                    self.fail(e)
                base.update(other)      # in place: aliasing is part of what is being decided
                return None
            if isinstance(f, ast.Attribute) and f.attr == 'setdefault' and len(e.args) == 2:
                base = self.ev(f.value)
                if not isinstance(base, dict):
                    self.fail(e)
                return base.setdefault(self.ev(e.args[0]), self.ev(e.args[1]))
            if isinstance(f, ast.Attribute) and f.attr == 'items' and not e.args:
                base = self.ev(f.value)
                if not isinstance(base, dict):
                    self.fail(e)
                return list(base.items())
            if isinstance(f, ast.Attribute) and f.attr == 'copy' and not e.args:
                return dict(self.ev(f.value))
            if isinstance(f, ast.Attribute) and f.attr == 'get' and 1 <= len(e.args) <= 2:
                base = self.ev(f.value)
                return base.get(self.ev(e.args[0]), self.ev(e.args[1]) if len(e.args) == 2 else None)
            if isinstance(f, ast.Attribute) and f.attr in ('keys',) and not e.args:
                return list(self.ev(f.value).keys())
            if isinstance(f, ast.Name) and f.id in ('sum', 'len', 'bool', 'any', 'all') and len(e.args) == 1 \
                    and not e.keywords and f.id not in self.env:
                v = self.ev(e.args[0])
                return {'sum': sum, 'len': len, 'bool': bool, 'any': any, 'all': all}[f.id](v)
            if isinstance(f, ast.Name) and f.id in self.env and callable(self.env[f.id]):
                return self.env[f.id](*[self.ev(a) for a in e.args])
            self.fail(e)
        if isinstance(e, ast.IfExp):
            return self.ev(e.body) if self.ev(e.test) else self.ev(e.orelse)
        if isinstance(e, ast.BinOp) and isinstance(e.op, (ast.Mod, ast.Add)):
            l, r = self.ev(e.left), self.ev(e.right)
            if isinstance(l, int) and isinstance(r, int) and not isinstance(l, bool):
                return l % r if isinstance(e.op, ast.Mod) else l + r
            self.fail(e, '(arithmetic on non-integers)')
        if isinstance(e, (ast.Tuple, ast.List)):
            return tuple(self.ev(x) for x in e.elts)
        if isinstance(e, ast.DictComp) and len(e.generators) == 1:
            gen = e.generators[0]
            out = {}
            it = self.ev(gen.iter)
            items = list(it.items()) if norm(gen.iter).endswith('.items()') and False else list(it)
            for item in items:
                self._bind(gen.target, item)
                if all(self.ev(c) for c in gen.ifs):
                    out[self.ev(e.key)] = self.ev(e.value)
            return out
        if isinstance(e, (ast.ListComp, ast.GeneratorExp, ast.SetComp)) and len(e.generators) == 1:
            gen = e.generators[0]
            out = []
            for item in list(self.ev(gen.iter)):
                self._bind(gen.target, item)
                if all(self.ev(c) for c in gen.ifs):
                    out.append(self.ev(e.elt))
            return set(out) if isinstance(e, ast.SetComp) else out
        if isinstance(e, ast.Attribute) and isinstance(e.value, ast.Call) is False:
            if e.attr == 'items':
                self.fail(e)
        self.fail(e)

    def _bind(self, target, value):
        if isinstance(target, ast.Name):
            self.env[target.id] = value
        elif isinstance(target, ast.Tuple):
            for t, v in zip(target.elts, value):
                self._bind(t, v)
        else:
            self.fail(target)

    # ---- statements
    def run(self, body):
        try:
            self.block(body)
        except _Ret as r:
            return r.v
        return None

    def block(self, stmts):
        for st in stmts:
            if isinstance(st, ast.Return):
                raise _Ret(self.ev(st.value) if st.value is not None else None)
            if is_logging_stmt(st):
                continue
            if isinstance(st, ast.Expr):
                if isinstance(st.value, ast.Constant):
                    continue
                self.ev(st.value)
            elif isinstance(st, ast.Assign) and len(st.targets) == 1:
                t = st.targets[0]
                v = self.ev(st.value)
                if isinstance(t, ast.Name):
                    self.env[t.id] = v
                elif isinstance(t, ast.Subscript):
                    base = self.ev(t.value)
                    if not isinstance(base, dict):
                        self.fail(st)
                    base[self.ev(t.slice)] = v
                else:
                    self.fail(st)
            elif isinstance(st, ast.Delete):
                for t in st.targets:
                    if not isinstance(t, ast.Subscript):
                        self.fail(st)
                    base = self.ev(t.value)
                    key = self.ev(t.slice)
                    if key not in base:
                        raise KeyErr(key)
                    del base[key]
            elif isinstance(st, ast.If):
                self.block(st.body if self.ev(st.test) else st.orelse)
            elif isinstance(st, ast.For) and not st.orelse:
                for item in list(self.ev(st.iter)):
                    self._bind(st.target, item)
                    self.block(st.body)
            elif isinstance(st, ast.Pass):
                continue
            elif isinstance(st, ast.Try) and not st.finalbody:
                try:
                    self.block(st.body)
                except KeyErr:
                    h = next((h for h in st.handlers if h.type is None or any(
                        n in norm(h.type) for n in ('KeyError', 'LookupError', 'Exception'))), None)
                    if h is None:
                        raise
                    self.block(h.body)
                else:
                    self.block(st.orelse)
            else:
                self.fail(st)
