"""
E2/E3 -- statement-level control-flow graphs with explicit exceptional edges, dominators,
post-dominators and path queries.

Node kinds
    entry, exit (normal return), raise (exceptional exit)
    stmt        a simple statement (ast.stmt)
    test        the test of an `if` / `while`            (.ast = the test expression)
    branch      synthetic node on the true / false edge of a test (.test, .polarity)
    for         loop header of a `for`                    (.ast = the For statement)
    with        evaluation of the context expressions + __enter__ (.ast = With statement)
    with_exit   __exit__ of a `with`                      (.ast = With statement)
    handler     an `except` clause header                 (.ast = ExceptHandler)
    dispatch    exception dispatch of a `try`
    join        synthetic join (entry of a duplicated `finally` body)

`finally` bodies (and with-exits) are duplicated per continuation kind so that path
languages stay exact.

Fault models decide which nodes get an exceptional edge and with which abstract exception
kinds: 'E' (some subclass of Exception), 'C' (asyncio.CancelledError) or 'N:<Class>' (an
exception of exactly that named class, from a `raise Class(...)` statement).
"""
from __future__ import annotations

import ast
import builtins
from collections import deque

from .loader import AnalysisError, norm, norm1, walk_shallow, call_name


class Node:
    __slots__ = ('id', 'kind', 'ast', 'lineno', 'test', 'polarity', 'kinds', 'copy_of', 'stmt')

    def __init__(self, nid, kind, astnode=None, lineno=None):
        self.id = nid
        self.kind = kind
        self.ast = astnode
        self.lineno = lineno if lineno is not None else getattr(astnode, 'lineno', None)
        self.test = None
        self.polarity = None
        self.kinds = None       # exception kinds raised by this node (if any)
        self.copy_of = None
        self.stmt = None        # enclosing compound statement for test/for/with nodes

    def text(self) -> str:
        if self.kind in ('entry', 'exit', 'raise', 'dispatch', 'join'):
            return f"<{self.kind}>"
        if self.kind == 'branch':
            return f"<{'true' if self.polarity else 'false'} branch of: {norm1(self.test.ast, 70)}>"
        if self.kind == 'test':
            return f"test {norm1(self.ast, 90)}"
        if self.kind == 'for':
            return norm1(self.ast, 90)
        if self.kind == 'with':
            return norm1(self.ast, 90)
        if self.kind == 'with_exit':
            return f"<exit of {norm1(self.ast, 70)}>"
        if self.kind == 'handler':
            t = norm(self.ast.type) if self.ast.type is not None else ''
            return f"except {t}".strip()
        return norm1(self.ast, 100)

    def __repr__(self):
        return f"N{self.id}:{self.kind}@{self.lineno}:{self.text()[:50]}"


# ------------------------------------------------------------------ exception hierarchy

def _builtin_exc_parents():
    table = {}
    for name in dir(builtins):
        obj = getattr(builtins, name)
        if isinstance(obj, type) and issubclass(obj, BaseException):
            table[name] = [c.__name__ for c in obj.__mro__[1:] if c is not object]
    table['CancelledError'] = ['BaseException']
    table['TimeoutError'] = ['OSError', 'Exception', 'BaseException']
    table['QueueEmpty'] = ['Exception', 'BaseException']
    table['InvalidStateError'] = ['Exception', 'BaseException']
    return table


EXC_PARENTS = _builtin_exc_parents()


def register_exception(name: str, parents: list[str]) -> None:
    EXC_PARENTS[name] = parents


def exc_ancestors(name: str) -> list[str]:
    return EXC_PARENTS.get(name, ['Exception', 'BaseException'])


def handler_types(h: ast.ExceptHandler) -> list[str]:
    if h.type is None:
        return ['BaseException']
    elts = h.type.elts if isinstance(h.type, ast.Tuple) else [h.type]
    res = []
    for e in elts:
        if isinstance(e, ast.Attribute):
            res.append(e.attr)
        elif isinstance(e, ast.Name):
            res.append(e.id)
        else:
            res.append('BaseException')     # unknown expression: assume it may catch all
    return res


def catches(htypes: list[str], kind: str) -> str:
    """'must' | 'may' | 'no' -- does a handler with these types catch an exception kind?"""
    best = 'no'
    for t in htypes:
        if kind == 'E':
            if t in ('Exception', 'BaseException'):
                return 'must'
            if t != 'CancelledError' and 'Exception' in exc_ancestors(t):
                best = 'may'
        elif kind == 'C':
            if t in ('CancelledError', 'BaseException'):
                return 'must'
        elif kind.startswith('N:'):
            x = kind[2:]
            if t == x or t in exc_ancestors(x):
                return 'must'
            if x in exc_ancestors(t):
                best = 'may'
    return best


# ------------------------------------------------------------------ fault models

HOOK_CALLS = {
    'start', 'stop', 'stop_async', 'init_async', 'init_regular', 'init_from_value',
    '_restore_state', 'get_state', 'calc_output', 'eval_block', 'event', '_event', 'send',
    'recalc', '_run_cb', 'init_from_persistent_data', 'init_sblock', 'set_output',
    '_func', '_coro', '_schema', '_check', '_validate', 'abort',
}
# package functions that may raise on their own account (contain `raise` or call hooks);
# kept explicit so that the model does not depend on an unresolved call graph
PKG_MAY_RAISE = {
    '_init_sblocks_sync_1', '_init_sblocks_sync_2', '_init_sblocks_async', '_simulate',
    'finalize', '_finalize', 'resolve', '_check_persistent_data', '_validate_blk',
    'check_not_finalized', '_test_eager_tasks', '_check_started', '_start_timer',
    '_send_events', '_ctx_event', 'time_period', 'convert', '_convert', 'findblock',
    'check_signature', 'input_signature', 'connect', '_parse_range', '_check_state',
    'typecheck', 'check_name', '_event_put', '_event_reconfig', '_setmod', 'add_block',
    'remove_block', '_check_tz', 'result', 'exception',
}
STDLIB_AWAIT_CANCEL_ONLY = {'sleep', 'wait'}     # await asyncio.sleep / asyncio.wait / Event.wait


def m0(node: ast.AST) -> set:
    return set()


def m1(node: ast.AST) -> set:
    """M1: awaits and hook calls may raise."""
    kinds = set()
    for n in walk_shallow(node):
        if isinstance(n, ast.Await):
            kinds.add('C')
            v = n.value
            cn = call_name(v)
            if cn in STDLIB_AWAIT_CANCEL_ONLY:
                pass
            elif cn == 'get' and isinstance(v, ast.Call) and not v.args:
                pass        # await queue.get()
            else:
                kinds.add('E')
        elif isinstance(n, ast.Call):
            cn = call_name(n)
            if cn is None:
                kinds.add('E')      # call of a computed callable: handler(self, **data)
            elif cn in HOOK_CALLS or cn in PKG_MAY_RAISE or cn.startswith('_event_'):
                kinds.add('E')
            elif isinstance(n.func, ast.Name) and cn in ('handler', 'cb', 'efilter', 'func',
                                                         'coro'):
                kinds.add('E')
    return kinds


def m2(node: ast.AST) -> set:
    """M2: (almost) anything may raise.  Exception (assumption A6): a statement that is nothing but
    a logging call with plain arguments -- Python's logging swallows its own errors."""
    kinds = set()
    from .loader import is_logging_stmt
    if is_logging_stmt(node) and all(isinstance(a, (ast.Constant, ast.Name, ast.Attribute, ast.JoinedStr))
                                     for a in node.value.args) and not node.value.keywords:
        return kinds
    for n in walk_shallow(node):
        if isinstance(n, ast.Await):
            kinds.update(('E', 'C'))
        elif isinstance(n, (ast.Call, ast.Subscript, ast.BinOp, ast.Assert)):
            kinds.add('E')
        elif isinstance(n, ast.Attribute) and isinstance(n.ctx, ast.Load) \
                and not (isinstance(n.value, ast.Name) and n.value.id == 'self'):
            kinds.add('E')
    return kinds


MODELS = {'M0': m0, 'M1': m1, 'M2': m2}


# ------------------------------------------------------------------ frames

class _Frame:
    pass


class _Loop(_Frame):
    def __init__(self, head):
        self.head = head
        self.breaks = []        # dangling (node, label)


class _Except(_Frame):
    def __init__(self, handlers):
        self.handlers = handlers    # list of (ExceptHandler, header node)
        self.dispatch = {}          # kind -> dispatch node


class _Finally(_Frame):
    def __init__(self, body, is_with=None):
        self.body = body            # list of stmts, or None for a with-exit
        self.is_with = is_with
        self.memo = {}              # (jump kind, extra) -> join node


class _Handler(_Frame):
    """Marks that we are inside an except clause body (for bare `raise`)."""
    def __init__(self, kinds):
        self.kinds = kinds


# ------------------------------------------------------------------ builder

class CFG:
    def __init__(self, func_node, model='M0', name='?', assert_raises=None):
        self.name = name
        self.func_node = func_node
        self.model_name = model if isinstance(model, str) else getattr(model, '__name__', 'custom')
        self.model = MODELS[model] if isinstance(model, str) else model
        self.assert_raises = (self.model_name == 'M2') if assert_raises is None else assert_raises
        self.nodes: list[Node] = []
        self.succ: dict[int, list] = {}
        self.pred: dict[int, list] = {}
        self.entry = self._new('entry', func_node)
        self.exit = self._new('exit', func_node)
        self.raise_exit = self._new('raise', func_node)
        self.frames: list[_Frame] = []
        out = self._stmts(func_node.body, [(self.entry, 'next')])
        self._connect(out, self.exit)      # implicit `return None`
        self._dom_cache = {}

    # -- construction helpers
    def _new(self, kind, astnode=None, lineno=None) -> Node:
        n = Node(len(self.nodes), kind, astnode, lineno)
        self.nodes.append(n)
        self.succ[n.id] = []
        self.pred[n.id] = []
        return n

    def _edge(self, a: Node, b: Node, label: str) -> None:
        if (b.id, label) not in self.succ[a.id]:
            self.succ[a.id].append((b.id, label))
            self.pred[b.id].append((a.id, label))

    def _connect(self, dangling, node: Node) -> None:
        for (a, label) in dangling:
            self._edge(a, node, label)

    def _branch(self, test: Node, polarity: bool) -> Node:
        b = self._new('branch', test.ast, test.lineno)
        b.test = test
        b.polarity = polarity
        self._edge(test, b, 'true' if polarity else 'false')
        return b

    # -- jumps through frames
    def _jump(self, kind: str, dangling, depth=None, kinds=None) -> None:
        """Route a return / break / continue / raise from frame depth `depth` outward."""
        if not dangling:
            return
        if depth is None:
            depth = len(self.frames)
        i = depth - 1
        while i >= 0:
            fr = self.frames[i]
            if isinstance(fr, _Finally):
                key = (kind, tuple(sorted(kinds)) if kinds else None)
                join = fr.memo.get(key)
                if join is None:
                    join = self._new('join', None, None)
                    fr.memo[key] = join
                    saved = self.frames
                    self.frames = saved[:i]
                    try:
                        if fr.body is None:
                            wx = self._new('with_exit', fr.is_with)
                            self._edge(join, wx, 'next')
                            out = [(wx, 'next')]
                            self._maybe_raise(wx, None)   # never: with_exit has no model kinds
                        else:
                            out = self._stmts(fr.body, [(join, 'next')])
                        self._jump(kind, out, i, kinds)
                    finally:
                        self.frames = saved
                self._connect(dangling, join)
                return
            if isinstance(fr, _Loop) and kind in ('break', 'continue'):
                if kind == 'break':
                    fr.breaks.extend(dangling)
                else:
                    self._connect(dangling, fr.head)
                return
            if isinstance(fr, _Except) and kind == 'raise':
                rest = set()
                for k in (kinds or {'E', 'C'}):
                    d = fr.dispatch.get(k)
                    if d is None:
                        d = self._new('dispatch', None, None)
                        d.kinds = {k}
                        fr.dispatch[k] = d
                        caught = False
                        for h, hnode in fr.handlers:
                            c = catches(handler_types(h), k)
                            if c in ('must', 'may'):
                                self._edge(d, hnode, 'catch')
                            if c == 'must':
                                caught = True
                                break
                        if not caught:
                            saved = self.frames
                            self.frames = saved[:i]
                            try:
                                self._jump('raise', [(d, 'uncaught')], i, {k})
                            finally:
                                self.frames = saved
                    self._connect(dangling, d)
                return
            i -= 1
        if kind == 'return':
            self._connect(dangling, self.exit)
        elif kind == 'raise':
            self._connect(dangling, self.raise_exit)
        else:
            raise AnalysisError('E2', f"{self.name}: '{kind}' outside a loop")

    def _maybe_raise(self, node: Node, astnode) -> None:
        if astnode is None:
            return
        kinds = self.model(astnode)
        if kinds:
            node.kinds = set(kinds)
            self._jump('raise', [(node, 'exc')], None, set(kinds))

    def _current_handler_kinds(self):
        for fr in reversed(self.frames):
            if isinstance(fr, _Handler):
                return fr.kinds
        return {'E', 'C'}

    # -- statements
    def _stmts(self, stmts, dangling):
        for st in stmts:
            if not dangling:
                break       # unreachable code is not represented
            dangling = self._stmt(st, dangling)
        return dangling

    def _stmt(self, st, dangling):
        if isinstance(st, ast.If):
            t = self._new('test', st.test)
            t.stmt = st
            self._connect(dangling, t)
            self._maybe_raise(t, st.test)
            const = _const_truth(st.test)
            out = []
            if const is not False:
                bt = self._branch(t, True)
                out += self._stmts(st.body, [(bt, 'next')])
            if const is not True:
                bf = self._branch(t, False)
                out += self._stmts(st.orelse, [(bf, 'next')])
            return out
        if isinstance(st, ast.While):
            t = self._new('test', st.test)
            t.stmt = st
            self._connect(dangling, t)
            self._maybe_raise(t, st.test)
            const = _const_truth(st.test)
            loop = _Loop(t)
            out = []
            if const is not False:
                bt = self._branch(t, True)
                self.frames.append(loop)
                body_out = self._stmts(st.body, [(bt, 'next')])
                self.frames.pop()
                self._connect(body_out, t)
            if const is not True:
                bf = self._branch(t, False)
                out += self._stmts(st.orelse, [(bf, 'next')])
            out += loop.breaks
            return out
        if isinstance(st, (ast.For, ast.AsyncFor)):
            h = self._new('for', st)
            h.stmt = st
            self._connect(dangling, h)
            self._maybe_raise(h, st.iter)
            loop = _Loop(h)
            self.frames.append(loop)
            body_out = self._stmts(st.body, [(h, 'iter')])
            self.frames.pop()
            self._connect(body_out, h)
            out = self._stmts(st.orelse, [(h, 'done')])
            out += loop.breaks
            return out
        if isinstance(st, (ast.With, ast.AsyncWith)):
            w = self._new('with', st)
            w.stmt = st
            self._connect(dangling, w)
            for it in st.items:
                self._maybe_raise(w, it.context_expr)
            fin = _Finally(None, is_with=st)
            self.frames.append(fin)
            body_out = self._stmts(st.body, [(w, 'next')])
            self.frames.pop()
            wx = self._new('with_exit', st)
            self._connect(body_out, wx)
            return [(wx, 'next')] if body_out else []
        if isinstance(st, ast.Try) or (hasattr(ast, 'TryStar') and isinstance(st, ast.TryStar)):
            return self._try(st, dangling)
        if isinstance(st, ast.Return):
            n = self._new('stmt', st)
            self._connect(dangling, n)
            if st.value is not None:
                self._maybe_raise(n, st.value)
            self._jump('return', [(n, 'return')])
            return []
        if isinstance(st, ast.Raise):
            n = self._new('stmt', st)
            self._connect(dangling, n)
            kinds = self._raise_kinds(st)
            n.kinds = kinds
            self._jump('raise', [(n, 'exc')], None, kinds)
            return []
        if isinstance(st, ast.Break):
            n = self._new('stmt', st)
            self._connect(dangling, n)
            self._jump('break', [(n, 'break')])
            return []
        if isinstance(st, ast.Continue):
            n = self._new('stmt', st)
            self._connect(dangling, n)
            self._jump('continue', [(n, 'continue')])
            return []
        if isinstance(st, ast.Assert):
            n = self._new('stmt', st)
            self._connect(dangling, n)
            if self.assert_raises:
                n.kinds = {'N:AssertionError'}
                self._jump('raise', [(n, 'exc')], None, {'N:AssertionError'})
            if _const_truth(st.test) is False:
                return []
            return [(n, 'next')]
        if hasattr(ast, 'Match') and isinstance(st, ast.Match):
            raise AnalysisError('E2', f"{self.name}: match statements are not supported")
        # simple statements, nested defs
        n = self._new('stmt', st)
        self._connect(dangling, n)
        if not isinstance(st, (ast.FunctionDef, ast.AsyncFunctionDef, ast.ClassDef)):
            self._maybe_raise(n, st)
        return [(n, 'next')]

    def _raise_kinds(self, st: ast.Raise) -> set:
        if st.exc is None:
            return set(self._current_handler_kinds())
        e = st.exc
        if isinstance(e, ast.Call):
            e = e.func
        name = None
        if isinstance(e, ast.Attribute):
            name = e.attr
        elif isinstance(e, ast.Name):
            name = e.id
        if name and (name in EXC_PARENTS or name[:1].isupper()):
            return {f"N:{name}"}
        return {'E', 'C'}

    def _try(self, st, dangling):
        fin = None
        if st.finalbody:
            fin = _Finally(st.finalbody)
            self.frames.append(fin)
        hnodes = []
        for h in st.handlers:
            hn = self._new('handler', h)
            hnodes.append((h, hn))
        exc = _Except(hnodes) if hnodes else None
        if exc is not None:
            self.frames.append(exc)
        body_out = self._stmts(st.body, dangling)
        if exc is not None:
            self.frames.pop()
        out = self._stmts(st.orelse, body_out) if st.orelse else body_out
        for h, hn in hnodes:
            if not self.pred[hn.id]:
                continue        # handler unreachable under this fault model
            kinds = set()
            for t in handler_types(h):
                if t in ('Exception',):
                    kinds.add('E')
                elif t == 'BaseException':
                    kinds.update(('E', 'C'))
                elif t == 'CancelledError':
                    kinds.add('C')
                else:
                    kinds.add(f"N:{t}")
            self.frames.append(_Handler(kinds))
            out = out + self._stmts(h.body, [(hn, 'next')])
            self.frames.pop()
        if fin is not None:
            self.frames.pop()
            if out:
                j = self._new('join', None, None)
                self._connect(out, j)
                out = self._stmts(st.finalbody, [(j, 'next')])
        return out

    # ------------------------------------------------------------------ queries
    def stmt_nodes(self, pred=None):
        return [n for n in self.nodes if n.kind in ('stmt', 'test', 'for', 'with', 'handler',
                                                   'with_exit')
                and (pred is None or pred(n))]

    def find(self, pred, kinds=('stmt', 'test', 'for', 'with')):
        return [n for n in self.nodes if n.kind in kinds and pred(n)]

    def reachable_from(self, start: Node, avoid=(), labels_excluded=()) -> set:
        avoid_ids = {a.id for a in avoid}
        seen = {start.id}
        dq = deque([start.id])
        while dq:
            u = dq.popleft()
            for v, lab in self.succ[u]:
                if lab in labels_excluded or v in avoid_ids or v in seen:
                    continue
                seen.add(v)
                dq.append(v)
        return seen

    def reachable(self) -> set:
        return self.reachable_from(self.entry)

    def path_avoiding(self, start: Node, targets, avoid=(), labels_excluded=(),
                      start_successors_only=False):
        """Shortest path (list of nodes) from `start` to any node of `targets` that does not
        pass through a node of `avoid`; None if there is none. `start` itself is not tested
        against `avoid`."""
        tids = {t.id for t in targets}
        avoid_ids = {a.id for a in avoid}
        prev = {start.id: None}
        dq = deque([start.id])
        if start.id in tids and not start_successors_only:
            return [start]
        while dq:
            u = dq.popleft()
            for v, lab in self.succ[u]:
                if lab in labels_excluded:
                    continue
                if v in tids and (v == start.id or v not in avoid_ids):
                    # found (a cycle back to `start` counts when start is a target)
                    path = [v, u]
                    while prev[path[-1]] is not None:
                        path.append(prev[path[-1]])
                    return [self.nodes[i] for i in reversed(path)]
                if v in avoid_ids or v in prev:
                    continue
                prev[v] = u
                dq.append(v)
        return None

    def dominators(self) -> dict[int, set]:
        """dom[n] = set of node ids that dominate n (including n); unreachable nodes absent."""
        if 'dom' in self._dom_cache:
            return self._dom_cache['dom']
        reach = self.reachable()
        order = self._rpo(self.entry.id, self.succ, reach)
        dom = {n: set(reach) for n in reach}
        dom[self.entry.id] = {self.entry.id}
        changed = True
        while changed:
            changed = False
            for n in order:
                if n == self.entry.id:
                    continue
                preds = [p for p, _ in self.pred[n] if p in reach]
                new = set.intersection(*(dom[p] for p in preds)) if preds else set()
                new = new | {n}
                if new != dom[n]:
                    dom[n] = new
                    changed = True
        self._dom_cache['dom'] = dom
        return dom

    @staticmethod
    def _rpo(start, succ, reach):
        seen = set()
        order = []
        stack = [(start, iter([v for v, _ in succ[start]]))]
        seen.add(start)
        while stack:
            n, it = stack[-1]
            for v in it:
                if v in reach and v not in seen:
                    seen.add(v)
                    stack.append((v, iter([w for w, _ in succ[v]])))
                    break
            else:
                order.append(n)
                stack.pop()
        order.reverse()
        return order

    def dominates(self, a: Node, b: Node) -> bool:
        dom = self.dominators()
        return b.id in dom and a.id in dom[b.id]

    def guards(self, node: Node) -> list:
        """Facts (expr, polarity) that hold whenever control reaches `node`: the decomposed
        tests of all dominating branch nodes."""
        dom = self.dominators()
        facts = []
        if node.id not in dom:
            return facts
        for did in sorted(dom[node.id]):
            d = self.nodes[did]
            if d.kind == 'branch':
                facts.extend(decompose(d.test.ast, d.polarity))
        return facts

    def guard_texts(self, node: Node) -> set:
        return {(norm(e), p) for e, p in self.guards(node)}

    def all_facts(self, node: Node, sub: ast.AST | None = None) -> list:
        """Dominating facts plus, for a sub-expression of the node, the short-circuit facts."""
        facts = list(self.guards(node))
        if sub is not None:
            for r in ([node.ast] if node.kind in ('stmt', 'test') else []):
                ig = inner_guards(r, sub)
                if ig:
                    facts.extend(ig)
        return facts

    def has_fact(self, node: Node, text: str, polarity: bool = True, sub: ast.AST | None = None) -> bool:
        want = canon_fact(ast.parse(text, mode='eval').body, polarity)
        return any(canon_fact(e, p) == want for e, p in self.all_facts(node, sub))

    def has_guard(self, node: Node, text: str, polarity: bool = True) -> bool:
        """Does the fact `text` (normalised source of an expression) with the polarity hold at
        node? `not X` true == X false; `X is not None` true == `X is None` false."""
        want = canon_fact(ast.parse(text, mode='eval').body, polarity)
        return any(canon_fact(e, p) == want for e, p in self.guards(node))

    def node_of(self, astnode) -> list[Node]:
        """All CFG nodes (incl. finally copies) whose statement is / contains `astnode`."""
        res = []
        for n in self.nodes:
            if n.ast is None or n.kind in ('branch', 'entry', 'exit', 'raise'):
                continue
            if n.ast is astnode:
                res.append(n)
                continue
            if n.kind in ('for',):
                inner = [n.ast.iter, n.ast.target]
            elif n.kind in ('with', 'with_exit'):
                inner = [i.context_expr for i in n.ast.items] + \
                        [i.optional_vars for i in n.ast.items if i.optional_vars is not None]
            elif n.kind == 'handler':
                inner = [n.ast.type] if n.ast.type is not None else []
            else:
                inner = [n.ast]
            for root in inner:
                if any(x is astnode for x in walk_shallow(root)):
                    res.append(n)
                    break
        return res

    def describe_path(self, path) -> list[str]:
        out = []
        for n in path:
            if n.kind in ('join',):
                continue
            out.append(f"{n.lineno or '-'}: {n.text()}")
        return out


def _const_truth(test: ast.expr):
    if isinstance(test, ast.Constant) and isinstance(test.value, (bool, int)) \
            and not isinstance(test.value, str):
        return bool(test.value)
    return None


def decompose(test: ast.expr, polarity: bool) -> list:
    """Facts implied by `test` evaluating to `polarity`."""
    if isinstance(test, ast.UnaryOp) and isinstance(test.op, ast.Not):
        return decompose(test.operand, not polarity)
    if isinstance(test, ast.BoolOp):
        if isinstance(test.op, ast.And) and polarity:
            return [f for v in test.values for f in decompose(v, True)] + [(test, True)]
        if isinstance(test.op, ast.Or) and not polarity:
            return [f for v in test.values for f in decompose(v, False)] + [(test, False)]
        return [(test, polarity)]
    if isinstance(test, ast.NamedExpr):
        return [(test, polarity)] + decompose(test.value, polarity)
    return [(test, polarity)]


_NEG_OPS = {ast.Is: ast.IsNot, ast.IsNot: ast.Is, ast.Eq: ast.NotEq, ast.NotEq: ast.Eq,
            ast.In: ast.NotIn, ast.NotIn: ast.In, ast.Lt: ast.GtE, ast.GtE: ast.Lt,
            ast.Gt: ast.LtE, ast.LtE: ast.Gt}
_POSITIVE = (ast.Is, ast.Eq, ast.In, ast.Lt, ast.LtE)


def canon_fact(e: ast.expr, polarity: bool):
    """Canonical (text, polarity) so that `x is not None`/True == `x is None`/False, etc.
    (Lt/GtE etc. are only used as negations of each other for non-NaN values -- edzed
    compares numbers and sets there.)"""
    while isinstance(e, ast.UnaryOp) and isinstance(e.op, ast.Not):
        e = e.operand
        polarity = not polarity
    if isinstance(e, ast.Compare) and len(e.ops) == 1:
        op = type(e.ops[0])
        if op in _NEG_OPS and op not in _POSITIVE:
            e2 = ast.Compare(left=e.left, ops=[_NEG_OPS[op]()], comparators=e.comparators)
            return (norm(e2), not polarity)
    return (norm(e), polarity)


def inner_guards(root: ast.expr, target: ast.AST) -> list | None:
    """Facts that must hold for the sub-expression `target` of `root` to be evaluated at all
    (short-circuit semantics of and / or / conditional expressions / not).
    Returns None if target is not inside root."""
    if root is target:
        return []
    if isinstance(root, ast.BoolOp):
        for i, v in enumerate(root.values):
            sub = inner_guards(v, target)
            if sub is not None:
                facts = []
                for prev in root.values[:i]:
                    facts.extend(decompose(prev, isinstance(root.op, ast.And)))
                return facts + sub
        return None
    if isinstance(root, ast.IfExp):
        sub = inner_guards(root.test, target)
        if sub is not None:
            return sub
        sub = inner_guards(root.body, target)
        if sub is not None:
            return decompose(root.test, True) + sub
        sub = inner_guards(root.orelse, target)
        if sub is not None:
            return decompose(root.test, False) + sub
        return None
    for child in ast.iter_child_nodes(root):
        if isinstance(child, (ast.Lambda, ast.FunctionDef, ast.AsyncFunctionDef)):
            continue
        sub = inner_guards(child, target)
        if sub is not None:
            return sub
    return None


def mk(node: ast.AST) -> set:
    """MK: M0 plus: a subscript load on a control table (`self._ct_*[...]`, `*_cb[...]`,
    `state_events[...]`) may raise KeyError -- makes `try/except KeyError` look-ups visible."""
    kinds = set()
    for n in walk_shallow(node):
        if isinstance(n, ast.Subscript) and isinstance(n.ctx, ast.Load):
            kinds.add('N:KeyError')
    return kinds


MODELS['MK'] = mk


# ------------------------------------------------------------------ infeasible-path pruning

_PURE_ITER = {'range', 'len', 'enumerate', 'zip', 'list', 'tuple', 'sorted', 'reversed', 'iter'}
_PURE_CALLS = {'log_debug', 'log_info', 'log_warning', 'log_error', 'isinstance', 'done',
               'cancelled', 'empty', 'qsize', 'is_set', 'startswith', 'get'}


def test_key(test):
    """((form, subject text), outcome-if-true) for a pure test of a name / attribute, else None.
    Forms: truthiness (`E`, `not E`) and `E is None` / `E is not None`."""
    pol = True
    while isinstance(test, ast.UnaryOp) and isinstance(test.op, ast.Not):
        test = test.operand
        pol = not pol
    if isinstance(test, (ast.Name, ast.Attribute)):
        return ('truth', norm(test)), pol
    if isinstance(test, ast.Compare) and len(test.ops) == 1 and \
            isinstance(test.ops[0], (ast.Is, ast.IsNot)) and \
            isinstance(test.comparators[0], ast.Constant) and test.comparators[0].value is None \
            and isinstance(test.left, (ast.Name, ast.Attribute)):
        if isinstance(test.ops[0], ast.IsNot):
            pol = not pol
        return ('isnone', norm(test.left)), pol
    return None


def invalidated_keys(node, keys):
    """Which of the tested subjects may change when `node` executes? A local name changes only by
    an assignment to it; an attribute also by any call / await that is not known to be pure."""
    a = node.ast
    if a is None or node.kind in ('branch', 'entry', 'exit', 'raise', 'join', 'dispatch', 'handler'):
        return set()
    from .dataflow import node_defs
    defs = set(node_defs(node))
    impure = node.kind == 'with_exit'
    roots = [a.iter] if node.kind == 'for' else ([i.context_expr for i in a.items]
                                                 if node.kind == 'with' else
                                                 ([] if node.kind == 'with_exit' else [a]))
    for r in roots:
        for x in walk_shallow(r):
            if isinstance(x, ast.Await):
                impure = True
            elif isinstance(x, ast.Call):
                cn = call_name(x)
                if node.kind == 'for' and cn in _PURE_ITER:
                    continue
                if cn in _PURE_CALLS:
                    continue
                impure = True
    dead = set()
    for k in keys:
        subj = k[1]
        if subj.isidentifier():
            if subj in defs:
                dead.add(k)
        else:
            if impure or subj in defs or any(d == subj for d in defs):
                dead.add(k)
    return dead


def _facts_after(cfg, facts, nid):
    n = cfg.nodes[nid]
    if n.kind == 'branch':
        k = test_key(n.test.ast)
        if k is None:
            # a compound test: use its decomposed facts
            d = dict(facts)
            for e, p in decompose(n.test.ast, n.polarity):
                kk = test_key(e)
                if kk is None:
                    continue
                outcome = kk[1] if p else (not kk[1])
                if kk[0] in d and d[kk[0]] != outcome:
                    return None
                d[kk[0]] = outcome
            return frozenset(d.items())
        key, pol_if_true = k
        outcome = pol_if_true if n.polarity else (not pol_if_true)
        d = dict(facts)
        if key in d and d[key] != outcome:
            return None
        d[key] = outcome
        return frozenset(d.items())
    if n.kind == 'stmt' and isinstance(n.ast, ast.Assert):
        k = test_key(n.ast.test)
        if k is not None:
            d = dict(facts)
            d[k[0]] = k[1]
            return frozenset(d.items())
        return facts
    if n.kind == 'stmt' and isinstance(n.ast, ast.Assign) and len(n.ast.targets) == 1 and \
            isinstance(n.ast.targets[0], ast.Name) and isinstance(n.ast.value, ast.Constant) and \
            (n.ast.value.value is None or isinstance(n.ast.value.value, bool)):
        # `x = True / False / None` establishes the outcome of later tests of x
        d = {k: v for k, v in facts if k[1] != n.ast.targets[0].id}
        d[('truth', n.ast.targets[0].id)] = bool(n.ast.value.value)
        if n.ast.value.value is None:
            d[('isnone', n.ast.targets[0].id)] = True
        elif isinstance(n.ast.value.value, bool):
            d[('isnone', n.ast.targets[0].id)] = False
        return frozenset(d.items())
    if facts:
        dead = invalidated_keys(n, [k for k, _ in facts])
        if dead:
            return frozenset((k, v) for k, v in facts if k not in dead)
    return facts


def path_pruned(cfg, start, targets, avoid=(), start_successors_only=True, init_facts=None):
    """Like CFG.path_avoiding, but paths that contradict the outcome of an earlier, still valid
    pure test (`if stop:` after `if not stop:` without a write of stop in between) are pruned."""
    from collections import deque as _dq
    tids = {t.id for t in targets}
    avoid_ids = {a.id for a in avoid}
    f0 = _facts_after(cfg, frozenset(init_facts or ()), start.id)
    if f0 is None:
        return None
    init = (start.id, f0)
    prev = {init: None}
    dq = _dq([init])
    if start.id in tids and not start_successors_only:
        return [start]
    while dq:
        cur = dq.popleft()
        u, facts = cur
        for v, lab in cfg.succ[u]:
            nf = _facts_after(cfg, facts, v)
            if nf is None:
                continue
            if v in tids and (v == start.id or v not in avoid_ids):
                chain = [(v, nf), cur]
                while prev[chain[-1]] is not None:
                    chain.append(prev[chain[-1]])
                return [cfg.nodes[c[0]] for c in reversed(chain)]
            if v in avoid_ids:
                continue
            nxt = (v, nf)
            if nxt in prev:
                continue
            prev[nxt] = cur
            dq.append(nxt)
    return None


def stable_guard_facts(cfg, node):
    """Outcomes of dominating pure tests of *local names* that still hold at `node`: the name is
    not re-defined on any path from the branch to the node."""
    from .dataflow import node_defs
    dom = cfg.dominators()
    res = {}
    if node.id not in dom:
        return frozenset()
    for did in sorted(dom[node.id]):
        d = cfg.nodes[did]
        if d.kind != 'branch':
            continue
        for e, p in decompose(d.test.ast, d.polarity):
            k = test_key(e)
            if k is None or not k[0][1].isidentifier():
                continue
            subj = k[0][1]
            between = cfg.reachable_from(d, avoid=[node])
            redefined = any(subj in node_defs(cfg.nodes[i]) for i in between
                            if i != node.id and node.id in cfg.reachable_from(cfg.nodes[i]))
            if not redefined:
                res[k[0]] = k[1] if p else (not k[1])
    return frozenset(res.items())
