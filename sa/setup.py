"""`./check --setup`: byte-compile nothing into the tree, just make sure the analyser imports,
the repository parses, and log the generic cross-reference lints (never affect a verdict)."""
from __future__ import annotations

import importlib
import os
import sys
import warnings


def run(repo: str) -> int:
    from .loader import Program, AnalysisError
    try:
        prog = Program(repo)
    except AnalysisError as err:
        print(f"setup: repository does not load: {err}")
        return 2
    print(f"setup: parsed {len(prog.modules)} modules, {len(prog.classes)} classes, "
          f"{len(prog.funcs)} functions of {repo}/edzed")
    for name in ('loader', 'cfg', 'dataflow', 'typestate', 'absval', 'tables', 'docs_api',
                 'report', 'rulekit', 'main'):
        importlib.import_module(f"sa.{name}")
    n = 0
    for i in range(1, 21):
        try:
            importlib.import_module(f"rules.c{i:02d}")
            n += 1
        except ModuleNotFoundError:
            pass
    print(f"setup: {n} rule sets importable")
    # generic cross-reference lint: compile every module with warnings as errors
    bad = 0
    with warnings.catch_warnings():
        warnings.simplefilter('error')
        for mod in prog.modules.values():
            try:
                compile(mod.src, mod.path, 'exec')
            except (SyntaxError, Warning) as err:
                bad += 1
                print(f"setup NOTE: {mod.path}: {err}")
    print(f"setup: generic compile lint: {bad} note(s) (informational)")
    return 0
