"""Static analyser for xitop/edzed (pure stdlib `ast`; nothing from /repo is imported)."""
