"""
E11 -- docs <-> code API surface: reStructuredText directives of docs/*.rst
(`.. class::`, `.. method::`, `.. classmethod::`, `.. function::`, `.. attribute::`,
`.. data::`, `.. exception::`) with their owner class by indentation nesting.
"""
from __future__ import annotations

import os
import re

_DIR = re.compile(r'^(\s*)\.\.\s+(class|method|classmethod|staticmethod|function|attribute|data|'
                  r'exception|decorator)::\s*(.+?)\s*$')
_NAME = re.compile(r'^([A-Za-z_][A-Za-z0-9_.]*)')


def directives(repo: str, filename: str):
    """-> list of dicts {kind, name, owner, file, line, signature}."""
    path = os.path.join(repo, 'docs', filename)
    res = []
    try:
        with open(path, encoding='utf-8') as f:
            lines = f.read().splitlines()
    except OSError:
        return None
    stack = []      # (indent, class name)
    for i, line in enumerate(lines, 1):
        if not line.strip():
            continue
        indent = len(line) - len(line.lstrip())
        m = _DIR.match(line)
        # pop owners that are not enclosing any more: a class directive's content is indented
        while stack and indent <= stack[-1][0] and (m or not line.startswith(' ' * (stack[-1][0] + 1))):
            if indent <= stack[-1][0]:
                stack.pop()
            else:
                break
        if not m:
            continue
        kind, sig = m.group(2), m.group(3)
        nm = _NAME.match(sig)
        if not nm:
            continue
        name = nm.group(1)
        owner = stack[-1][1] if stack else None
        if '.' in name and owner is None:
            owner, name = name.rsplit('.', 1)
        res.append({'kind': kind, 'name': name, 'owner': owner, 'file': f"docs/{filename}",
                    'line': i, 'signature': sig})
        if kind in ('class', 'exception'):
            stack.append((indent, name))
    return res


def description(repo: str, d: dict, max_lines: int = 12) -> str:
    """The text lines following a directive (its description), joined."""
    path = os.path.join(repo, d['file'])
    with open(path, encoding='utf-8') as f:
        lines = f.read().splitlines()
    out = []
    for line in lines[d['line']:d['line'] + max_lines]:
        if _DIR.match(line):
            break
        out.append(line.strip())
    return ' '.join(x for x in out if x)
