"""
E1 -- loader / resolver.

Parses every module of the `edzed` package found under <repo>/edzed with CPython's `ast`
(nothing is imported or executed), builds per-module binding tables, the class table with a
C3 MRO computed from the class statements, class-level aliases, and the function table with
stable ids `module:Class.func` (nested: `outer.<locals>.inner`).
"""
from __future__ import annotations

import ast
import os
from dataclasses import dataclass, field
from typing import Optional


class AnalysisError(Exception):
    """An anchor vanished / an idiom is outside the enumerated ones / the checker is lost."""

    def __init__(self, rule: str, reason: str):
        super().__init__(f"{rule}: {reason}")
        self.rule = rule
        self.reason = reason


def norm(node: ast.AST | None) -> str:
    """Whitespace- and comment-insensitive text of a node."""
    if node is None:
        return '<none>'
    try:
        return ast.unparse(node)
    except Exception:       # pragma: no cover
        return ast.dump(node)


def norm1(node: ast.AST | None, limit: int = 110) -> str:
    """One-line, length-limited text of a node (for keys and messages)."""
    txt = ' '.join(norm(node).split())
    if isinstance(node, (ast.If, ast.While)):
        txt = ('if ' if isinstance(node, ast.If) else 'while ') + ' '.join(norm(node.test).split())
    elif isinstance(node, (ast.For, ast.AsyncFor)):
        txt = f"for {norm(node.target)} in {' '.join(norm(node.iter).split())}"
    elif isinstance(node, (ast.With, ast.AsyncWith)):
        txt = 'with ' + ', '.join(' '.join(norm(i).split()) for i in node.items)
    elif isinstance(node, ast.Try):
        txt = 'try'
    elif isinstance(node, (ast.FunctionDef, ast.AsyncFunctionDef, ast.ClassDef)):
        txt = f"def {node.name}" if not isinstance(node, ast.ClassDef) else f"class {node.name}"
    return txt if len(txt) <= limit else txt[:limit - 3] + '...'


@dataclass
class Module:
    name: str               # short dotted name relative to the package: 'block', 'blocklib.cron'
    path: str               # path relative to the repository root
    src: str
    tree: ast.Module
    is_pkg: bool
    bindings: dict = field(default_factory=dict)
    # bindings: name -> ('module', modname) | ('class', ClassInfo) | ('func', FuncInfo)
    #                   | ('import', modname, attr) | ('value', ast.expr) | ('ext', dotted)
    star_imports: list = field(default_factory=list)
    all_names: Optional[list] = None


@dataclass(eq=False)
class FuncInfo:
    fid: str
    name: str
    node: ast.FunctionDef | ast.AsyncFunctionDef
    module: Module
    cls: Optional['ClassInfo']
    parent: Optional['FuncInfo']
    decorators: list

    @property
    def is_async(self) -> bool:
        return isinstance(self.node, ast.AsyncFunctionDef)

    @property
    def lineno(self) -> int:
        return self.node.lineno

    def where(self, node: ast.AST | None = None) -> str:
        line = getattr(node, 'lineno', None) or self.node.lineno
        return f"{self.module.path}:{line}"

    def __repr__(self) -> str:
        return f"<Func {self.fid}>"


@dataclass(eq=False)
class ClassInfo:
    qual: str               # 'block:SBlock', nested 'block:CBlock.InputGetter'
    name: str
    node: ast.ClassDef
    module: Module
    outer: Optional['ClassInfo']
    base_exprs: list
    bases: list = field(default_factory=list)       # ClassInfo | str (external)
    mro: list = field(default_factory=list)         # ClassInfo | str
    methods: dict = field(default_factory=dict)     # name -> FuncInfo
    aliases: dict = field(default_factory=dict)     # name -> ast.expr (class-level `a = b`)
    values: dict = field(default_factory=dict)      # name -> ast.expr (class-level constants)
    nested: dict = field(default_factory=dict)      # name -> ClassInfo

    def __repr__(self) -> str:
        return f"<Class {self.qual}>"

    def is_subclass_of(self, other: 'ClassInfo | str') -> bool:
        return any(c is other or (isinstance(other, str) and cname(c) == other) for c in self.mro)


def cname(c) -> str:
    return c.name if isinstance(c, ClassInfo) else str(c).rsplit('.', 1)[-1]


class Program:
    """All modules of <repo>/edzed, resolved."""

    PKG = 'edzed'

    def __init__(self, repo: str, extra_dirs: tuple = ()):
        self.repo = os.path.abspath(repo)
        self.modules: dict[str, Module] = {}
        self.classes: dict[str, ClassInfo] = {}        # qual -> ClassInfo
        self.funcs: dict[str, FuncInfo] = {}           # fid -> FuncInfo
        self.parse_errors: list = []
        self.alpha_log: list = []
        pkgdir = os.path.join(self.repo, self.PKG)
        if not os.path.isdir(pkgdir):
            raise AnalysisError('E1', f"package directory {pkgdir} not found")
        for root, dirs, files in os.walk(pkgdir):
            dirs[:] = sorted(d for d in dirs if d != '__pycache__')
            for fn in sorted(files):
                if fn.endswith('.py'):
                    self._load(os.path.join(root, fn), pkgdir)
        self.extra: dict[str, Module] = {}
        for d in extra_dirs:
            full = os.path.join(self.repo, d)
            if os.path.isdir(full):
                for fn in sorted(os.listdir(full)):
                    if fn.endswith('.py'):
                        self._load(os.path.join(full, fn), full, extra=d)
        for mod in list(self.modules.values()) + list(self.extra.values()):
            self._bind(mod)
        for mod in list(self.modules.values()) + list(self.extra.values()):
            self._collect(mod)
        for ci in self.classes.values():
            ci.bases = [self._resolve_base(ci, b) for b in ci.base_exprs]
        for ci in self.classes.values():
            self._mro(ci, set())

    # ---------------------------------------------------------------- loading
    def _load(self, path: str, pkgdir: str, extra: str | None = None) -> None:
        rel = os.path.relpath(path, pkgdir)
        parts = rel[:-3].split(os.sep)
        is_pkg = parts[-1] == '__init__'
        if is_pkg:
            parts = parts[:-1]
        name = '.'.join(parts)
        if extra is not None:
            name = f"{extra}/{name}"
        with open(path, encoding='utf-8') as f:
            src = f.read()
        try:
            tree = ast.parse(src, filename=path)
        except SyntaxError as err:
            raise AnalysisError('E1', f"{path} does not parse: {err}") from None
        if extra is None:
            # E12: rename locals back to the reference names where that is an exact alpha-conversion
            from .alpha import canonicalise
            self.alpha_log.extend((name,) + t for t in canonicalise(name, tree))
        mod = Module(name, os.path.relpath(path, self.repo), src, tree, is_pkg)
        (self.extra if extra is not None else self.modules)[name] = mod

    def _abs_module(self, mod: Module, level: int, target: str | None) -> str | None:
        """Resolve a relative import to a short module name, or None if external."""
        if mod.name.startswith(('examples/', 'tests/')):
            if level == 0 and target and (target == self.PKG or target.startswith(self.PKG + '.')):
                return target[len(self.PKG):].lstrip('.')
            return None
        if level == 0:
            if target and (target == self.PKG or target.startswith(self.PKG + '.')):
                return target[len(self.PKG):].lstrip('.')
            return None
        parts = mod.name.split('.') if mod.name else []
        if not mod.is_pkg:
            parts = parts[:-1]
        up = level - 1
        if up > len(parts):
            return None
        if up:
            parts = parts[:-up]
        if target:
            parts = parts + target.split('.')
        return '.'.join(parts)

    def _bind(self, mod: Module) -> None:
        def handle(stmts, toplevel=True):
            for st in stmts:
                if isinstance(st, ast.Import):
                    for a in st.names:
                        nm = a.asname or a.name.split('.')[0]
                        tgt = self._abs_module(mod, 0, a.name)
                        if tgt is not None and a.asname:
                            mod.bindings[nm] = ('module', tgt)
                        elif tgt is not None:
                            mod.bindings[nm] = ('module', '')
                        else:
                            mod.bindings[nm] = ('ext', a.name if a.asname else a.name.split('.')[0])
                elif isinstance(st, ast.ImportFrom):
                    base = self._abs_module(mod, st.level, st.module)
                    for a in st.names:
                        if a.name == '*':
                            if base is not None:
                                mod.star_imports.append(base)
                            continue
                        nm = a.asname or a.name
                        if base is None:
                            mod.bindings[nm] = ('ext', f"{st.module}.{a.name}")
                        else:
                            sub = f"{base}.{a.name}" if base else a.name
                            if sub in self.modules:
                                mod.bindings[nm] = ('module', sub)
                            else:
                                mod.bindings[nm] = ('import', base, a.name)
                elif isinstance(st, ast.If):
                    # `if TYPE_CHECKING: ... else: ...` -> run-time branch is the else part
                    if norm(st.test) in ('TYPE_CHECKING', 'typing.TYPE_CHECKING'):
                        handle(st.orelse, toplevel)
                    elif norm(st.test) in ('not TYPE_CHECKING', 'not typing.TYPE_CHECKING'):
                        handle(st.body, toplevel)
                    else:
                        handle(st.body, toplevel)
                        handle(st.orelse, toplevel)
                elif isinstance(st, ast.Try):
                    handle(st.body, toplevel)
                    for h in st.handlers:
                        handle(h.body, toplevel)
                    handle(st.orelse, toplevel)
                    handle(st.finalbody, toplevel)
                elif isinstance(st, ast.Assign):
                    for t in st.targets:
                        if isinstance(t, ast.Name):
                            mod.bindings[t.id] = ('value', st.value)
                            if t.id == '__all__':
                                mod.all_names = st.value
                elif isinstance(st, ast.AnnAssign) and isinstance(st.target, ast.Name) \
                        and st.value is not None:
                    mod.bindings[st.target.id] = ('value', st.value)
        handle(mod.tree.body)

    def _collect(self, mod: Module) -> None:
        sep = ':'

        def walk_body(stmts, cls: ClassInfo | None, func: FuncInfo | None, prefix: str):
            for st in stmts:
                if isinstance(st, (ast.FunctionDef, ast.AsyncFunctionDef)):
                    qual = f"{prefix}{st.name}"
                    fid = f"{mod.name}{sep}{qual}"
                    if fid in self.funcs:       # overloads: keep the last (the implementation)
                        pass
                    fi = FuncInfo(fid, st.name, st, mod, cls if func is None else None, func,
                                  [norm(d) for d in st.decorator_list])
                    self.funcs[fid] = fi
                    if cls is not None and func is None:
                        cls.methods[st.name] = fi
                    elif cls is None and func is None:
                        mod.bindings[st.name] = ('func', fi)
                    walk_body(st.body, None, fi, f"{qual}.<locals>.")
                elif isinstance(st, ast.ClassDef):
                    qual = f"{prefix}{st.name}"
                    ci = ClassInfo(f"{mod.name}{sep}{qual}", st.name, st, mod, cls,
                                   [b for b in st.bases])
                    self.classes[ci.qual] = ci
                    if cls is not None and func is None:
                        cls.nested[st.name] = ci
                    elif cls is None and func is None:
                        mod.bindings[st.name] = ('class', ci)
                    walk_body(st.body, ci, None, f"{qual}.")
                elif isinstance(st, (ast.If, ast.Try, ast.With, ast.For, ast.While,
                                     ast.AsyncWith, ast.AsyncFor)):
                    for fld in ('body', 'orelse', 'finalbody'):
                        walk_body(getattr(st, fld, []) or [], cls, func, prefix)
                    for h in getattr(st, 'handlers', []) or []:
                        walk_body(h.body, cls, func, prefix)
                elif cls is not None and func is None:
                    if isinstance(st, ast.Assign):
                        for t in st.targets:
                            if isinstance(t, ast.Name):
                                self._class_value(cls, t.id, st.value)
                    elif isinstance(st, ast.AnnAssign) and isinstance(st.target, ast.Name) \
                            and st.value is not None:
                        self._class_value(cls, st.target.id, st.value)
        walk_body(mod.tree.body, None, None, '')

    @staticmethod
    def _class_value(cls: ClassInfo, name: str, value: ast.expr) -> None:
        if isinstance(value, (ast.Name, ast.Attribute)):
            cls.aliases[name] = value
        cls.values[name] = value

    # ---------------------------------------------------------------- resolution
    def module(self, name: str) -> Module:
        try:
            return self.modules[name]
        except KeyError:
            raise AnalysisError('E1', f"module edzed.{name} not found") from None

    def lookup(self, mod: Module, name: str, _seen=None):
        """Resolve a simple name in a module. Returns a binding tuple or None."""
        _seen = _seen or set()
        if (mod.name, name) in _seen:
            return None
        _seen.add((mod.name, name))
        b = mod.bindings.get(name)
        if b is not None:
            if b[0] == 'import':
                tgt = self.modules.get(b[1])
                if tgt is None:
                    return None
                return self.lookup(tgt, b[2], _seen)
            return b
        for base in mod.star_imports:
            tgt = self.modules.get(base)
            if tgt is not None:
                r = self.lookup(tgt, name, _seen)
                if r is not None:
                    return r
        return None

    def resolve_expr(self, mod: Module, expr: ast.expr, cls: ClassInfo | None = None):
        """Resolve a Name / dotted Attribute expression to a binding, or None."""
        if isinstance(expr, ast.Subscript):
            return self.resolve_expr(mod, expr.value, cls)
        if isinstance(expr, ast.Name):
            if cls is not None:
                c = cls
                while c is not None:
                    if expr.id in c.nested:
                        return ('class', c.nested[expr.id])
                    c = c.outer
            return self.lookup(mod, expr.id)
        if isinstance(expr, ast.Attribute):
            base = self.resolve_expr(mod, expr.value, cls)
            if base is None:
                return None
            if base[0] == 'module':
                tgt = self.modules.get(base[1])
                if tgt is None:
                    return None
                sub = f"{base[1]}.{expr.attr}" if base[1] else expr.attr
                if sub in self.modules:
                    return ('module', sub)
                return self.lookup(tgt, expr.attr)
            if base[0] == 'class':
                ci = base[1]
                if expr.attr in ci.nested:
                    return ('class', ci.nested[expr.attr])
                m = self.resolve_method(ci, expr.attr)
                if m is not None:
                    return ('func', m)
                v = self.class_value(ci, expr.attr)
                if v is not None:
                    return ('value', v)
                return None
            if base[0] == 'ext':
                return ('ext', f"{base[1]}.{expr.attr}")
            return None
        return None

    def _resolve_base(self, ci: ClassInfo, expr: ast.expr):
        if isinstance(expr, ast.Subscript):     # Generic[...] / _Interval[dt.time]
            expr = expr.value
        b = self.resolve_expr(ci.module, expr, ci.outer)
        if b is not None and b[0] == 'value':
            # an alias such as `Addon = block.Addon`
            b2 = self.resolve_expr(ci.module, b[1], ci.outer)
            if b2 is not None:
                b = b2
        if b is not None and b[0] == 'class':
            return b[1]
        return norm(expr)

    def _mro(self, ci: ClassInfo, busy: set) -> list:
        if ci.mro:
            return ci.mro
        if ci.qual in busy:
            raise AnalysisError('E1', f"inheritance cycle at {ci.qual}")
        busy.add(ci.qual)
        seqs = []
        for b in ci.bases:
            if isinstance(b, ClassInfo):
                seqs.append(list(self._mro(b, busy)))
            else:
                seqs.append([b])
        seqs.append(list(ci.bases))
        res = [ci]
        seqs = [s for s in seqs if s]
        while seqs:
            for s in seqs:
                cand = s[0]
                if not any(_in_tail(cand, t) for t in seqs):
                    break
            else:
                raise AnalysisError('E1', f"inconsistent MRO for {ci.qual}")
            res.append(cand)
            seqs = [[x for x in s if not _same(x, cand)] for s in seqs]
            seqs = [s for s in seqs if s]
        ci.mro = res
        return res

    # ---------------------------------------------------------------- queries
    def cls(self, qual: str) -> ClassInfo:
        try:
            return self.classes[qual]
        except KeyError:
            raise AnalysisError('E1', f"class {qual} not found") from None

    def func(self, fid: str) -> FuncInfo:
        try:
            return self.funcs[fid]
        except KeyError:
            raise AnalysisError('E1', f"function {fid} not found") from None

    def has_func(self, fid: str) -> bool:
        return fid in self.funcs

    def class_value(self, ci: ClassInfo, name: str):
        for c in ci.mro:
            if isinstance(c, ClassInfo) and name in c.values:
                return c.values[name]
        return None

    def resolve_method(self, ci: ClassInfo, name: str, start_after: ClassInfo | None = None,
                       _depth: int = 0) -> FuncInfo | None:
        """MRO lookup following class-level aliases (`init_from_value = _setmod`)."""
        if _depth > 8:
            return None
        started = start_after is None
        for c in ci.mro:
            if not started:
                if c is start_after:
                    started = True
                continue
            if not isinstance(c, ClassInfo):
                continue
            if name in c.methods:
                return c.methods[name]
            if name in c.aliases:
                target = c.aliases[name]
                if isinstance(target, ast.Name):
                    # alias to another name of the same class body (resolved at class
                    # creation time in the defining class)
                    if target.id in c.methods:
                        return c.methods[target.id]
                    if target.id in c.aliases and target.id != name:
                        return self.resolve_method(c, target.id, None, _depth + 1)
                    return None
                b = self.resolve_expr(c.module, target, c.outer)
                if b is not None and b[0] == 'func':
                    return b[1]
                return None
        return None

    def defining_class(self, ci: ClassInfo, name: str) -> ClassInfo | None:
        for c in ci.mro:
            if isinstance(c, ClassInfo) and (name in c.methods or name in c.aliases):
                return c
        return None

    def subclasses(self, ci: ClassInfo, strict: bool = False) -> list[ClassInfo]:
        res = [c for c in self.classes.values()
               if ci in c.mro and not (strict and c is ci)]
        return sorted(res, key=lambda c: c.qual)

    def is_dummy(self, fi: FuncInfo | None) -> bool:
        return fi is None or fi.fid in ('block:Block.dummy_method', 'block:Block.dummy_async_method')

    def pkg_funcs(self, include_demo: bool = True):
        for fid, fi in sorted(self.funcs.items()):
            if '/' in fi.module.name:
                continue
            if not include_demo and fi.module.name == 'demo':
                continue
            yield fi

    def pkg_classes(self, include_demo: bool = False):
        for q, ci in sorted(self.classes.items()):
            if '/' in ci.module.name:
                continue
            if not include_demo and ci.module.name == 'demo':
                continue
            yield ci

    def enclosing_class(self, fi: FuncInfo) -> ClassInfo | None:
        """The class whose method (possibly via nesting) this function is."""
        f = fi
        while f is not None:
            if f.cls is not None:
                return f.cls
            f = f.parent
        return None


def _same(a, b) -> bool:
    return a is b or (isinstance(a, str) and isinstance(b, str) and a == b)


def _in_tail(cand, seq) -> bool:
    return any(_same(cand, x) for x in seq[1:])


# --------------------------------------------------------------------------- AST helpers

def own_nodes(fn_node: ast.AST):
    """Walk a function body without descending into nested defs / lambdas / classes."""
    stack = list(ast.iter_child_nodes(fn_node))
    while stack:
        n = stack.pop()
        yield n
        if isinstance(n, (ast.FunctionDef, ast.AsyncFunctionDef, ast.ClassDef, ast.Lambda)):
            continue
        stack.extend(ast.iter_child_nodes(n))


def walk_shallow(node: ast.AST):
    """Walk an expression / statement without entering nested function bodies (lambdas are
    entered: they are expressions evaluated later but written here)."""
    stack = [node]
    while stack:
        n = stack.pop()
        yield n
        if isinstance(n, (ast.FunctionDef, ast.AsyncFunctionDef, ast.ClassDef)) and n is not node:
            continue
        stack.extend(ast.iter_child_nodes(n))


def is_attr(node: ast.AST, base: str | None, attr: str) -> bool:
    """`base.attr` (base = None accepts any base expression)."""
    return (isinstance(node, ast.Attribute) and node.attr == attr
            and (base is None or norm(node.value) == base))


def call_name(call: ast.AST) -> str | None:
    """Last component of the callee of a Call (method or function name)."""
    if not isinstance(call, ast.Call):
        return None
    f = call.func
    if isinstance(f, ast.Attribute):
        return f.attr
    if isinstance(f, ast.Name):
        return f.id
    return None


def calls_in(node: ast.AST, name: str | None = None, base: str | None = None):
    """All Call nodes inside `node` (not entering nested defs) whose callee's last component
    is `name` and, if given, whose receiver text is `base`."""
    res = []
    for n in walk_shallow(node):
        if isinstance(n, ast.Call):
            if name is not None and call_name(n) != name:
                continue
            if base is not None:
                if not (isinstance(n.func, ast.Attribute) and norm(n.func.value) == base):
                    continue
            res.append(n)
    return res


_LOG_METHODS = {'log_debug', 'log_info', 'log_warning', 'log_error', 'log_msg'}
_LOGGER_METHODS = {'debug', 'info', 'warning', 'error', 'critical', 'exception', 'log'}


def is_logging_call(call: ast.AST) -> bool:
    """A call of the block logging helpers or of a module logger (assumption A6: logging does not
    raise and has no effect on the circuit)."""
    if not isinstance(call, ast.Call) or not isinstance(call.func, ast.Attribute):
        return False
    if call.func.attr in _LOG_METHODS:
        return True
    return call.func.attr in _LOGGER_METHODS and norm(call.func.value) in ('_logger', 'logging', 'logger')


def is_logging_stmt(st: ast.AST) -> bool:
    return isinstance(st, ast.Expr) and is_logging_call(st.value)


def is_super_call(call: ast.AST, name: str | None = None) -> bool:
    return (isinstance(call, ast.Call) and isinstance(call.func, ast.Attribute)
            and isinstance(call.func.value, ast.Call)
            and isinstance(call.func.value.func, ast.Name)
            and call.func.value.func.id == 'super'
            and (name is None or call.func.attr == name))


def attr_writes(node: ast.AST):
    """Yield (target Attribute node, stmt kind) for each attribute write inside `node`:
    `x.a = ..`, `x.a op= ..`, `x.a: T = ..`, `del x.a`, `(x.a := ..)` is not legal python;
    tuple targets are flattened."""
    def flat(t):
        if isinstance(t, (ast.Tuple, ast.List)):
            for e in t.elts:
                yield from flat(e)
        elif isinstance(t, ast.Starred):
            yield from flat(t.value)
        else:
            yield t
    for n in walk_shallow(node):
        if isinstance(n, ast.Assign):
            for t in n.targets:
                for e in flat(t):
                    if isinstance(e, ast.Attribute):
                        yield e, 'assign', n
        elif isinstance(n, ast.AugAssign):
            if isinstance(n.target, ast.Attribute):
                yield n.target, 'augassign', n
        elif isinstance(n, ast.AnnAssign):
            if isinstance(n.target, ast.Attribute) and n.value is not None:
                yield n.target, 'assign', n
        elif isinstance(n, ast.Delete):
            for t in n.targets:
                if isinstance(t, ast.Attribute):
                    yield t, 'del', n
        elif isinstance(n, (ast.For, ast.AsyncFor)):
            for e in flat(n.target):
                if isinstance(e, ast.Attribute):
                    yield e, 'assign', n
        elif isinstance(n, (ast.With, ast.AsyncWith)):
            for it in n.items:
                if it.optional_vars is not None:
                    for e in flat(it.optional_vars):
                        if isinstance(e, ast.Attribute):
                            yield e, 'assign', n


def subscript_writes(node: ast.AST):
    """Yield (Subscript target, kind, stmt) for `x[k] = ..`, `x[k] op= ..`, `del x[k]`."""
    def flat(t):
        if isinstance(t, (ast.Tuple, ast.List)):
            for e in t.elts:
                yield from flat(e)
        else:
            yield t
    for n in walk_shallow(node):
        if isinstance(n, ast.Assign):
            for t in n.targets:
                for e in flat(t):
                    if isinstance(e, ast.Subscript):
                        yield e, 'assign', n
        elif isinstance(n, ast.AugAssign) and isinstance(n.target, ast.Subscript):
            yield n.target, 'augassign', n
        elif isinstance(n, ast.Delete):
            for t in n.targets:
                if isinstance(t, ast.Subscript):
                    yield t, 'del', n


def const_value(node: ast.AST):
    """literal_eval restricted to literal nodes; raises ValueError otherwise."""
    return ast.literal_eval(node)


def recv(call: ast.AST) -> str:
    """Source text of the receiver of a method call (`a.b` for `a.b.m()`), '' for plain calls."""
    if isinstance(call, ast.Call) and isinstance(call.func, ast.Attribute):
        return norm(call.func.value)
    return ''
