"""
E13 - path-sensitive effect summaries and equivalence with the reference implementation.

A function that was restructured (helpers split off, conditions computed once, an early return
turned into a flag, a helper merged into its caller...) no longer has the SHAPE the rules know,
although it does the same thing.  Here a function body is summarised, without executing edzed
and without a solver, as a set of paths

        (decisions taken, effect trace, outcome)

over FREE symbols: parameters, attributes, the results of calls that are not understood.  Every
condition that cannot be decided from constants is an uninterpreted atom; the walk forks on it
(and remembers the decision, so the same atom is never decided twice on one path).  Effects are
the calls of functions that are not interpreted, awaits, attribute / item stores; logging is
dropped (assumption A6).  A call of a helper that exists in only ONE of the two versions is
stepped into, so a split or merged helper disappears from the summary.

Two summaries are EQUIVALENT when every pair of paths with compatible decisions has the same
trace and outcome.  The paths of one function partition its inputs, so equivalence of all
compatible pairs implies equal behaviour for every input - modulo the stated bounds: loops over
unknown collections are unrolled 0..2 times, `while` loops 3 times, exceptions come only from
calls/awaits/subscripts inside a `try` (and explicit raises), purity of the listed accessors.
Every imprecision (atoms treated as independent, unknown constructs) makes two functions
NOT equivalent; the caller then keeps the current shape, i.e. nothing is ever hidden by a failed
proof.  A proved equivalence lets the loader analyse the function in its reference form.
"""
from __future__ import annotations

import ast
import time
import copy

from .loader import is_logging_call
from .inline import PURE_FUNCS, PURE_METHODS

LOOP_UNROLL = 2
WHILE_UNROLL = 3
UNROLL_LEVELS = ((2, 2, 3), (1, 2, 2), (1, 1, 2), (1, 1, 1))
MAX_PATHS = 16000
MAX_STEPS = 40000
MAX_DEPTH = 6

_STABLE_FUNCS = {'isinstance', 'issubclass', 'type', 'callable', 'id', 'super', 'str', 'repr', 'int', 'float',
                 'abs', 'max', 'min', 'range'}
_STABLE_METHODS = {'startswith', 'endswith', 'lower', 'upper', 'strip', 'split', 'removeprefix', 'partition',
                   'isoweekday', 'total_seconds', 'has_method', 'input_signature'}
_NO_FAULT = {'isinstance', 'issubclass', 'type', 'callable', 'id', 'super', 'len', 'bool', 'hasattr', 'repr', 'str',
             'keys', 'values', 'items', 'done', 'cancelled', 'empty', 'qsize', 'is_set', 'is_initialized',
             'is_ready', 'is_finalized', 'startswith', 'endswith', 'copy', 'has_method', 'getblocks',
             'get_running_loop', 'current_task', 'lower', 'upper', 'strip'}

OBSERVATIONS = {'time', 'now', 'monotonic', 'today', 'localtime', 'utcnow', 'perf_counter'}

_EXC_PARENT = {
    'KeyError': 'LookupError', 'IndexError': 'LookupError', 'LookupError': 'Exception',
    'ValueError': 'Exception', 'TypeError': 'Exception', 'AttributeError': 'Exception',
    'RuntimeError': 'Exception', 'NotImplementedError': 'RuntimeError', 'OSError': 'Exception',
    'AssertionError': 'Exception', 'ArithmeticError': 'Exception',
    'ZeroDivisionError': 'ArithmeticError', 'OverflowError': 'ArithmeticError',
    'StopIteration': 'Exception', 'TimeoutError': 'OSError', 'UnicodeError': 'ValueError',
    'InvalidStateError': 'Exception', 'QueueEmpty': 'Exception', 'QueueFull': 'Exception',
    'CancelledError': 'BaseException', 'KeyboardInterrupt': 'BaseException',
    'SystemExit': 'BaseException', 'GeneratorExit': 'BaseException',
    'Exception': 'BaseException', 'BaseException': None,
    'EdzedError': 'Exception', 'EdzedCircuitError': 'EdzedError',
    'EdzedInvalidState': 'EdzedError', 'EdzedUnknownEvent': 'EdzedError',
    'Other': 'Exception',
}


def _ancestors(name: str) -> list:
    out = []
    seen = set()
    while name is not None and name not in seen:
        seen.add(name)
        out.append(name)
        if name in _EXC_PARENT:
            name = _EXC_PARENT[name]
        else:
            name = 'Exception'
    return out


class Unknown(Exception):
    """The summariser met something it does not model: no summary, no equivalence."""


class Sym(str):
    """An opaque value; its text is canonical."""
    __slots__ = ()


class Star(Sym):
    """`*x` of an unknown sequence in an argument / element list."""
    __slots__ = ()


class ObjSym(Sym):
    """A value known to be an object other than None (an f-string, a new exception)."""
    __slots__ = ()


class GSym(Sym):
    """A module-level name (module, class, constant, function): attributes are stable."""
    __slots__ = ()


class NT(tuple):
    """An instance of a NamedTuple class that exists in one version only: it IS a tuple."""
    fields: tuple = ()


class Closure:
    def __init__(self, node, env, name=''):
        self.node, self.env, self.name = node, env, name


class _Ret(Exception):
    def __init__(self, v):
        self.v = v


class _Break(Exception):
    pass


class _Continue(Exception):
    pass


class _Exc(Exception):
    def __init__(self, cls, val):
        self.cls, self.val = cls, val


def show(v) -> str:
    if isinstance(v, Sym):
        return str(v)
    if isinstance(v, (bool, int, float, str, bytes)) or v is None or v is Ellipsis:
        return repr(v)
    if isinstance(v, tuple):
        return '(' + ', '.join(show(x) for x in v) + (',)' if len(v) == 1 else ')')
    if isinstance(v, list):
        return '[' + ', '.join(show(x) for x in v) + ']'
    if isinstance(v, (set, frozenset)):
        return '{' + ', '.join(sorted(show(x) for x in v)) + '}' if v else 'set()'
    if isinstance(v, dict):
        return '{' + ', '.join(f'{show(k)}: {show(x)}' for k, x in v.items()) + '}'
    if isinstance(v, Closure):
        return f'<closure {v.name or "lambda"} {v.text()}>' if hasattr(v, 'text') else f'<closure {v.name}>'
    raise Unknown(f'value {type(v).__name__}')


def _concrete(v) -> bool:
    if isinstance(v, Sym):
        return False
    if isinstance(v, (tuple, list, set, frozenset)):
        return all(_concrete(x) for x in v)
    if isinstance(v, dict):
        return all(_concrete(k) and _concrete(x) for k, x in v.items())
    if isinstance(v, Closure):
        return False
    return True


def _neg(s: str) -> Sym:
    if s.startswith('not(') and s.endswith(')'):
        depth = 0
        for i, ch in enumerate(s):
            if ch == '(':
                depth += 1
            elif ch == ')':
                depth -= 1
                if depth == 0:
                    break
        if i == len(s) - 1:
            return Sym(s[4:-1])
    return Sym(f'not({s})')


_ATOM_HEADS = ('eq(', 'is(', 'lt(', 'in(', 'isinstance(', 'issubclass(', 'truth(', 'callable(', 'hasattr(')


class Ctx:
    """What a run needs to know about the module version it interprets."""

    def __init__(self, funcs: dict, classes: dict, stepin: set, const_attrs=frozenset(), alphabet=()):
        self.funcs = funcs              # qual -> FunctionDef of this version
        self.classes = classes          # class name -> ClassDef
        self.stepin = stepin            # quals that exist (unchanged) in this version only
        self.const_attrs = const_attrs
        self.alphabet = tuple(alphabet)
        self.unroll = (LOOP_UNROLL, LOOP_UNROLL, WHILE_UNROLL)
        self.nt_fields = {}
        self.guarded = set()
        self.consts = {}
        seen = {}
        for cd in classes.values():
            if 'NamedTuple' in {ast.unparse(b).split('.')[-1] for b in cd.bases}:
                flds = [st.target.id if isinstance(st, ast.AnnAssign) else st.targets[0].id for st in cd.body
                        if (isinstance(st, ast.AnnAssign) and isinstance(st.target, ast.Name)) or
                        (isinstance(st, ast.Assign) and len(st.targets) == 1 and isinstance(st.targets[0], ast.Name))]
                for i, f in enumerate(flds):
                    seen.setdefault(f, set()).add(i)
        self.nt_fields = {f: next(iter(ix)) for f, ix in seen.items() if len(ix) == 1}


class Run:
    def __init__(self, ctx: Ctx, qual: str, script: list):
        self.ctx = ctx
        self.qual = qual
        self.cls = qual.rsplit('.', 1)[0] if '.' in qual else None
        self.script = list(script)
        self.decisions = []
        self.taken = []                 # (key, value, n_options_remaining) in order
        self.alts = []
        self.facts = {}
        self.trace = []
        self.epoch = 0
        self.store = {}                 # (objtext, attr) -> value written on this path
        self.try_stack = []
        self.steps = 0
        self.depth = 0
        self.exc_cls = {}
        self.cur_exc = []
        self.cut = False
        self.escaped = set()
        self.eq_ops = {}
        self.eq_known = {}
        self.exc_group = {}
        self.keep = []
        self.yield_hooks = []

    # ------------------------------------------------------------------ decisions
    def choose(self, key: str, options: list):
        if key in self.facts:
            return self.facts[key]
        idx = len(self.decisions)
        if idx < len(self.script):
            val = self.script[idx]
        else:
            val = options[0]
            for o in options[1:]:
                self.alts.append(self.decisions + [o])
        self.decisions.append(val)
        self.facts[key] = val
        self.taken.append((key, val))
        return val

    def decide(self, v) -> bool:
        if isinstance(v, Closure):
            return True
        if not isinstance(v, Sym):
            try:
                return bool(v)
            except Exception:
                raise Unknown('truth of value')
        s = str(v)
        pol = True
        while True:
            n = _neg(s)
            if len(n) < len(s):
                s, pol = str(n), not pol
            else:
                break
        atom = s if s.startswith(_ATOM_HEADS) else f'truth({s})'
        if atom in self.facts:
            d = self.facts[atom]
        elif atom in self.eq_ops and self.eq_ops[atom][1] in self.eq_known:
            # X == c1 is known: X == c2 is decided by the constants
            cv, st = self.eq_ops[atom]
            d = (cv == self.eq_known[st] and type(cv) is type(self.eq_known[st]))
            self.facts[atom] = d
        else:
            d = self.choose(atom, [True, False])
            self._infer(atom, d)
            if d and atom in self.eq_ops:
                cv, st = self.eq_ops[atom]
                self.eq_known[st] = cv
        return d if pol else not d

    def _infer(self, atom, d):
        if atom.startswith('is(None, ') and d:
            self.facts.setdefault(f'truth({atom[9:-1]})', False)
        if atom.startswith('truth(') and d:
            self.facts.setdefault(f'is(None, {atom[6:-1]})', False)
        if atom.startswith('isinstance(') and d:
            inner = atom[len('isinstance('):-1]
            depth = 0
            for i, ch in enumerate(inner):
                if ch in '([{':
                    depth += 1
                elif ch in ')]}':
                    depth -= 1
                elif ch == ',' and depth == 0:
                    x, t = inner[:i], inner[i + 1:].strip()
                    if 'None' not in t and 'object' not in t:
                        self.facts.setdefault(f'is(None, {x})', False)
                    break

    # ------------------------------------------------------------------ effects
    def effect(self, kind, *items, bump=True, fault=True, name=None):
        self.trace.append((kind,) + tuple(items))
        n = len(self.trace)
        if bump:
            self.epoch += 1
            self.store.clear()
        if fault and self.ctx.alphabet and (self.try_stack or (
                kind in ('call', 'await') and (name if name is not None else self._callee_name(items[0])) in self.ctx.guarded)):
            classes = [c for c in self.ctx.alphabet if c != 'CancelledError' or kind == 'await']
            g = self.choose(f'fault@{n}', [None] + self._fault_groups(classes))
            if g is not None:
                c = g.split('|')[0]
                val = Sym(f'exc{n}')
                self.exc_cls[str(val)] = c
                self.exc_group[str(val)] = (f'fault@{n}', g.split('|'))
                raise _Exc(c, val)
        return n

    def exc_isinstance(self, val: str, type_names: list):
        """isinstance(<injected exception>, types): decided by the classes of its group; a group
        whose members disagree is split (the narrowed group is the recorded decision)."""
        key, members = self.exc_group[val]
        yes = [c for c in members if any(t in _ancestors(c) for t in type_names)]
        no = [c for c in members if c not in yes]
        if not no:
            return True
        if not yes:
            return False
        d = self.choose(f'split:{val}:{",".join(type_names)}', [True, False])
        keep = yes if d else no
        self.exc_group[val] = (key, keep)
        self.exc_cls[val] = keep[0]
        self.facts[key] = '|'.join(keep)
        return d

    def pure_fault(self, call_txt, last):
        """A call that has no effect can still raise (a conversion, a lookup helper): inside a try
        with handlers that is a path of its own."""
        if last in _NO_FAULT or not self.ctx.alphabet:
            return
        if last[:1].isupper():
            return
        if not any(level for level in self.try_stack):
            return
        classes = [c for c in self.ctx.alphabet if c != 'CancelledError']
        g = self.choose(f'pfault:{call_txt}@{self.epoch}', [None] + self._fault_groups(classes))
        if g is not None:
            val = Sym(f'pexc:{call_txt}@{self.epoch}')
            self.exc_cls[str(val)] = g.split('|')[0]
            self.exc_group[str(val)] = (f'pfault:{call_txt}@{self.epoch}', g.split('|'))
            raise _Exc(g.split('|')[0], val)

    @staticmethod
    def _callee_name(call_txt: str) -> str:
        head = call_txt.split('(', 1)[0]
        return head.split('.')[-1].split('@')[0]

    def _fault_groups(self, classes) -> list:
        """Exception classes that the enclosing handlers cannot tell apart behave alike: one
        representative per group (the group is the decision value: groups of two versions are
        compatible when they share a class)."""
        groups = {}
        for c in classes:
            anc = _ancestors(c)
            sig = tuple(next((i for i, names in enumerate(level) if any(n in anc for n in names)), -1)
                        for level in reversed(self.try_stack))
            groups.setdefault(sig, []).append(c)
        return ['|'.join(sorted(v)) for _k, v in sorted(groups.items(), key=lambda kv: sorted(kv[1]))]

    def escape(self, v):
        if isinstance(v, (list, dict, set)):
            self.escaped.add(id(v))
            self.keep.append(v)
            for x in (v.values() if isinstance(v, dict) else v):
                self.escape(x)
        elif isinstance(v, tuple):
            for x in v:
                self.escape(x)

    def mutated(self, c):
        if id(c) in self.escaped:
            self.effect('mutate', show(c), bump=False, fault=False)

    def tick(self):
        self.steps += 1
        if self.steps > MAX_STEPS:
            raise Unknown('step budget')

    # ------------------------------------------------------------------ names
    def lookup(self, env, name):
        e = env
        while e is not None:
            if name in e['vars']:
                return e['vars'][name]
            e = e['parent']
        if name in self.ctx.consts:
            return self.ctx.consts[name]
        return GSym(name)

    def bind(self, env, name, value):
        e = env
        if name in env.get('nonlocal', ()):
            e = env['parent']
            while e is not None and name not in e['vars']:
                e = e['parent']
            if e is None:
                raise Unknown('nonlocal target')
        e['vars'][name] = value

    # ------------------------------------------------------------------ expressions
    def ev(self, e, env):
        self.tick()
        m = getattr(self, 'ev_' + type(e).__name__, None)
        if m is None:
            raise Unknown(f'expression {type(e).__name__}')
        return m(e, env)

    def ev_Constant(self, e, env):
        return e.value

    def ev_Name(self, e, env):
        if e.id in ('True', 'False', 'None'):
            return {'True': True, 'False': False, 'None': None}[e.id]
        return self.lookup(env, e.id)

    def ev_Tuple(self, e, env):
        return tuple(self._elts(e.elts, env))

    def ev_List(self, e, env):
        return list(self._elts(e.elts, env))

    def ev_Set(self, e, env):
        return set(self._hashable(x) for x in self._elts(e.elts, env))

    def _hashable(self, v):
        if isinstance(v, (list, dict, set)):
            raise Unknown('unhashable element')
        return v

    def _elts(self, elts, env):
        out = []
        for x in elts:
            if isinstance(x, ast.Starred):
                v = self.ev(x.value, env)
                if isinstance(v, (list, tuple)):
                    out.extend(v)
                elif isinstance(v, (set, frozenset, dict)):
                    out.extend(self._ordered(v) if not isinstance(v, dict) else list(v))
                else:
                    n = self.eq_known.get(f'len({show(v)})')
                    if isinstance(n, int) and not isinstance(n, bool) and 0 <= n <= 8:
                        out.extend(Sym(f'{show(v)}[{i}]') for i in range(n))    # its length is known here
                    else:
                        out.append(Star(f'*{show(v)}'))
            else:
                out.append(self.ev(x, env))
        return out

    def ev_Dict(self, e, env):
        d = {}
        for k, v in zip(e.keys, e.values):
            if k is None:
                vv = self.ev(v, env)
                if isinstance(vv, dict):
                    d.update(vv)
                else:
                    d[Sym(f'**{show(vv)}')] = Sym(f'**{show(vv)}')
            else:
                d[self._hashable(self.ev(k, env))] = self.ev(v, env)
        return d

    def ev_JoinedStr(self, e, env):
        parts = []
        conc = True
        for p in e.values:
            if isinstance(p, ast.Constant):
                parts.append(str(p.value))
            else:
                v = self.ev(p.value, env)
                conv = {115: '!s', 114: '!r', 97: '!a'}.get(p.conversion, '')
                if _concrete(v) and not isinstance(v, (list, dict, set)) and p.format_spec is None:
                    parts.append(repr(v) if conv == '!r' else str(v))
                else:
                    conc = False
                    parts.append('{' + show(v) + conv + '}')
        txt = ''.join(parts)
        return txt if conc else ObjSym('f' + repr(txt))

    def ev_Attribute(self, e, env):
        obj = self.ev(e.value, env)
        return self.getattr(obj, e.attr)

    def getattr(self, obj, attr):
        if isinstance(obj, NT):
            if attr in obj.fields:
                return obj[obj.fields.index(attr)]
            raise Unknown('NT attribute')
        if isinstance(obj, GSym):
            return GSym(f'{obj}.{attr}')
        if isinstance(obj, Sym):
            key = (str(obj), attr)
            if key in self.store:
                return self.store[key]
            idx = self.ctx.nt_fields.get(attr)
            if idx is not None:
                # a field of a NamedTuple class of this version only, read from a stored tuple
                return Sym(f'{obj}[{idx}]')
            if attr in self.ctx.const_attrs or attr.startswith('__'):
                return Sym(f'{obj}.{attr}')
            return Sym(f'{obj}.{attr}@{self.epoch}')
        if isinstance(obj, (str, list, dict, set, tuple, frozenset, int, float)):
            return Sym(f'{show(obj)}.{attr}')
        raise Unknown(f'attribute of {type(obj).__name__}')

    def ev_Subscript(self, e, env):
        obj = self.ev(e.value, env)
        if isinstance(e.slice, ast.Slice):
            lo = self.ev(e.slice.lower, env) if e.slice.lower else None
            hi = self.ev(e.slice.upper, env) if e.slice.upper else None
            st = self.ev(e.slice.step, env) if e.slice.step else None
            if _concrete((lo, hi, st)) and isinstance(obj, (list, tuple, str)) and not isinstance(obj, Sym):
                return obj[lo:hi:st]
            return Sym(f'{show(obj)}[{show(lo)}:{show(hi)}:{show(st)}]')
        key = self.ev(e.slice, env)
        if isinstance(obj, (list, tuple)) and not isinstance(obj, Sym) and isinstance(key, int) \
                and not isinstance(key, bool):
            try:
                return obj[key]
            except IndexError:
                raise self._raise_builtin('IndexError')
        if isinstance(obj, dict):
            try:
                if key in obj:
                    return obj[key]
            except TypeError:
                raise Unknown('dict key')
            if all(_concrete(k) for k in obj) and _concrete(key):
                raise self._raise_builtin('KeyError')
            return Sym(f'{show(obj)}[{show(key)}]')
        if isinstance(obj, str) and not isinstance(obj, Sym) and isinstance(key, int):
            return obj[key]
        txt = f'{show(obj)}[{show(key)}]'
        if self.try_stack:
            kinds = ('IndexError', 'LookupError') if isinstance(key, int) else ('KeyError', 'LookupError')
            look = [c for c in self.ctx.alphabet if c in kinds and any(
                any(n in _ancestors(c) for names in level for n in names) for level in self.try_stack)]
            if look and not isinstance(key, int) and not isinstance(e.slice, ast.Slice):
                # a mapping lookup fails exactly when the key is not in the mapping: the same atom
                # as an `in` test (try/except KeyError <-> membership test)
                if not self.decide(Sym(f'in({show(key)}, {show(obj)})')):
                    c = 'KeyError'
                    val = Sym(f'KeyError({show(key)})')
                    self.exc_cls[str(val)] = c
                    raise _Exc(c, val)
                return Sym(txt)
            if look:
                g = self.choose(f'sub-fault:{txt}', [None] + self._fault_groups(look))
                if g is not None:
                    c = g.split('|')[0]
                    val = Sym(f'exc:{c}:{txt}')
                    self.exc_cls[str(val)] = c
                    raise _Exc(c, val)
        return Sym(txt)

    def _raise_builtin(self, cls, msg=''):
        val = Sym(f'{cls}({msg})')
        self.exc_cls[str(val)] = cls
        return _Exc(cls, val)

    def ev_UnaryOp(self, e, env):
        v = self.ev(e.operand, env)
        if isinstance(e.op, ast.Not):
            if isinstance(v, Sym):
                return _neg(self._as_atom(v))
            return not self.decide(v)
        if _concrete(v) and isinstance(v, (int, float)):
            return -v if isinstance(e.op, ast.USub) else (+v if isinstance(e.op, ast.UAdd) else ~v)
        return Sym(f'{type(e.op).__name__}({show(v)})')

    def _as_atom(self, v: Sym) -> str:
        s = str(v)
        base = s
        while True:
            n = _neg(base)
            if len(n) < len(base):
                base = str(n)
            else:
                break
        if base.startswith(_ATOM_HEADS):
            return s
        # truthiness of a non-boolean symbol
        return s.replace(base, f'truth({base})') if s != base else f'truth({base})'

    def ev_BoolOp(self, e, env):
        is_and = isinstance(e.op, ast.And)
        v = None
        for i, x in enumerate(e.values):
            v = self.ev(x, env)
            if i == len(e.values) - 1:
                return v
            d = self.decide(v)
            if is_and and not d:
                return v
            if not is_and and d:
                return v
        return v

    def ev_IfExp(self, e, env):
        return self.ev(e.body if self.decide(self.ev(e.test, env)) else e.orelse, env)

    def ev_NamedExpr(self, e, env):
        v = self.ev(e.value, env)
        self.bind(env, e.target.id, v)
        return v

    def ev_Compare(self, e, env):
        left = self.ev(e.left, env)
        res = True
        for i, (op, r) in enumerate(zip(e.ops, e.comparators)):
            right = self.ev(r, env)
            res = self.compare(op, left, right)
            if i < len(e.ops) - 1:
                if not self.decide(res):
                    return res
            left = right
        return res

    def compare(self, op, a, b):
        o = type(op).__name__
        if _concrete(a) and _concrete(b):
            try:
                return {'Eq': lambda: a == b, 'NotEq': lambda: a != b, 'Lt': lambda: a < b,
                        'LtE': lambda: a <= b, 'Gt': lambda: a > b, 'GtE': lambda: a >= b,
                        'Is': lambda: a is b or (a == b and type(a) is type(b) and isinstance(a, (int, str, bool, type(None)))),
                        'IsNot': lambda: not (a is b or (a == b and type(a) is type(b) and isinstance(a, (int, str, bool, type(None))))),
                        'In': lambda: a in b, 'NotIn': lambda: a not in b}[o]()
            except TypeError:
                raise Unknown('comparison of concrete values')
        sa, sb = show(a), show(b)
        if o in ('Eq', 'NotEq', 'Is', 'IsNot'):
            if sa == sb and isinstance(a, Sym):
                return o in ('Eq', 'Is')
            if (a is None and isinstance(b, ObjSym)) or (b is None and isinstance(a, ObjSym)):
                return o in ('NotEq', 'IsNot')
            if o in ('Is', 'IsNot') and (a is None or b is None) and not isinstance(a if b is None else b, Sym):
                return o == 'IsNot'     # a concrete non-None value is not None
            x, y = sorted((sa, sb))
            s = f"{'eq' if o in ('Eq', 'NotEq') else 'is'}({x}, {y})"
            if _concrete(a) != _concrete(b) and o in ('Eq', 'NotEq'):
                cv, st = (a, sb) if _concrete(a) else (b, sa)
                if isinstance(cv, (int, str, float, bool)) or cv is None:
                    self.eq_ops[s] = (cv, st)
            return Sym(s) if o in ('Eq', 'Is') else _neg(s)
        if o in ('In', 'NotIn'):
            if isinstance(b, (list, tuple, set, frozenset, dict)) and not isinstance(b, Sym):
                # membership in a local collection: decide against each element
                hit = False
                for el in b:
                    r = self.compare(ast.Eq(), a, el)
                    if self.decide(r):
                        hit = True
                        break
                return hit if o == 'In' else not hit
            s = f'in({sa}, {sb})'
            return Sym(s) if o == 'In' else _neg(s)
        if o == 'Lt':
            return Sym(f'lt({sa}, {sb})')
        if o == 'Gt':
            return Sym(f'lt({sb}, {sa})')
        if o == 'LtE':
            return _neg(f'lt({sb}, {sa})')
        if o == 'GtE':
            return _neg(f'lt({sa}, {sb})')
        raise Unknown(f'comparison {o}')

    def ev_BinOp(self, e, env):
        a = self.ev(e.left, env)
        b = self.ev(e.right, env)
        return self.binop(type(e.op).__name__, a, b)

    def binop(self, o, a, b):
        if _concrete(a) and _concrete(b):
            try:
                import operator as _op
                f = {'Add': _op.add, 'Sub': _op.sub, 'Mult': _op.mul, 'Div': _op.truediv,
                     'FloorDiv': _op.floordiv, 'Mod': _op.mod, 'BitOr': _op.or_, 'BitAnd': _op.and_,
                     'BitXor': _op.xor, 'Pow': _op.pow, 'LShift': _op.lshift, 'RShift': _op.rshift}[o]
                if o == 'Pow' and isinstance(b, (int, float)) and abs(b) > 64:
                    raise Unknown('pow')
                r = f(a, b)
                if isinstance(r, (str, list, tuple)) and len(r) > 10000:
                    raise Unknown('big value')
                return r
            except Unknown:
                raise
            except ZeroDivisionError:
                raise self._raise_builtin('ZeroDivisionError')
            except Exception:
                raise Unknown('binary operation on concrete values')
        if o == 'Add' and isinstance(a, (list, tuple)) and isinstance(b, (list, tuple)) \
                and not isinstance(a, Sym) and not isinstance(b, Sym) and type(a) is type(b):
            return a + b
        sa, sb = show(a), show(b)
        if o in ('Add', 'Mult', 'BitOr', 'BitAnd', 'BitXor') and not (
                isinstance(a, (str, list, tuple)) and not isinstance(a, Sym)) and not (
                isinstance(b, (str, list, tuple)) and not isinstance(b, Sym)) and o in ('Mult',):
            sa, sb = sorted((sa, sb))
        return Sym(f'{o}({sa}, {sb})')

    def ev_Lambda(self, e, env):
        return self._closure(e, env, '')

    def _closure(self, node, env, name):
        c = Closure(node, env, name)
        run = self

        def text():
            return run._open_text(node, env)
        c.text = text
        return c

    def _open_text(self, node, env, bound=()):
        """Canonical text of an uninterpreted construct: free local names replaced by the text of
        their current value, own variables numbered."""
        node = copy.deepcopy(node)
        own = {}
        for x in ast.walk(node):
            if isinstance(x, ast.comprehension):
                for n in ast.walk(x.target):
                    if isinstance(n, ast.Name):
                        own.setdefault(n.id, f'_c{len(own)}')
            if isinstance(x, ast.Lambda) or isinstance(x, (ast.FunctionDef, ast.AsyncFunctionDef)):
                a = x.args
                for p in a.posonlyargs + a.args + a.kwonlyargs + [y for y in (a.vararg, a.kwarg) if y]:
                    own.setdefault(p.arg, f'_p{len(own)}')
                    p.arg = own[p.arg]
                    p.annotation = None
            if isinstance(x, (ast.FunctionDef, ast.AsyncFunctionDef)):
                x.name = '_f'
                x.returns = None
                for n in ast.walk(x):
                    if isinstance(n, ast.Name) and isinstance(n.ctx, ast.Store):
                        own.setdefault(n.id, f'_v{len(own)}')
        run = self

        class Sub(ast.NodeTransformer):
            def visit_Name(self, n):
                if n.id in own:
                    return ast.copy_location(ast.Name(own[n.id], n.ctx), n)
                if isinstance(n.ctx, ast.Load):
                    v = run.lookup(env, n.id)
                    if isinstance(v, GSym) and str(v) == n.id:
                        return n
                    try:
                        return ast.copy_location(ast.Name('⟨' + show(v) + '⟩', n.ctx), n)
                    except Unknown:
                        return n
                return n

            def visit_Attribute(self, n):
                self.generic_visit(n)
                if isinstance(n.value, ast.Name) and n.value.id.startswith('⟨') and \
                        n.attr not in run.ctx.const_attrs:
                    n.attr = f'{n.attr}@{run.epoch}'
                return n
        node = Sub().visit(node)
        if isinstance(node, (ast.FunctionDef, ast.AsyncFunctionDef)):
            if node.body and isinstance(node.body[0], ast.Expr) and isinstance(
                    getattr(node.body[0], 'value', None), ast.Constant) and isinstance(node.body[0].value.value, str):
                node.body = node.body[1:] or [ast.Pass()]
        try:
            return ast.unparse(node)
        except Exception:
            raise Unknown('unparse')

    def _comprehension(self, e, env, kind):
        """A comprehension is the loop it abbreviates: unknown collections are unrolled with the
        same more(...) decisions as a `for` statement over them."""
        gens = e.generators
        if any(g.is_async for g in gens):
            raise Unknown('async comprehension')
        out = [] if kind != 'dict' else {}

        def rec(gi, scope):
            if gi == len(gens):
                if kind == 'dict':
                    k = self._hashable(self.ev(e.key, scope))
                    for x in list(out):
                        if show(x) == show(k):
                            del out[x]
                    out[k] = self.ev(e.value, scope)
                else:
                    out.append(self.ev(e.elt, scope))
                return
            g = gens[gi]
            itv = self.ev(g.iter, scope)
            for el in self._iterate(itv, g.iter, None if gi == len(gens) - 1 else 'outer'):
                self.assign(g.target, el, scope)
                if all(self.decide(self.ev(c, scope)) for c in g.ifs):
                    rec(gi + 1, scope)
        rec(0, {'vars': {}, 'parent': env})
        if kind == 'set':
            res = set()
            for x in out:
                if not any(show(x) == show(y) for y in res):
                    res.add(self._hashable(x))
            return res
        return out

    def _pure_callnode(self, c):
        f = c.func
        last = f.id if isinstance(f, ast.Name) else (f.attr if isinstance(f, ast.Attribute) else '')
        if last[:1].isupper() and last.endswith(('Error', 'Exception', 'Warning', 'InvalidState', 'UnknownEvent')):
            return True
        if isinstance(f, ast.Name):
            return f.id in PURE_FUNCS
        if isinstance(f, ast.Attribute):
            return f.attr in PURE_METHODS and f.attr not in OBSERVATIONS
        return False

    def ev_ListComp(self, e, env):
        return self._comprehension(e, env, 'list')

    def ev_SetComp(self, e, env):
        return self._comprehension(e, env, 'set')

    def ev_DictComp(self, e, env):
        return self._comprehension(e, env, 'dict')

    def ev_GeneratorExp(self, e, env):
        # evaluated where it is written: exact when it is consumed at once (any/all/sum/sorted/
        # tuple/set/dict/join/for), which is how this code base uses generator expressions
        return tuple(self._comprehension(e, env, 'list'))

    def ev_Yield(self, e, env):
        if not self.yield_hooks:
            raise Unknown('generator')
        v = self.ev(e.value, env) if e.value is not None else None
        return self.yield_hooks[-1](v)

    def ev_Starred(self, e, env):
        raise Unknown('starred')

    def ev_Await(self, e, env):
        if isinstance(e.value, ast.Call):
            tgt = self._stepin_target(e.value, env)
            if tgt is not None:
                return self.ev_Call(e.value, env)
        v = self.ev(e.value, env)
        n = self.effect('await', show(v), name=ast.unparse(e.value.func if isinstance(e.value, ast.Call) else e.value).split('.')[-1])
        return Sym(f'aw{n}')

    # ------------------------------------------------------------------ calls
    def _args(self, call, env):
        args = self._elts(call.args, env)
        kw = {}
        for k in call.keywords:
            v = self.ev(k.value, env)
            if k.arg is None:
                if isinstance(v, dict) and all(isinstance(x, str) and not isinstance(x, Sym) for x in v):
                    kw.update(v)
                else:
                    kw[f'**{show(v)}'] = v
            else:
                kw[k.arg] = v
        return args, kw

    def _stepin_target(self, call, env):
        """(FunctionDef, bound-first-arg or None, qual) when the callee exists in this version only."""
        f = call.func
        if isinstance(f, ast.Name):
            v = self.lookup(env, f.id)
            if isinstance(v, Closure):
                return (v, None, v.name)
            if isinstance(v, GSym) and str(v) == f.id and f.id in self.ctx.stepin and f.id in self.ctx.funcs:
                return (self.ctx.funcs[f.id], None, f.id)
            return None
        if isinstance(f, ast.Attribute):
            base = f.value
            if isinstance(base, ast.Name) and base.id in ('self', 'cls'):
                quals = [q for q in self.ctx.stepin if q.endswith('.' + f.attr) and q in self.ctx.funcs]
                pref = [q for q in quals if self.cls and q == f'{self.cls}.{f.attr}']
                pick = pref or (quals if len(quals) == 1 else [])
                if pick:
                    fn = self.ctx.funcs[pick[0]]
                    decos = {ast.unparse(d) for d in fn.decorator_list}
                    if 'staticmethod' in decos:
                        return (fn, None, pick[0])
                    return (fn, base.id, pick[0])
            elif isinstance(base, ast.Name):
                q = f'{base.id}.{f.attr}'
                v = self.lookup(env, base.id)
                if isinstance(v, GSym) and q in self.ctx.stepin and q in self.ctx.funcs:
                    fn = self.ctx.funcs[q]
                    decos = {ast.unparse(d) for d in fn.decorator_list}
                    if 'staticmethod' in decos:
                        return (fn, None, q)
                    if 'classmethod' in decos:
                        return (fn, 'cls', q)
                    return (fn, '', q)      # unbound: first argument is explicit
        return None

    def ev_Call(self, e, env):
        if is_logging_call(e):
            # A6: logging does not raise and has no effect the properties speak about; its
            # arguments are still evaluated (they may contain effects)
            for a in e.args:
                if not isinstance(a, ast.Starred):
                    self._ev_quiet(a, env)
            for k in e.keywords:
                self._ev_quiet(k.value, env)
            return None
        tgt = self._stepin_target(e, env)
        if tgt is not None:
            fn, first, qual = tgt
            args, kw = self._args(e, env)
            if isinstance(fn, Closure):
                return self.call_function(fn.node, args, kw, fn.env, qual)
            if first in ('self', 'cls'):
                args = [self.lookup(env, first)] + args
            return self.call_function(fn, args, kw, None, qual)
        f = e.func
        # class of one version only: NamedTuple instances are tuples
        if isinstance(f, ast.Name) and f.id in self.ctx.classes and isinstance(self.lookup(env, f.id), GSym):
            r = self._new_class_call(self.ctx.classes[f.id], e, env)
            if r is not NotImplemented:
                return r
        if isinstance(f, ast.Name) and isinstance(self.lookup(env, f.id), GSym):
            args, kw = self._args(e, env)
            r = self.builtin(f.id, args, kw, env)
            if r is not NotImplemented:
                return r
            return self.opaque_call(GSym(f.id), f.id, args, kw)
        if isinstance(f, ast.Attribute):
            if isinstance(f.value, ast.Call) and isinstance(f.value.func, ast.Name) and f.value.func.id == 'super':
                recv = Sym('super()')
            else:
                recv = self.ev(f.value, env)
            args, kw = self._args(e, env)
            r = self.method(recv, f.attr, args, kw)
            if r is not NotImplemented:
                return r
            if isinstance(recv, GSym):
                return self.opaque_call(GSym(f'{recv}.{f.attr}'), f.attr, args, kw)
            if isinstance(recv, Sym):
                ftxt = f'{recv}.{f.attr}'
            else:
                ftxt = f'{show(recv)}.{f.attr}'
            return self.opaque_call(Sym(ftxt), f.attr, args, kw)
        fv = self.ev(f, env)
        args, kw = self._args(e, env)
        if isinstance(fv, Closure):
            return self.call_function(fv.node, args, kw, fv.env, fv.name)
        return self.opaque_call(Sym(show(fv)), '', args, kw)

    def _ev_quiet(self, a, env):
        try:
            self.ev(a, env)
        except Unknown:
            for x in ast.walk(a):
                if isinstance(x, (ast.Await, ast.NamedExpr)) or (
                        isinstance(x, ast.Call) and not self._pure_callnode(x)):
                    raise

    def _new_class_call(self, cd, e, env):
        bases = {ast.unparse(b).split('.')[-1] for b in cd.bases}
        if 'NamedTuple' in bases:
            fields, defaults = [], {}
            for st in cd.body:
                if isinstance(st, ast.AnnAssign) and isinstance(st.target, ast.Name):
                    fields.append(st.target.id)
                    if st.value is not None:
                        defaults[st.target.id] = st.value
                elif isinstance(st, ast.Assign) and len(st.targets) == 1 and isinstance(st.targets[0], ast.Name):
                    fields.append(st.targets[0].id)
                    defaults[st.targets[0].id] = st.value
            args, kw = self._args(e, env)
            vals = list(args)
            for fld in fields[len(vals):]:
                if fld in kw:
                    vals.append(kw[fld])
                elif fld in defaults:
                    vals.append(self.ev(defaults[fld], env))
                else:
                    raise Unknown('NamedTuple arguments')
            if len(vals) != len(fields):
                raise Unknown('NamedTuple arguments')
            r = NT(vals)
            r.fields = tuple(fields)
            return r
        return NotImplemented

    def opaque_call(self, ftext: Sym, last: str, args, kw):
        args = [self.settle(a) for a in args]
        kw = {k: self.settle(v) for k, v in kw.items()}
        sargs = tuple(show(a) for a in args)
        skw = tuple(sorted((k, show(v)) for k, v in kw.items()))
        call_txt = f"{ftext}({', '.join(list(sargs) + [f'{k}={v}' for k, v in skw])})"
        if last[:1].isupper() and last.endswith(('Error', 'Exception', 'Warning', 'InvalidState', 'UnknownEvent')):
            v = ObjSym(call_txt)
            self.exc_cls[str(v)] = last
            return v
        if last in OBSERVATIONS:
            n = self.effect('observe', call_txt, bump=False, fault=False)
            return Sym(f'obs{n}:{last}')
        is_name = isinstance(ftext, GSym) and '.' not in ftext
        if (is_name and last in PURE_FUNCS) or (not is_name and last in PURE_METHODS):
            self.pure_fault(call_txt, last)
            stable = last in _STABLE_FUNCS if is_name else (isinstance(ftext, GSym) or last in _STABLE_METHODS)
            if stable or not any(isinstance(a, Sym) and not isinstance(a, GSym) for a in
                                 list(args) + list(kw.values()) + ([] if is_name else [ftext])):
                return Sym(call_txt)
            # what an accessor returns may change whenever something was called in between
            return Sym(f'{call_txt}@{self.epoch}')
        # A7: the callee does not change a local container it is handed (its content at the call is
        # part of the trace; what THIS function does to it later is recorded as an effect)
        for a in list(args) + list(kw.values()):
            self.escape(a)
        reach = not isinstance(ftext, GSym) or any(
            isinstance(a, Sym) and str(a) in ('self', 'cls') for a in list(args) + list(kw.values()))
        n = self.effect('call', call_txt, name=last, bump=reach)
        return Sym(f'r{n}')

    def builtin(self, name, args, kw, env):
        conc = all(_concrete(a) for a in args) and not kw
        if name == 'len' and len(args) == 1:
            a = args[0]
            if isinstance(a, (list, tuple, dict, set, frozenset)) and not isinstance(a, Sym):
                return len(a)
            if isinstance(a, str) and not isinstance(a, Sym):
                return len(a)
            return Sym(f'len({show(a)})')
        if name == 'isinstance' and len(args) == 2:
            a, t = args
            ts = show(t)
            if isinstance(a, Sym) and str(a) in self.exc_group:
                return self.exc_isinstance(str(a), [x.strip().split('.')[-1] for x in ts.strip('()').split(',') if x.strip()])
            if isinstance(a, Sym) and str(a) in self.exc_cls and not self.exc_cls[str(a)].startswith('?'):
                names = [x.strip().split('.')[-1] for x in ts.strip('()').split(',') if x.strip()]
                return any(n in _ancestors(self.exc_cls[str(a)]) for n in names)
            if not isinstance(a, Sym):
                tn = {'NoneType'} if a is None else {type(a).__name__}
                if isinstance(a, NT):
                    tn = {'tuple'}
                names = [x.strip() for x in ts.strip('()').split(',') if x.strip()]
                simple = {'int', 'float', 'str', 'bool', 'tuple', 'list', 'dict', 'set', 'frozenset', 'bytes'}
                if all(x in simple for x in names):
                    ok = bool(tn & set(names)) or (isinstance(a, bool) and 'int' in names)
                    return ok
            return Sym(f'isinstance({show(a)}, {ts})')
        if name in ('tuple', 'list', 'set', 'frozenset') and len(args) <= 1 and not kw:
            if not args:
                return {'tuple': (), 'list': [], 'set': set(), 'frozenset': frozenset()}[name]
            a = args[0]
            if not isinstance(a, Sym) and isinstance(a, (list, tuple, set, frozenset, dict)):
                items = list(a)
                if name in ('set', 'frozenset'):
                    return (set if name == 'set' else frozenset)(self._hashable(x) for x in items)
                return tuple(items) if name == 'tuple' else list(items)
            return Sym(f'{name}({show(a)})')
        if name == 'dict':
            if not args:
                return dict(kw)
            if len(args) == 1 and isinstance(args[0], dict):
                d = dict(args[0])
                d.update(kw)
                return d
            return NotImplemented
        if name in ('bool',) and len(args) == 1:
            return self.decide(args[0])
        if name in ('int', 'float', 'str', 'repr', 'abs', 'round') and conc and len(args) >= 1:
            a = args[0]
            if isinstance(a, (int, float, str, bool)) or a is None:
                try:
                    return {'int': int, 'float': float, 'str': str, 'repr': repr, 'abs': abs, 'round': round}[name](*args)
                except (ValueError, TypeError) as err:
                    raise self._raise_builtin(type(err).__name__)
        if name == 'sum' and len(args) == 1 and conc and isinstance(args[0], (list, tuple)):
            try:
                return sum(args[0])
            except TypeError:
                raise Unknown('sum')
        if name in ('min', 'max') and conc and args:
            try:
                return (min if name == 'min' else max)(*args)
            except Exception:
                raise Unknown('min/max')
        if name in ('any', 'all') and len(args) == 1 and not isinstance(args[0], Sym) \
                and isinstance(args[0], (list, tuple)):
            for x in args[0]:
                d = self.decide(x)
                if name == 'any' and d:
                    return True
                if name == 'all' and not d:
                    return False
            return name == 'all'
        if name == 'enumerate' and args and not isinstance(args[0], Sym) and isinstance(args[0], (list, tuple)):
            start = args[1] if len(args) > 1 else kw.get('start', 0)
            if isinstance(start, int):
                return [(i + start, x) for i, x in enumerate(args[0])]
        if name == 'zip' and args and all(not isinstance(a, Sym) and isinstance(a, (list, tuple)) for a in args):
            return [tuple(t) for t in zip(*args)]
        if name == 'range' and conc and all(isinstance(a, int) for a in args) and args:
            r = range(*args)
            if len(r) <= 64:
                return list(r)
            raise Unknown('long range')
        if name == 'reversed' and len(args) == 1 and not isinstance(args[0], Sym) and isinstance(args[0], (list, tuple)):
            return list(reversed(args[0]))
        if name == 'sorted' and len(args) == 1 and conc and not kw and isinstance(args[0], (list, tuple, set, frozenset)):
            try:
                return sorted(args[0])
            except TypeError:
                raise Unknown('sorted')
        if name == 'getattr' and len(args) in (2, 3) and isinstance(args[1], str) and not isinstance(args[1], Sym):
            if len(args) == 2:
                return self.getattr(args[0], args[1]) if isinstance(args[0], Sym) else NotImplemented
            return Sym(f'getattr({show(args[0])}, {show(args[1])}, {show(args[2])})@{self.epoch}')
        if name == 'super' and not args:
            return Sym('super()')
        if name == 'callable' and len(args) == 1 and isinstance(args[0], Closure):
            return True
        return NotImplemented

    _MUTATORS = {'append', 'extend', 'pop', 'insert', 'clear', 'reverse', 'sort', 'remove', 'update',
                 'setdefault', 'add', 'discard', 'popitem', 'difference_update', 'intersection_update'}

    def method(self, recv, name, args, kw):
        if isinstance(recv, Sym):
            return NotImplemented
        try:
            r = self._method(recv, name, args, kw)
        except (ValueError, TypeError, KeyError, IndexError):
            raise Unknown('container method')
        if r is not NotImplemented and name in self._MUTATORS and isinstance(recv, (list, dict, set)):
            self.mutated(recv)
        return r

    def _same(self, a, b) -> bool:
        """Equality of two values of a local collection; decided (forks) when symbolic."""
        if _concrete(a) and _concrete(b):
            return a == b
        if show(a) == show(b):
            return True
        return self.decide(self.compare(ast.Eq(), a, b))

    def _method(self, recv, name, args, kw):
        if isinstance(recv, list):
            if name == 'append' and len(args) == 1:
                recv.append(args[0]); return None
            if name == 'extend' and len(args) == 1 and not isinstance(args[0], Sym) and isinstance(
                    args[0], (list, tuple, set, frozenset)):
                recv.extend(self._ordered(args[0])); return None
            if name == 'pop' and len(args) <= 1 and all(isinstance(a, int) for a in args):
                if not recv:
                    raise self._raise_builtin('IndexError')
                return recv.pop(*args)
            if name == 'copy' and not args:
                return list(recv)
            if name == 'insert' and len(args) == 2 and isinstance(args[0], int):
                recv.insert(*args); return None
            if name == 'clear':
                recv.clear(); return None
            if name == 'reverse':
                recv.reverse(); return None
            if name == 'sort':
                if len(recv) <= 1:
                    return None
                if _concrete(recv) and not kw:
                    recv.sort(); return None
                raise Unknown('list.sort of symbolic elements')
            if name in ('index', 'count', 'remove') and len(args) == 1:
                for i, x in enumerate(list(recv)):
                    if self._same(x, args[0]):
                        if name == 'index':
                            return i
                        if name == 'remove':
                            del recv[i]
                            return None
                if name == 'count':
                    raise Unknown('list.count')
                raise self._raise_builtin('ValueError')
            raise Unknown(f'list.{name}')
        if isinstance(recv, dict):
            if name == 'get' and 1 <= len(args) <= 2:
                k = args[0]
                for x, v in recv.items():
                    if show(x) == show(k):
                        return v
                if all(_concrete(x) for x in recv) and _concrete(k):
                    return args[1] if len(args) == 2 else None
                for x, v in recv.items():
                    if self._same(x, k):
                        return v
                return args[1] if len(args) == 2 else None
            if name in ('items', 'keys', 'values') and not args:
                return [tuple(i) for i in recv.items()] if name == 'items' else list(getattr(recv, name)())
            if name == 'copy' and not args:
                return dict(recv)
            if name == 'update':
                for a in args:
                    if isinstance(a, dict):
                        recv.update(a)
                    else:
                        raise Unknown('dict.update')
                recv.update(kw)
                return None
            if name == 'pop' and 1 <= len(args) <= 2:
                k = args[0]
                for x in list(recv):
                    if show(x) == show(k):
                        return recv.pop(x)
                if all(_concrete(x) for x in recv) and _concrete(k):
                    if len(args) == 2:
                        return args[1]
                    raise self._raise_builtin('KeyError')
                raise Unknown('dict.pop with symbolic key')
            if name == 'setdefault' and len(args) == 2:
                k = args[0]
                for x in recv:
                    if show(x) == show(k):
                        return recv[x]
                if all(_concrete(x) for x in recv) and _concrete(k):
                    recv[k] = args[1]
                    return args[1]
                raise Unknown('dict.setdefault')
            if name == 'clear':
                recv.clear(); return None
            raise Unknown(f'dict.{name}')
        if isinstance(recv, (set, frozenset)):
            if name == 'add' and len(args) == 1 and isinstance(recv, set):
                for x in recv:
                    if self._same(x, args[0]):
                        return None
                recv.add(self._hashable(args[0])); return None
            if name in ('discard', 'remove') and len(args) == 1 and isinstance(recv, set):
                for x in list(recv):
                    if self._same(x, args[0]):
                        recv.discard(x)
                        return None
                if name == 'remove':
                    raise self._raise_builtin('KeyError')
                return None
            if name == 'copy':
                return set(recv)
            if name in ('union', 'intersection', 'difference', 'update', 'issubset', 'isdisjoint') and len(args) == 1 \
                    and not isinstance(args[0], Sym) and isinstance(args[0], (set, frozenset, list, tuple)):
                other = list(args[0])
                def has(coll, v):
                    return any(self._same(x, v) for x in coll)
                if name in ('union', 'update'):
                    out = recv if name == 'update' else set(recv)
                    for v in other:
                        if not has(out, v):
                            out.add(self._hashable(v))
                    return None if name == 'update' else out
                if name == 'intersection':
                    return {x for x in recv if has(other, x)}
                if name == 'difference':
                    return {x for x in recv if not has(other, x)}
                if name == 'issubset':
                    return all(has(other, x) for x in recv)
                if name == 'isdisjoint':
                    return not any(has(other, x) for x in recv)
            if name in ('union', 'intersection', 'difference', 'issubset', 'isdisjoint', 'symmetric_difference') \
                    and len(args) == 1 and isinstance(args[0], Sym):
                return Sym(f'{show(recv)}.{name}({show(args[0])})')
            if name == 'pop' and not args and isinstance(recv, set):
                if not recv:
                    raise self._raise_builtin('KeyError')
                if len(recv) == 1:
                    return recv.pop()
                raise Unknown('set.pop of several elements')
            if name == 'clear' and isinstance(recv, set):
                recv.clear(); return None
            raise Unknown(f'set.{name}')
        if isinstance(recv, str):
            if all(_concrete(a) for a in args) and not kw and name in (
                    'startswith', 'endswith', 'lower', 'upper', 'strip', 'split', 'partition',
                    'rpartition', 'removeprefix', 'removesuffix', 'format', 'join', 'replace',
                    'isidentifier', 'isdigit', 'lstrip', 'rstrip', 'rsplit', 'count', 'find'):
                return getattr(recv, name)(*args)
            if name in ('format', 'join'):
                return Sym(f'{show(recv)}.{name}({", ".join(show(a) for a in args)})')
            raise Unknown(f'str.{name}')
        if isinstance(recv, tuple):
            if name in ('index', 'count') and len(args) == 1 and _concrete(recv) and _concrete(args[0]):
                return getattr(recv, name)(args[0])
            if name == '_replace' and isinstance(recv, NT):
                vals = list(recv)
                for k, v in kw.items():
                    vals[recv.fields.index(k)] = v
                r = NT(vals)
                r.fields = recv.fields
                return r
            if name == '_asdict' and isinstance(recv, NT):
                return dict(zip(recv.fields, recv))
            raise Unknown(f'tuple.{name}')
        return NotImplemented

    def _ordered(self, coll):
        if isinstance(coll, (set, frozenset)):
            return sorted(coll, key=show)
        return list(coll)

    @staticmethod
    def _is_generator(fn) -> bool:
        todo = list(fn.body) if not isinstance(fn, ast.Lambda) else []
        while todo:
            x = todo.pop()
            if isinstance(x, (ast.Yield, ast.YieldFrom)):
                return True
            if isinstance(x, (ast.FunctionDef, ast.AsyncFunctionDef, ast.Lambda, ast.ClassDef)):
                continue
            todo.extend(ast.iter_child_nodes(x))
        return False

    def _generator_target(self, call, env):
        """The stepped-into generator function a call node denotes, or None."""
        if not isinstance(call, ast.Call):
            return None
        tgt = self._stepin_target(call, env)
        if tgt is None:
            return None
        fn = tgt[0].node if isinstance(tgt[0], Closure) else tgt[0]
        if isinstance(fn, ast.Lambda) or not self._is_generator(fn):
            return None
        for x in ast.walk(fn):
            if isinstance(x, ast.YieldFrom):
                raise Unknown('yield from')
        return tgt

    def _run_generator(self, call, env, on_yield):
        """Run a stepped-into generator function; every `yield v` calls on_yield(v) in place (the
        consumer's code runs at the yield point, which is what iteration does)."""
        self.yield_hooks.append(on_yield)
        self._gen_ok = True
        try:
            return self.ev_Call(call, env)
        finally:
            self.yield_hooks.pop()

    def call_function(self, fn, args, kw, closure_env, qual):
        if self.depth >= MAX_DEPTH:
            raise Unknown('call depth')
        if isinstance(fn, ast.Lambda):
            body = None
        else:
            if self._is_generator(fn) and not getattr(self, '_gen_ok', False):
                raise Unknown('generator')
            self._gen_ok = False
        a = fn.args
        frame = {'vars': {}, 'parent': closure_env, 'nonlocal': set()}
        pos = a.posonlyargs + a.args
        args = list(args)
        kw = dict(kw)
        star_kw = [k for k in kw if k.startswith('**')]
        opaque_kw = None
        if star_kw:
            if len(star_kw) > 1 or not a.kwarg:
                raise Unknown('opaque keyword arguments to an interpreted function')
            names = {p.arg for p in pos + a.kwonlyargs}
            if len(kw) > 1 and False:
                pass
            # the unknown mapping might name a formal parameter: only safe when all formals are
            # given explicitly
            given = set(kw) - set(star_kw)
            if not names <= given | {p.arg for p in pos[:len(args)]} | {
                    p.arg for i, p in enumerate(pos) if i >= len(pos) - len(a.defaults)} | {
                    p.arg for p, d in zip(a.kwonlyargs, a.kw_defaults) if d is not None}:
                raise Unknown('opaque keyword arguments may bind a formal parameter')
            opaque_kw = kw.pop(star_kw[0])
            if kw and any(k not in names for k in kw):
                raise Unknown('opaque and explicit extra keyword arguments')
        star_pos = [i for i, x in enumerate(args) if isinstance(x, Star)]
        opaque_pos = None
        if star_pos:
            if star_pos != [len(args) - 1] or not a.vararg or len(args) - 1 != len(pos):
                raise Unknown('opaque star arguments to an interpreted function')
            opaque_pos = Sym(str(args.pop())[1:])
        ndef = len(a.defaults)
        for i, p in enumerate(pos):
            if i < len(args):
                frame['vars'][p.arg] = args[i]
            elif p.arg in kw:
                frame['vars'][p.arg] = kw.pop(p.arg)
            else:
                di = i - (len(pos) - ndef)
                if di < 0:
                    raise Unknown('missing argument')
                frame['vars'][p.arg] = self.ev(a.defaults[di], {'vars': {}, 'parent': closure_env})
        if len(args) > len(pos):
            if not a.vararg:
                raise Unknown('too many arguments')
            frame['vars'][a.vararg.arg] = tuple(args[len(pos):])
        elif a.vararg:
            frame['vars'][a.vararg.arg] = opaque_pos if opaque_pos is not None else ()
        for p, d in zip(a.kwonlyargs, a.kw_defaults):
            if p.arg in kw:
                frame['vars'][p.arg] = kw.pop(p.arg)
            elif d is not None:
                frame['vars'][p.arg] = self.ev(d, {'vars': {}, 'parent': closure_env})
            else:
                raise Unknown('missing keyword argument')
        if kw:
            if not a.kwarg:
                raise Unknown('unexpected keyword argument')
            frame['vars'][a.kwarg.arg] = dict(kw)
        elif a.kwarg:
            frame['vars'][a.kwarg.arg] = opaque_kw if opaque_kw is not None else {}
        self.depth += 1
        saved_cls = self.cls
        if qual and '.' in qual and closure_env is None:
            self.cls = qual.rsplit('.', 1)[0]
        try:
            if isinstance(fn, ast.Lambda):
                return self.ev(fn.body, frame)
            try:
                self.block(fn.body, frame)
            except _Ret as r:
                return r.v
            return None
        finally:
            self.depth -= 1
            self.cls = saved_cls

    # ------------------------------------------------------------------ statements
    def assign(self, target, value, env):
        if isinstance(target, ast.Name):
            self.bind(env, target.id, value)
        elif isinstance(target, (ast.Tuple, ast.List)):
            n = len(target.elts)
            if any(isinstance(t, ast.Starred) for t in target.elts):
                if isinstance(value, Sym) or not isinstance(value, (list, tuple)):
                    raise Unknown('starred unpacking')
                si = next(i for i, t in enumerate(target.elts) if isinstance(t, ast.Starred))
                after = n - si - 1
                vals = list(value)
                if len(vals) < n - 1:
                    raise self._raise_builtin('ValueError')
                for t, v in zip(target.elts[:si], vals[:si]):
                    self.assign(t, v, env)
                self.assign(target.elts[si].value, vals[si:len(vals) - after], env)
                for t, v in zip(target.elts[si + 1:], vals[len(vals) - after:]):
                    self.assign(t, v, env)
                return
            if isinstance(value, Sym):
                for i, t in enumerate(target.elts):
                    self.assign(t, Sym(f'{value}[{i}]'), env)
            elif isinstance(value, (list, tuple)):
                if len(value) != n:
                    raise self._raise_builtin('ValueError')
                for t, v in zip(target.elts, value):
                    self.assign(t, v, env)
            else:
                raise Unknown('unpacking')
        elif isinstance(target, ast.Attribute):
            obj = self.ev(target.value, env)
            if not isinstance(obj, Sym):
                raise Unknown('attribute store on a local value')
            value = self.settle(value)
            self.effect('set', f'{obj}.{target.attr}', show(value), bump=False, fault=False)
            self.escape(value)
            self.store[(str(obj), target.attr)] = value
        elif isinstance(target, ast.Subscript):
            obj = self.ev(target.value, env)
            key = self.ev(target.slice, env) if not isinstance(target.slice, ast.Slice) else None
            if key is None and isinstance(target.slice, ast.Slice):
                raise Unknown('slice store')
            if isinstance(obj, dict):
                for x in list(obj):
                    if show(x) == show(key):
                        obj[x] = value
                        self.mutated(obj)
                        return
                if all(_concrete(x) for x in obj) and _concrete(key) or not obj:
                    obj[self._hashable(key)] = value
                    self.mutated(obj)
                    return
                raise Unknown('dict store with symbolic key')
            if isinstance(obj, list) and isinstance(key, int):
                try:
                    obj[key] = value
                except IndexError:
                    raise self._raise_builtin('IndexError')
                self.mutated(obj)
                return
            if isinstance(obj, Sym):
                value = self.settle(value)
                if show(value) == f'{obj}[{show(key)}]':
                    return          # d[k] = d[k]
                self.effect('setitem', str(obj), show(key), show(value), bump=False)
                self.escape(value)
                return
            raise Unknown('subscript store')
        else:
            raise Unknown(f'assignment target {type(target).__name__}')

    def block(self, stmts, env):
        for st in stmts:
            self.stmt(st, env)

    def stmt(self, st, env):
        self.tick()
        m = getattr(self, 'st_' + type(st).__name__, None)
        if m is None:
            raise Unknown(f'statement {type(st).__name__}')
        return m(st, env)

    def st_Expr(self, st, env):
        if isinstance(st.value, ast.Constant):
            return
        self.ev(st.value, env)

    def st_Pass(self, st, env):
        pass

    def st_Assign(self, st, env):
        v = self.ev(st.value, env)
        for t in st.targets:
            self.assign(t, v, env)

    def st_AnnAssign(self, st, env):
        if st.value is not None:
            self.assign(st.target, self.ev(st.value, env), env)

    def st_AugAssign(self, st, env):
        load = copy.copy(st.target)
        load.ctx = ast.Load()
        cur = self.ev(load, env)
        val = self.ev(st.value, env)
        o = type(st.op).__name__
        if isinstance(cur, list) and o == 'Add' and isinstance(val, (list, tuple)) and not isinstance(val, Sym):
            cur.extend(val)
            self.mutated(cur)
            return
        if isinstance(cur, set) and o == 'BitOr' and isinstance(val, (set, frozenset)):
            self._method(cur, 'update', [val], {})
            self.mutated(cur)
            return
        if isinstance(cur, (list, set, dict)):
            raise Unknown('augmented assignment on a local container')
        self.assign(st.target, self.binop(o, cur, val), env)

    def settle(self, v):
        """A symbolic truth value that leaves the function (returned, stored, passed on) is decided:
        `return a == b` and `if a == b: return True ... return False` get the same summary."""
        if isinstance(v, Sym) and not isinstance(v, GSym):
            s = str(v)
            while True:
                n = _neg(s)
                if len(n) < len(s):
                    s = str(n)
                else:
                    break
            if s.startswith(_ATOM_HEADS) and not s.startswith('truth('):
                return self.decide(v)
        elif isinstance(v, tuple) and not isinstance(v, NT):
            return tuple(self.settle(x) for x in v)
        return v

    def st_Return(self, st, env):
        raise _Ret(self.settle(self.ev(st.value, env)) if st.value is not None else None)

    def st_If(self, st, env):
        self.block(st.body if self.decide(self.ev(st.test, env)) else st.orelse, env)

    def st_Assert(self, st, env):
        # a stated belief: assumed on this path (asserts vanish under -O); a contradiction with
        # what is already known is an AssertionError
        try:
            v = self.ev(st.test, env)
        except Unknown:
            return
        if not isinstance(v, Sym):
            if not self.decide(v):
                raise self._raise_builtin('AssertionError')
            return
        s = str(v)
        pol = True
        while True:
            n = _neg(s)
            if len(n) < len(s):
                s, pol = str(n), not pol
            else:
                break
        atom = s if s.startswith(_ATOM_HEADS) else f'truth({s})'
        if atom in self.facts:
            if self.facts[atom] != pol:
                raise self._raise_builtin('AssertionError')
        else:
            self.facts[atom] = pol
            self.taken.append((atom, pol))
            self._infer(atom, pol)

    def st_Raise(self, st, env):
        if st.exc is None:
            if not self.cur_exc:
                raise Unknown('bare raise outside a handler')
            raise self.cur_exc[-1]
        v = self.ev(st.exc, env)
        if st.cause is not None:
            c = self.ev(st.cause, env)
            v2 = Sym(f'{show(v)} from {show(c)}')
            self.exc_cls[str(v2)] = self.exc_cls.get(show(v), None) or self._exc_class_of(v)
            v = v2
        raise _Exc(self._exc_class_of(v), v)

    def _exc_class_of(self, v):
        s = show(v)
        if s in self.exc_cls:
            return self.exc_cls[s]
        if isinstance(v, GSym):
            last = str(v).split('.')[-1]
            if last[:1].isupper():
                return last
        return f'?{s}'

    def _matches(self, exc: _Exc, typ_node, env) -> bool:
        if typ_node is None:
            return True
        names = [typ_node] if not isinstance(typ_node, ast.Tuple) else list(typ_node.elts)
        if show(exc.val) in self.exc_group:
            return self.exc_isinstance(show(exc.val), [ast.unparse(n).split('.')[-1] for n in names])
        for n in names:
            hn = ast.unparse(n).split('.')[-1]
            if exc.cls.startswith('?'):
                if self.decide(Sym(f'isinstance({exc.cls[1:]}, {hn})')):
                    return True
                continue
            if hn in _ancestors(exc.cls):
                return True
        return False

    def st_Try(self, st, env):
        def names_of(h):
            if h.type is None:
                return ['BaseException']
            return [ast.unparse(n).split('.')[-1] for n in
                    ([h.type] if not isinstance(h.type, ast.Tuple) else h.type.elts)]

        def guarded(stmts, level):
            self.try_stack.append(level)
            try:
                self.block(stmts, env)
            finally:
                self.try_stack.pop()

        def run_finally():
            if st.finalbody:
                self.block(st.finalbody, env)
        try:
            try:
                guarded(st.body, [names_of(h) for h in st.handlers])
            except _Exc as exc:
                for h in st.handlers:
                    if self._matches(exc, h.type, env):
                        if h.name:
                            self.bind(env, h.name, exc.val)
                        self.cur_exc.append(exc)
                        try:
                            if st.finalbody:
                                guarded(h.body, [])
                            else:
                                self.block(h.body, env)
                        finally:
                            self.cur_exc.pop()
                        break
                else:
                    raise
            else:
                if st.orelse:
                    if st.finalbody:
                        guarded(st.orelse, [])
                    else:
                        self.block(st.orelse, env)
        except (_Exc, _Ret, _Break, _Continue):
            run_finally()
            raise
        run_finally()

    st_TryStar = None

    def st_With(self, st, env):
        self._with(st, env, False)

    def st_AsyncWith(self, st, env):
        self._with(st, env, True)

    def _with(self, st, env, is_async):
        if len(st.items) != 1:
            inner = copy.copy(st)
            inner.items = st.items[1:]
            outer = copy.copy(st)
            outer.items = st.items[:1]
            outer.body = [inner]
            return self._with(outer, env, is_async)
        item = st.items[0]
        ce = item.context_expr
        # contextlib.suppress(A, B): exactly try/except A, B: pass
        if isinstance(ce, ast.Call) and ast.unparse(ce.func).split('.')[-1] == 'suppress' and not is_async:
            names = [ast.unparse(a).split('.')[-1] for a in ce.args]
            self.try_stack.append([names])
            try:
                self.block(st.body, env)
            except _Exc as exc:
                if show(exc.val) in self.exc_group:
                    if self.exc_isinstance(show(exc.val), names):
                        return
                    raise
                if not exc.cls.startswith('?') and any(n in _ancestors(exc.cls) for n in names):
                    return
                if exc.cls.startswith('?'):
                    raise Unknown('suppress of an unknown exception')
                raise
            finally:
                self.try_stack.pop()
            return
        gt = self._generator_target(ce, env)
        if gt is not None:
            fn = gt[0].node if isinstance(gt[0], Closure) else gt[0]
            decos = {ast.unparse(d).split('.')[-1] for d in fn.decorator_list}
            if not decos & {'contextmanager', 'asynccontextmanager'}:
                raise Unknown('with over a plain generator')
            state = {'n': 0}

            def body(v):
                state['n'] += 1
                if state['n'] > 1:
                    raise Unknown('context manager yields twice')
                if item.optional_vars is not None:
                    self.assign(item.optional_vars, v, env)
                self.block(st.body, env)
                return None
            hooks = self.yield_hooks
            self._run_generator(ce, env, lambda v: self._outside_gen(hooks, body, v))
            if state['n'] != 1:
                raise Unknown('context manager does not yield')
            return
        v = self.ev(ce, env)
        n = self.effect('aenter' if is_async else 'enter', show(v))
        if item.optional_vars is not None:
            self.assign(item.optional_vars, Sym(f'ctx{n}'), env)
        try:
            self.try_stack.append([])
            try:
                self.block(st.body, env)
            finally:
                self.try_stack.pop()
        except _Exc as exc:
            self.effect('exit', show(v), 'exc', show(exc.val), fault=False)
            # an unknown context manager may swallow the exception
            if self.decide(Sym(f'truth(suppressed@{n})')):
                return
            raise
        except (_Ret, _Break, _Continue):
            self.effect('exit', show(v), 'ok', fault=False)
            raise
        self.effect('exit', show(v), 'ok', fault=False)

    @staticmethod
    def _innermost(node) -> bool:
        """A loop (or comprehension) with no other loop inside."""
        if node is None:
            return True
        if node == 'outer':
            return False
        parts = (node.body + node.orelse) if isinstance(node, (ast.For, ast.AsyncFor)) else [node]
        for part in parts:
            for x in ast.walk(part):
                if x is node:
                    continue
                if isinstance(x, (ast.For, ast.While, ast.AsyncFor, ast.comprehension)) and not (
                        isinstance(node, ast.comprehension)):
                    return False
                if isinstance(x, ast.Call) and not isinstance(x.func, ast.Attribute) and isinstance(
                        x.func, ast.Name) and False:
                    return False
        return True

    def _iterate(self, itv, text_hint, loop=None):
        """Yield loop elements: concrete collections as they are, unknown ones 0..LOOP_UNROLL."""
        if not isinstance(itv, Sym) and isinstance(itv, (list, tuple, set, frozenset, dict)):
            for x in self._ordered(itv):
                yield x
            return
        if isinstance(itv, str) and not isinstance(itv, Sym):
            raise Unknown('iteration over a string')
        txt = show(itv)
        k = 0
        while True:
            if k >= self.ctx.unroll[1 if self._innermost(loop) else 0]:
                return
            if not self.choose(f'more({txt}, {k})', [False, True]):
                return
            yield Sym(f'{txt}#{k}')
            k += 1

    def st_For(self, st, env):
        if self._generator_target(st.iter, env) is not None:
            def body(v):
                self.assign(st.target, v, env)
                try:
                    self.block(st.body, env)
                except _Continue:
                    pass
                return None
            hooks = self.yield_hooks
            try:
                self._run_generator(st.iter, env, lambda v: self._outside_gen(hooks, body, v))
            except _Break:
                return
            if st.orelse:
                self.block(st.orelse, env)
            return
        itv = self.ev(st.iter, env)
        broke = False
        for el in self._iterate(itv, st.iter, st):
            self.assign(st.target, el, env)
            try:
                self.block(st.body, env)
            except _Break:
                broke = True
                break
            except _Continue:
                continue
        if not broke and st.orelse:
            self.block(st.orelse, env)

    def _outside_gen(self, hooks, fn, v):
        """Run consumer code at a yield point: it is not inside the generator (its own yields, if
        any, belong to the enclosing hooks)."""
        saved = self.yield_hooks
        self.yield_hooks = saved[:-1]
        try:
            return fn(v)
        finally:
            self.yield_hooks = saved

    def st_AsyncFor(self, st, env):
        raise Unknown('async for')

    def st_While(self, st, env):
        k = 0
        broke = False
        while True:
            if not self.decide(self.ev(st.test, env)):
                break
            if k >= self.ctx.unroll[2]:
                self.cut = True
                raise _Ret(Sym('<loop bound>'))
            k += 1
            try:
                self.block(st.body, env)
            except _Break:
                broke = True
                break
            except _Continue:
                continue
        if not broke and st.orelse:
            self.block(st.orelse, env)

    def st_Break(self, st, env):
        raise _Break()

    def st_Continue(self, st, env):
        raise _Continue()

    def st_FunctionDef(self, st, env):
        if st.decorator_list:
            raise Unknown('decorated nested function')
        self.bind(env, st.name, self._closure(st, env, st.name))

    st_AsyncFunctionDef = st_FunctionDef

    def st_Nonlocal(self, st, env):
        env.setdefault('nonlocal', set()).update(st.names)

    def st_Global(self, st, env):
        raise Unknown('global statement')

    def st_Delete(self, st, env):
        for t in st.targets:
            if isinstance(t, ast.Name):
                e = env
                while e is not None and t.id not in e['vars']:
                    e = e['parent']
                if e is not None:
                    del e['vars'][t.id]
            elif isinstance(t, ast.Subscript):
                obj = self.ev(t.value, env)
                key = self.ev(t.slice, env)
                if isinstance(obj, dict):
                    for x in list(obj):
                        if show(x) == show(key):
                            del obj[x]
                            self.mutated(obj)
                            break
                    else:
                        if all(_concrete(x) for x in obj) and _concrete(key):
                            raise self._raise_builtin('KeyError')
                        raise Unknown('del with symbolic key')
                elif isinstance(obj, Sym):
                    self.effect('delitem', str(obj), show(key), bump=False)
                else:
                    raise Unknown('del item')
            elif isinstance(t, ast.Attribute):
                obj = self.ev(t.value, env)
                self.effect('delattr', f'{show(obj)}.{t.attr}', bump=False, fault=False)
                self.store.pop((show(obj), t.attr), None)
            else:
                raise Unknown('del target')

    def st_Import(self, st, env):
        pass

    def st_ImportFrom(self, st, env):
        pass

    # ------------------------------------------------------------------ driver
    def go(self, fn):
        a = fn.args
        frame = {'vars': {}, 'parent': None, 'nonlocal': set()}
        for p in a.posonlyargs + a.args + a.kwonlyargs:
            frame['vars'][p.arg] = Sym(p.arg)
        if a.vararg:
            frame['vars'][a.vararg.arg] = Sym(a.vararg.arg)
        if a.kwarg:
            frame['vars'][a.kwarg.arg] = Sym(a.kwarg.arg)
        # the collected *args / **kwargs and the receiver are objects, never None
        for nm in [x.arg for x in (a.vararg, a.kwarg) if x] + [
                p.arg for p in (a.posonlyargs + a.args)[:1] if p.arg in ('self', 'cls')]:
            self.facts[f'is(None, {nm})'] = False
        if self._is_generator(fn):
            raise Unknown('generator')
        try:
            self.block(fn.body, frame)
            out = ('return', 'None')
        except _Ret as r:
            out = ('return', show(r.v))
        except _Exc as exc:
            out = ('raise', self.exc_cls.get(show(exc.val), exc.cls), show(exc.val))
        except (_Break, _Continue):
            raise Unknown('stray break/continue')
        return out


def summarise(ctx: Ctx, qual: str, fn) -> list:
    """All paths of `fn`: [(decisions dict, trace tuple, outcome)].  Raises Unknown."""
    paths = []
    work = [[]]
    while work:
        script = work.pop()
        run = Run(ctx, qual, script)
        try:
            out = run.go(fn)
        except RecursionError:
            raise Unknown('recursion')
        work.extend(run.alts)
        paths.append((dict(run.facts), tuple(run.trace), out))
        if len(paths) > MAX_PATHS:
            raise Unknown('path budget')
        if len(paths) % 256 == 0 and _DEADLINE[0] is not None and time.time() > _DEADLINE[0]:
            raise Unknown('time budget')
    return paths


def _groups_meet(key, a, b) -> bool:
    if not key.startswith(('fault@', 'sub-fault:', 'pfault:')) or a is None or b is None:
        return False
    return bool(set(a.split('|')) & set(b.split('|')))


def compare(pa: list, pb: list):
    """None when equivalent, else a description of the first differing compatible pair."""
    exact = {}
    for fb, tb, ob in pb:
        exact[frozenset(fb.items())] = (tb, ob)
    for fa, ta, oa in pa:
        hit = exact.get(frozenset(fa.items()))
        if hit is not None and hit == (ta, oa):
            continue        # paths of one function exclude each other: no other partner is compatible
        for fb, tb, ob in pb:
            small, big = (fa, fb) if len(fa) <= len(fb) else (fb, fa)
            if any(k in big and big[k] != v and not _groups_meet(k, big[k], v) for k, v in small.items()):
                continue
            if ta != tb or oa != ob:
                i = next((i for i, (x, y) in enumerate(zip(ta, tb)) if x != y), min(len(ta), len(tb)))
                return {'decisions': {k: v for k, v in list(fa.items())[:8]},
                        'at': i, 'a': (ta[i] if i < len(ta) else oa), 'b': (tb[i] if i < len(tb) else ob)}
    return None


# ---------------------------------------------------------------------------------------------
# substitution of proved-equivalent functions by their reference form

import json
import os

REFSRC_PATH = os.path.join(os.path.dirname(os.path.abspath(__file__)), 'reference_src.json')
_REFSRC = None


def reference_src() -> dict:
    global _REFSRC
    if _REFSRC is None:
        try:
            with open(REFSRC_PATH, encoding='utf-8') as f:
                _REFSRC = json.load(f)
        except (OSError, ValueError):
            _REFSRC = {}
    return _REFSRC


def _dump(fn) -> str:
    fn = copy.deepcopy(fn)
    if fn.body and isinstance(fn.body[0], ast.Expr) and isinstance(getattr(fn.body[0], 'value', None), ast.Constant) \
            and isinstance(fn.body[0].value.value, str):
        fn.body = fn.body[1:] or [ast.Pass()]
    for x in ast.walk(fn):
        if isinstance(x, ast.arg):
            x.annotation = None
        if isinstance(x, (ast.FunctionDef, ast.AsyncFunctionDef)):
            x.returns = None
    import hashlib
    return hashlib.sha1(ast.dump(fn, include_attributes=False).encode()).hexdigest()[:16]


def _classes(tree) -> dict:
    return {c.name: c for c in ast.walk(tree) if isinstance(c, ast.ClassDef)}


def _handler_names(fns) -> set:
    out = set()
    for fn in fns:
        for x in ast.walk(fn):
            if isinstance(x, ast.ExceptHandler) and x.type is not None:
                for n in ([x.type] if not isinstance(x.type, ast.Tuple) else x.type.elts):
                    out.add(ast.unparse(n).split('.')[-1])
            if isinstance(x, ast.Call) and ast.unparse(x.func).split('.')[-1] == 'suppress':
                for a in x.args:
                    out.add(ast.unparse(a).split('.')[-1])
    return out


def _exception_names(fns) -> set:
    """Every exception class a function mentions (handlers, isinstance tests, raises)."""
    out = set()
    for fn in fns:
        for x in ast.walk(fn):
            nm = x.id if isinstance(x, ast.Name) else (x.attr if isinstance(x, ast.Attribute) else None)
            if nm and nm[:1].isupper() and (nm in _EXC_PARENT or nm.endswith(('Error', 'Exception', 'InvalidState',
                                                                               'UnknownEvent'))):
                out.add(nm)
    return out


def _guarded_names(fns) -> set:
    """Names of the callables invoked somewhere inside a try / with body of any of the functions."""
    out = set()
    for fn in fns:
        for x in ast.walk(fn):
            if isinstance(x, (ast.Try, ast.With, ast.AsyncWith)):
                for st in x.body + getattr(x, 'orelse', []):
                    for y in ast.walk(st):
                        if isinstance(y, ast.Call):
                            f = y.func
                            out.add(f.id if isinstance(f, ast.Name) else (f.attr if isinstance(f, ast.Attribute) else ''))
                        elif isinstance(y, ast.Await) and not isinstance(y.value, ast.Call):
                            out.add(ast.unparse(y.value).split('.')[-1])
    out.discard('')
    return out


def _signature(fn) -> str:
    a = copy.deepcopy(fn.args)
    for x in ast.walk(a):
        if isinstance(x, ast.arg):
            x.annotation = None
    return ast.dump(a, include_attributes=False) + ('async' if isinstance(fn, ast.AsyncFunctionDef) else '') + \
        ','.join(ast.unparse(d) for d in fn.decorator_list)


def _module_consts(tree) -> dict:
    """NAME = <literal> at module level, assigned exactly once and never declared global."""
    out, count = {}, {}
    for st in tree.body:
        tgts = []
        if isinstance(st, ast.Assign):
            tgts = [t for t in st.targets if isinstance(t, ast.Name)]
            val = st.value
        elif isinstance(st, ast.AnnAssign) and isinstance(st.target, ast.Name) and st.value is not None:
            tgts, val = [st.target], st.value
        for t in tgts:
            count[t.id] = count.get(t.id, 0) + 1
            try:
                v = ast.literal_eval(val)
            except (ValueError, SyntaxError, TypeError, MemoryError, RecursionError):
                continue
            if isinstance(v, (str, int, float, bool)) or v is None or (
                    isinstance(v, tuple) and all(isinstance(x, (str, int, float, bool)) or x is None for x in v)):
                out[t.id] = v
    for x in ast.walk(tree):
        if isinstance(x, ast.Global):
            for n in x.names:
                out.pop(n, None)
        elif isinstance(x, (ast.AugAssign,)) and isinstance(x.target, ast.Name):
            out.pop(x.target.id, None)
    return {k: v for k, v in out.items() if count.get(k) == 1}


def _called_names(fn) -> set:
    out = set()
    for x in ast.walk(fn):
        if isinstance(x, ast.Attribute):
            out.add(x.attr)
        elif isinstance(x, ast.Name):
            out.add(x.id)
    return out


def _reach(start_fn, funcs: dict, only: set) -> list:
    """Functions among `only` (quals) reachable from start_fn by name."""
    seen, todo, out = set(), [start_fn], []
    while todo:
        f = todo.pop()
        names = _called_names(f)
        for q in only:
            if q not in seen and q.split('.')[-1] in names and q in funcs:
                seen.add(q)
                out.append(funcs[q])
                todo.append(funcs[q])
    return out


def _cache_path():
    import tempfile
    return os.path.join(tempfile.gettempdir(), 'edzed-verif-e13-cache.json')


_CACHE = None


def _cache_key(qual, fns, alphabet) -> str:
    import hashlib
    h = hashlib.sha1()
    try:
        with open(__file__, 'rb') as f:
            h.update(f.read())
    except OSError:
        pass
    h.update(repr((qual, alphabet)).encode())
    for f in fns:
        h.update(ast.dump(f, include_attributes=False).encode())
    return h.hexdigest()


def equivalent_cached(qual, cur_fn, ref_fn, cur_ctx, ref_ctx, fns):
    """The verdict depends only on the texts of the functions involved and of this module: a
    cache (optional, outside the repository and /verif) saves the 20 checks recomputing it."""
    global _CACHE
    if _CACHE is None:
        try:
            with open(_cache_path(), encoding='utf-8') as f:
                _CACHE = json.load(f)
        except (OSError, ValueError):
            _CACHE = {}
    key = _cache_key(qual, fns + list(cur_ctx.classes.values()) + list(ref_ctx.classes.values()),
                     cur_ctx.alphabet)
    if key in _CACHE:
        ok, info = _CACHE[key]
        return ok, info
    ok, info = equivalent(qual, cur_fn, ref_fn, cur_ctx, ref_ctx)
    _CACHE[key] = [ok, info]
    try:
        tmp = _cache_path() + f'.{os.getpid()}'
        with open(tmp, 'w', encoding='utf-8') as f:
            json.dump(_CACHE, f)
        os.replace(tmp, _cache_path())
    except OSError:
        pass
    return ok, info


_DEADLINE = [None]
E13_SECONDS = 90.0      # wall-clock budget per compared function (all unrolling levels together)


def equivalent(qual, cur_fn, ref_fn, cur_ctx: Ctx, ref_ctx: Ctx):
    """(True, info) / (False, why)"""
    err = None
    _DEADLINE[0] = time.time() + E13_SECONDS
    for level in UNROLL_LEVELS:
        cur_ctx.unroll = ref_ctx.unroll = level
        try:
            pb = summarise(ref_ctx, qual, ref_fn)
            pa = summarise(cur_ctx, qual, cur_fn)
        except Unknown as e:
            err = e
            if str(e) == 'path budget':
                continue        # same function, loops unrolled less deeply (both versions alike)
            return False, f'not summarised: {e}'
        diff = compare(pa, pb)
        if diff is not None:
            return False, f'differs: {diff}'
        return True, f'{len(pa)} x {len(pb)} paths, loops unrolled {level[0]}/{level[1]} times'
    return False, f'not summarised: {err}'


def semantic_substitute(modname: str, tree: ast.Module, const_attrs=frozenset()) -> list:
    """Replace (in place) every changed function that is proved equivalent to its reference form
    by that form.  Helpers that exist in the analysed tree only and are no longer used afterwards
    are removed; reference helpers that were merged into their (now restored) callers come back."""
    from .alpha import outermost_functions, prenormalise
    if os.environ.get('EDZED_VERIF_NO_E13'):      # measurement switch: analyse the shapes as they are
        return []
    ref_mod_src = reference_src().get(modname)
    if not ref_mod_src:
        return []
    cur = dict(outermost_functions(tree))
    cur_dump = {q: _dump(f) for q, f in cur.items()}
    changed = [q for q in cur if q in ref_mod_src['funcs'] and cur_dump[q] != ref_mod_src['dumps'].get(q)]
    if not changed:
        return []
    ref_tree = prenormalise(ast.parse(ref_mod_src['source']))
    ref = dict(outermost_functions(ref_tree))
    only_cur = {q for q in cur if q not in ref}
    only_ref = {q for q in ref if q not in cur}
    cur_classes = {n: c for n, c in _classes(tree).items() if n not in _classes(ref_tree)}
    ref_classes = {n: c for n, c in _classes(ref_tree).items() if n not in _classes(tree)}
    cur_consts, ref_consts = _module_consts(tree), _module_consts(ref_tree)
    log = []
    proved = []
    for q in changed:
        fns = [cur[q], ref[q]] + _reach(cur[q], cur, only_cur) + _reach(ref[q], ref, only_ref)
        alphabet = sorted(((_handler_names(fns) | _exception_names(fns)) - {'Exception', 'BaseException'}) | {'Other'})
        if any(isinstance(x, (ast.Await,)) for f in fns for x in ast.walk(f)):
            alphabet = sorted(set(alphabet) | {'CancelledError'})
        cctx = Ctx(cur, cur_classes, only_cur, const_attrs, alphabet)
        rctx = Ctx(ref, ref_classes, only_ref, const_attrs, alphabet)
        cctx.guarded = rctx.guarded = _guarded_names(fns)
        cctx.consts, rctx.consts = cur_consts, ref_consts
        if _signature(cur[q]) != _signature(ref[q]):
            ok, info = False, 'signature (parameters, defaults, decorators) differs'
        else:
            ok, info = equivalent_cached(q, cur[q], ref[q], cctx, rctx, fns)
        log.append((q, 'restructured', f'equivalent to the reference form ({info})' if ok else f'kept as is ({info})'))
        if ok:
            proved.append(q)
    if not proved:
        return log
    used_before = set()
    for x in ast.walk(tree):
        if isinstance(x, ast.Attribute):
            used_before.add(x.attr)
        elif isinstance(x, ast.Name) and isinstance(x.ctx, ast.Load):
            used_before.add(x.id)

    # replace the proved functions
    class Repl(ast.NodeTransformer):
        def __init__(self):
            self.prefix = ''

        def visit_ClassDef(self, node):
            old = self.prefix
            self.prefix = f'{old}{node.name}.'
            node.body = [self.visit(ch) for ch in node.body]
            self.prefix = old
            return node

        def _fn(self, node):
            q = f'{self.prefix}{node.name}'
            if q in proved:
                new = copy.deepcopy(ref[q])
                delta = node.lineno - new.lineno
                ast.increment_lineno(new, delta)
                return new
            return node
        visit_FunctionDef = _fn
        visit_AsyncFunctionDef = _fn
    Repl().visit(tree)
    cur = dict(outermost_functions(tree))
    # reference helpers that were merged into restored callers
    back = []
    for q in sorted(only_ref):
        name = q.split('.')[-1]
        users_ref = [u for u, f in ref.items() if u != q and name in _called_names(f)]
        if users_ref and all(u in cur and _dump(cur[u]) == _dump(ref[u]) for u in users_ref):
            back.append(q)
    for q in back:
        owner = q.rsplit('.', 1)[0] if '.' in q else None
        new = copy.deepcopy(ref[q])
        if owner is None:
            tree.body.append(new)
        else:
            cls = next((c for c in ast.walk(tree) if isinstance(c, ast.ClassDef) and c.name == owner), None)
            if cls is None:
                continue
            anchor = next((c for c in cls.body if hasattr(c, 'lineno')), None)
            if anchor is not None:
                ast.increment_lineno(new, anchor.lineno - new.lineno)
            cls.body.append(new)
        log.append((q, 'merged helper', 'restored with its restored callers'))
    # helpers of the analysed tree that nothing uses any more
    for _round in range(4):
        cur = dict(outermost_functions(tree))
        used = set()
        for x in ast.walk(tree):
            if isinstance(x, ast.Attribute):
                used.add(x.attr)
            elif isinstance(x, ast.Name) and isinstance(x.ctx, ast.Load):
                used.add(x.id)
        # (a new private method that nothing ever named is not a helper: it may override a hook)
        dead = [q for q in only_cur if q in cur and q.split('.')[-1].startswith('_')
                and q.split('.')[-1] in used_before
                and not q.split('.')[-1].startswith('__') and q.split('.')[-1] not in (
                    used - _self_refs(cur[q], q.split('.')[-1]))]
        if not dead:
            break
        for q in dead:
            _remove_def(tree, cur[q])
            log.append((q, 'helper', 'unused after the restoration: removed'))
    ast.fix_missing_locations(tree)
    return log


def _self_refs(fn, name) -> set:
    """{name} if the only references to `name` are inside fn itself (recursion)."""
    return set()


def _remove_def(tree, fn) -> None:
    for x in ast.walk(tree):
        body = getattr(x, 'body', None)
        if isinstance(body, list) and fn in body:
            body.remove(fn)
            if not body:
                body.append(ast.Pass())
            return


def build_reference_src(modules: dict) -> dict:
    """modules: short module name -> (source text).  The source is kept as is; dumps are taken from
    the canonicalised tree (the canonicalisation of the pinned tree is the identity up to
    prenormalisation)."""
    from .alpha import outermost_functions, prenormalise
    out = {}
    for modname, src in modules.items():
        tree = prenormalise(ast.parse(src))
        fns = dict(outermost_functions(tree))
        if fns:
            out[modname] = {'source': src, 'funcs': sorted(fns), 'dumps': {q: _dump(f) for q, f in fns.items()}}
    return out
