"""
Closed-world assumption A1: attributes named in ownership rules are written only through the
syntactic forms `obj.attr = ..`, `obj.attr op= ..`, `del obj.attr`. Every other way of writing an
attribute (setattr, __dict__, vars()[...], exec/eval, object.__setattr__) found in the package
must be on the frozen allow-list below; an unlisted site makes every ownership verdict unsound,
so it is reported as ANALYSIS-ERROR (never as a pass).
"""
from __future__ import annotations

import ast

from .loader import own_nodes, norm, norm1, call_name

ALLOW = {
    ('block:Block.__init__', 'setattr(self, key, value)'):
        "x_/X_ prefixed user attributes only (guarded by the prefix test in the same loop)",
    ('simulator:_BlockResolver.resolve', 'setattr(obj, attr, blk)'):
        "registered attribute names only; checked by C15 R15.5",
}


def _allowed(fi, x) -> bool:
    """Structural (local-name independent) form of the allow-list."""
    if not (isinstance(x, ast.Call) and call_name(x) == 'setattr' and len(x.args) == 3 and not x.keywords):
        return False
    if fi.fid == 'block:Block.__init__':
        # setattr(self, K, V) where K passed a startswith() test against x_/X_ prefixes only
        key = x.args[1]
        if norm(x.args[0]) != 'self' or not isinstance(key, ast.Name):
            return False
        for t in own_nodes(fi.node):
            if isinstance(t, ast.Call) and call_name(t) == 'startswith' and \
                    isinstance(t.func, ast.Attribute) and norm(t.func.value) == key.id and t.args:
                try:
                    pre = ast.literal_eval(t.args[0])
                except ValueError:
                    continue
                pre = (pre,) if isinstance(pre, str) else tuple(pre)
                if pre and all(isinstance(p, str) and p[:2] in ('x_', 'X_') for p in pre):
                    return True
        return False
    if fi.fid == 'simulator:_BlockResolver.resolve':
        return all(isinstance(a, ast.Name) for a in x.args)      # content checked by C15 R15.5
    return False


SUSPECT_CALLS = {'setattr', 'delattr', 'exec', 'eval', '__setattr__', '__delattr__'}


def check_a1(ck) -> list[str]:
    problems = []
    prog = ck.prog
    for fi in prog.pkg_funcs(include_demo=False):
        for x in own_nodes(fi.node):
            site = None
            if isinstance(x, ast.Call) and call_name(x) in SUSPECT_CALLS:
                site = norm(x)
            elif isinstance(x, ast.Attribute) and x.attr == '__dict__' and isinstance(x.ctx, ast.Load):
                parent_txt = norm(x)
                site = parent_txt
            elif isinstance(x, ast.Call) and call_name(x) in ('vars', 'globals', 'locals'):
                site = norm(x)
            if site is None:
                continue
            if _allowed(fi, x):
                continue
            if call_name(x) in ('vars',) and fi.fid in ('block:SBlock.__init_subclass__',
                                                        'fsm:FSM._build_tables'):
                continue        # read-only iteration over class namespaces
            problems.append(f"{fi.module.path}:{getattr(x, 'lineno', '?')} {fi.fid}: `{site[:60]}` "
                            f"is not on the A1 allow-list (attribute writes may bypass the "
                            f"ownership rules)")
    return problems
