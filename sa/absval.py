"""
E9 -- finite abstract evaluation: a tiny interpreter over a restricted expression/statement
fragment. It never executes repository code; it walks the AST of one small function with an
environment of abstract inputs. Any node outside the fragment raises AnalysisError (exit 2),
never a guess.

Two instantiations:
  * ordering domain: parameters are bound to small integers; only comparisons between them,
    boolean connectives, conditional expressions and if/return are allowed -- for a function that
    touches its arguments only through comparisons the 13 weak orderings of three values are a
    complete abstraction;
  * truthiness domain: values are UNDEF / a falsy / a truthy representative; only truth tests,
    `is`/`is not` against UNDEF or None, bool(), not/and/or, conditional expressions, plain local
    assignments and data['k'] / data.get('k', default) look-ups are allowed.
"""
from __future__ import annotations

import ast

from .loader import AnalysisError, norm, is_logging_stmt


class _Undef:
    def __bool__(self):
        return False

    def __repr__(self):
        return 'UNDEF'


UNDEF = _Undef()


class _Return(Exception):
    def __init__(self, value):
        self.value = value


class Interp:
    def __init__(self, rule: str, env: dict, mode: str, allow_compare_names=()):
        self.rule = rule
        self.env = dict(env)       # normalised expression text -> abstract value
        self.mode = mode            # 'ordering' | 'truthiness'
        self.cmp_names = set(allow_compare_names)

    def fail(self, node, why=''):
        raise AnalysisError(self.rule, f"construct outside the abstract-evaluation fragment "
                            f"({self.mode}): `{norm(node)[:80]}` {why}")

    # ---- expressions
    def ev(self, e):
        t = norm(e)
        if t in self.env:
            return self.env[t]
        if isinstance(e, ast.Constant):
            if e.value is None or isinstance(e.value, bool):
                return e.value
            if self.mode == 'ordering' and isinstance(e.value, (int, float)):
                return e.value
            self.fail(e, '(only None/True/False constants)')
        if isinstance(e, ast.UnaryOp) and isinstance(e.op, ast.USub) and self.mode == 'ordering' \
                and isinstance(e.operand, ast.Constant) and isinstance(e.operand.value, (int, float)):
            return -e.operand.value
        if isinstance(e, ast.Name):
            self.fail(e, '(unbound name)')
        if isinstance(e, ast.BoolOp):
            if isinstance(e.op, ast.And):
                v = True
                for x in e.values:
                    v = self.ev(x)
                    if not v:
                        return v
                return v
            v = False
            for x in e.values:
                v = self.ev(x)
                if v:
                    return v
            return v
        if isinstance(e, ast.UnaryOp) and isinstance(e.op, ast.Not):
            return not self.ev(e.operand)
        if isinstance(e, ast.IfExp):
            return self.ev(e.body) if self.ev(e.test) else self.ev(e.orelse)
        if isinstance(e, ast.Compare):
            left = self.ev(e.left)
            for op, right_e in zip(e.ops, e.comparators):
                right = self.ev(right_e)
                if isinstance(op, (ast.Is, ast.IsNot)):
                    if self.mode != 'truthiness':
                        self.fail(e)
                    if not (right is UNDEF or right is None or left is UNDEF or left is None):
                        self.fail(e, '(identity test against something else than UNDEF/None)')
                    res = (left is right) if isinstance(op, ast.Is) else (left is not right)
                elif isinstance(op, (ast.Lt, ast.LtE, ast.Gt, ast.GtE, ast.Eq, ast.NotEq)):
                    if self.mode != 'ordering':
                        self.fail(e, '(ordering comparison in the truthiness domain)')
                    res = {ast.Lt: left < right, ast.LtE: left <= right, ast.Gt: left > right,
                           ast.GtE: left >= right, ast.Eq: left == right,
                           ast.NotEq: left != right}[type(op)]
                else:
                    self.fail(e)
                if not res:
                    return False
                left = right
            return True
        if isinstance(e, (ast.Tuple, ast.List)) and self.mode == 'truthiness' and not any(
                isinstance(x, ast.Starred) for x in e.elts):
            return tuple(self.ev(x) for x in e.elts)
        if isinstance(e, ast.Dict) and self.mode == 'truthiness' and all(k is not None for k in e.keys):
            # a local lookup table over the abstract values
            try:
                return {self.ev(k): self.ev(v) for k, v in zip(e.keys, e.values)}
            except TypeError:
                self.fail(e, '(unhashable key)')
        if isinstance(e, ast.Subscript) and self.mode == 'truthiness' and (isinstance(
                self.env.get(norm(e.value)), dict) or isinstance(e.value, ast.Dict)):
            d = self.ev(e.value)
            k = self.ev(e.slice)
            if k not in d:
                self.fail(e, '(key not in the local table)')
            return d[k]
        if isinstance(e, ast.Call):
            if isinstance(e.func, ast.Name) and e.func.id == 'bool' and len(e.args) == 1 \
                    and not e.keywords and self.mode == 'truthiness':
                return bool(self.ev(e.args[0]))
            if isinstance(e.func, ast.Name) and e.func.id in ('any', 'all') and len(e.args) == 1 \
                    and not e.keywords and self.mode == 'truthiness' and isinstance(e.args[0], (ast.Tuple, ast.List)):
                vals = self.ev(e.args[0])
                return any(vals) if e.func.id == 'any' else all(vals)
            if isinstance(e.func, ast.Attribute) and e.func.attr == 'get' and 1 <= len(e.args) <= 2 \
                    and not e.keywords and self.mode == 'truthiness' and (isinstance(
                        self.env.get(norm(e.func.value)), dict) or isinstance(e.func.value, ast.Dict)):
                d = self.ev(e.func.value)
                k = self.ev(e.args[0])
                try:
                    if k in d:
                        return d[k]
                except TypeError:
                    self.fail(e, '(unhashable key)')
                return self.ev(e.args[1]) if len(e.args) == 2 else None
            if isinstance(e.func, ast.Attribute) and e.func.attr == 'get' and \
                    len(e.args) == 2 and isinstance(e.args[0], ast.Constant) and \
                    self.mode == 'truthiness':
                key = f"{norm(e.func.value)}[{e.args[0].value!r}]"
                if key in self.env:
                    v = self.env[key]
                    return self.ev(e.args[1]) if v is MISSING else v
            self.fail(e)
        if isinstance(e, ast.Subscript) and self.mode == 'truthiness':
            self.fail(e, '(unknown data item)')
        self.fail(e)

    # ---- statements
    def run(self, stmts):
        try:
            self._block(stmts)
        except _Return as r:
            return r.value
        return None

    def _block(self, stmts):
        for st in stmts:
            if isinstance(st, ast.Return):
                raise _Return(self.ev(st.value) if st.value is not None else None)
            if isinstance(st, ast.If):
                self._block(st.body if self.ev(st.test) else st.orelse)
            elif isinstance(st, ast.Assign) and len(st.targets) == 1 and \
                    isinstance(st.targets[0], ast.Name):
                self.env[st.targets[0].id] = self.ev(st.value)
            elif isinstance(st, ast.Assign) and len(st.targets) == 1 and \
                    isinstance(st.targets[0], ast.Attribute) and \
                    norm(st.targets[0].value) == 'self':
                self.env[norm(st.targets[0])] = self.ev(st.value)
            elif is_logging_stmt(st):
                continue        # logging has no influence on the decision
            elif isinstance(st, ast.Expr) and isinstance(st.value, ast.Constant):
                continue        # docstring
            elif isinstance(st, ast.Assert):
                continue        # stated belief, not part of the decision
            elif isinstance(st, ast.Pass):
                continue
            else:
                self.fail(st)


class _Missing:
    def __repr__(self):
        return 'MISSING'


MISSING = _Missing()


def weak_orderings3():
    """All 27 assignments of {0,1,2} to (low, item, high) grouped into the 13 weak orderings."""
    seen = {}
    for lo in range(3):
        for it in range(3):
            for hi in range(3):
                # canonical form: ranks
                vals = sorted({lo, it, hi})
                rank = tuple(vals.index(v) for v in (lo, it, hi))
                seen.setdefault(rank, (lo, it, hi))
    return seen     # rank tuple -> representative
