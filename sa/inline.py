"""
E12 (continued) -- undoing "extract helper" and "introduce explaining variable" refactorings.

Both transformations run on the in-memory AST of the analysed tree before the alpha pass; both
are restricted to constructs that do NOT exist in the reference (new private helpers, new locals)
and to the cases in which putting the code back is an exact equivalence.

inline_new_helpers(tree, known_quals)
    A function or method whose qualified name is not in the reference, whose name starts with one
    underscore, which is defined exactly once in the module, is not recursive, not a generator, has
    no decorator other than @staticmethod, and whose body is
        (a) a single `return <expr>`                               -> expression helper
        (b) a chain `if c: return E1 ... return En` of returns      -> expression helper (IfExp)
        (c) statements without any `return <value>`                 -> procedure
        (d) statements followed by one final `return <expr>`        -> procedure with result
    is substituted at every call site `self.NAME(...)`, `Class.NAME(...)`, `NAME(...)` of the same
    module: (a)/(b) anywhere in an expression, (c) where the call is an expression statement (or
    `await`ed one), (d) where the call is the whole right-hand side of an assignment, the value of
    a `return`, or an expression statement.  Arguments that are names / attribute chains /
    constants are substituted for the parameters (which must not be re-bound in the helper); other
    arguments are bound to the parameter name by an assignment placed before the inlined body.
    Locals of the helper that clash with names of the caller get a suffix.  When every use of the
    helper was inlined, its definition is removed (so that ownership rules do not see a second
    writer).  Dynamic dispatch: a private method introduced by the edit and defined once is assumed
    not to be overridden.

inline_new_locals(fn, reference_names)
    A local that is not a reference name, is bound exactly once by a plain assignment `v = E` with a
    side-effect-free E (names, attribute chains, constants, comparisons, boolean / arithmetic
    operators, subscripts, conditional expressions, calls of a short list of pure functions and
    query methods), and whose every use is reached from the assignment without passing anything
    that could change what E denotes -- no `await`, no call other than pure ones and logging, no
    store to an attribute or subscript, no re-binding of a name occurring in E, and no loop that
    contains such an effect -- is replaced by E at its uses and the assignment is dropped.
"""
from __future__ import annotations

import ast
import copy

from .loader import is_logging_call

PURE_FUNCS = {'isinstance', 'issubclass', 'len', 'bool', 'int', 'float', 'str', 'abs', 'max', 'min',
              'getattr', 'hasattr', 'type', 'tuple', 'list', 'set', 'frozenset', 'sorted', 'any',
              'all', 'sum', 'repr', 'callable', 'id', 'super', 'dict', 'range', 'enumerate', 'zip',
              'reversed', 'iter', 'next'}
PURE_METHODS = {'done', 'cancelled', 'is_initialized', 'is_ready', 'is_finalized', 'empty', 'qsize',
                'get', 'keys', 'values', 'items', 'startswith', 'endswith', 'when', 'time',
                'has_method', 'is_set', 'getblocks', 'intersection', 'union', 'difference', 'copy',
                'isoweekday', 'total_seconds', 'lower', 'upper', 'strip', 'split', 'exception',
                'get_running_loop', 'get_event_loop', 'current_task', 'get_circuit', 'removeprefix',
                'partition', 'get_state', 'as_list', 'input_signature'}


def _is_pure_call(c: ast.Call) -> bool:
    f = c.func
    last = f.id if isinstance(f, ast.Name) else (f.attr if isinstance(f, ast.Attribute) else '')
    if last[:1].isupper() and last.endswith(('Error', 'Exception', 'Warning', 'InvalidState', 'UnknownEvent')):
        return True         # constructing an exception object
    if isinstance(f, ast.Name):
        return f.id in PURE_FUNCS
    if isinstance(f, ast.Attribute):
        return f.attr in PURE_METHODS
    return False


def _pure_expr(e: ast.AST) -> bool:
    for x in ast.walk(e):
        if isinstance(x, (ast.Await, ast.Yield, ast.YieldFrom, ast.NamedExpr, ast.Lambda,
                          ast.GeneratorExp)):
            return False        # (a generator expression is lazy: when it runs is not where it is written)
        if isinstance(x, ast.Call) and not _is_pure_call(x):
            return False
    return True


def _strip_doc(body):
    if body and isinstance(body[0], ast.Expr) and isinstance(body[0].value, ast.Constant) \
            and isinstance(body[0].value.value, str):
        return body[1:]
    return body


def _param_names(fn):
    a = fn.args
    return [x.arg for x in a.posonlyargs + a.args + a.kwonlyargs]


def _names_in(node):
    return {n.id for n in ast.walk(node) if isinstance(n, ast.Name)}


def _stores_in(node):
    out = set()
    for n in ast.walk(node):
        if isinstance(n, ast.Name) and isinstance(n.ctx, (ast.Store, ast.Del)):
            out.add(n.id)
        if isinstance(n, ast.ExceptHandler) and n.name:
            out.add(n.name)
    return out


class _Subst(ast.NodeTransformer):
    def __init__(self, mapping):
        self.mapping = mapping      # name -> expression (AST) or new name (str)

    def visit_Name(self, node):
        m = self.mapping.get(node.id)
        if m is None:
            return node
        if isinstance(m, str):
            return ast.copy_location(ast.Name(id=m, ctx=node.ctx), node)
        if isinstance(node.ctx, ast.Load):
            return ast.copy_location(copy.deepcopy(m), node)
        return node

    def visit_ExceptHandler(self, node):
        m = self.mapping.get(node.name) if node.name else None
        if isinstance(m, str):
            node.name = m
        self.generic_visit(node)
        return node


def _unguard(stmts):
    """`if c: return` (bare) followed by the rest  ->  `if not c: <rest>` (recursively), so that a
    procedure written with guard clauses becomes return-free."""
    out = []
    for i, st in enumerate(stmts):
        if isinstance(st, ast.If) and not st.orelse and len(st.body) == 1 and isinstance(st.body[0], ast.Return) \
                and st.body[0].value is None and i + 1 < len(stmts):
            rest = _unguard(stmts[i + 1:])
            test = st.test.operand if isinstance(st.test, ast.UnaryOp) and isinstance(st.test.op, ast.Not) \
                else ast.UnaryOp(op=ast.Not(), operand=st.test)
            out.append(ast.copy_location(ast.If(test=test, body=rest, orelse=[]), st))
            return out
        out.append(st)
    return out


def _helper_kind(fn):
    body = _strip_doc(fn.body)
    if not body:
        return None, None
    if not any(isinstance(x, ast.Return) and x.value is not None for x in ast.walk(fn)):
        body = _unguard(body)
        if any(isinstance(x, ast.Return) for st in body for x in ast.walk(st)
               if not (st is body[-1] and isinstance(st, ast.Return))):
            body = _strip_doc(fn.body)
    if any(isinstance(x, (ast.Yield, ast.YieldFrom)) for x in ast.walk(fn)):
        return None, None
    if any(isinstance(x, (ast.FunctionDef, ast.AsyncFunctionDef, ast.Lambda, ast.Global, ast.Nonlocal))
           and x is not fn for x in ast.walk(fn)):
        return None, None
    rets = [x for x in ast.walk(fn) if isinstance(x, ast.Return)]
    if len(body) == 1 and isinstance(body[0], ast.Return) and body[0].value is not None:
        return 'expr', body[0].value
    # chain of `if c: return E` ... `return E`
    if all(isinstance(s, ast.If) and not s.orelse and len(s.body) == 1 and isinstance(s.body[0], ast.Return)
           and s.body[0].value is not None for s in body[:-1]) and isinstance(body[-1], ast.Return) \
            and body[-1].value is not None and len(body) >= 2:
        expr = body[-1].value
        for s in reversed(body[:-1]):
            expr = ast.IfExp(test=s.test, body=s.body[0].value, orelse=expr)
        return 'expr', expr
    valued = [r for r in rets if r.value is not None]
    if not valued:
        # procedure: only a trailing bare return is tolerated
        bare = [x for st in body for x in ast.walk(st) if isinstance(x, ast.Return)]
        if not bare or (len(bare) == 1 and body[-1] is bare[0]):
            return 'proc', [s for s in body if not (isinstance(s, ast.Return))]
        return None, None
    if len(rets) == 1 and body[-1] is rets[0]:
        return 'procret', (body[:-1], rets[0].value)
    # every exit is a `return <expr>` in tail position (if/else arms, try body / handlers / else,
    # with bodies): the returns can be turned into assignments of the call's target
    if all(r.value is not None for r in rets) and _all_tail(body, set(id(r) for r in rets)):
        return 'tailret', body
    return None, None


def _all_tail(stmts, ret_ids):
    """Do all the given Return nodes sit in tail position of `stmts`, and does every path through
    stmts end in one of them?"""
    if not stmts:
        return False
    for st in stmts[:-1]:
        if any(id(x) in ret_ids for x in ast.walk(st)):
            return False
    last = stmts[-1]
    if isinstance(last, ast.Return):
        return id(last) in ret_ids
    if isinstance(last, ast.If):
        return bool(last.orelse) and _all_tail(last.body, ret_ids) and _all_tail(last.orelse, ret_ids)
    if isinstance(last, ast.Try) and not last.finalbody:
        arms = [last.orelse if last.orelse else last.body] + [h.body for h in last.handlers]
        if last.orelse and any(id(x) in ret_ids for st in last.body for x in ast.walk(st)):
            return False
        return all(_all_tail(a, ret_ids) for a in arms)
    if isinstance(last, (ast.With, ast.AsyncWith)):
        return _all_tail(last.body, ret_ids)
    return False


class _RetToAssign(ast.NodeTransformer):
    def __init__(self, make):
        self.make = make

    def visit_Return(self, node):
        return ast.copy_location(self.make(node.value), node)

    def visit_FunctionDef(self, node):
        return node

    visit_AsyncFunctionDef = visit_FunctionDef
    visit_Lambda = visit_FunctionDef


def inline_new_helpers(tree: ast.Module, known: set) -> int:
    """known: qualified names ('Class.meth' / 'func') present in the reference for this module."""
    # ---- candidates
    defs = {}       # simple name -> list of (qual, fn, owner body list, owner class name or None)

    def collect(node, prefix, cls):
        for ch in getattr(node, 'body', []):
            if isinstance(ch, (ast.FunctionDef, ast.AsyncFunctionDef)):
                defs.setdefault(ch.name, []).append((f"{prefix}{ch.name}", ch, node.body, cls))
            elif isinstance(ch, ast.ClassDef):
                collect(ch, f"{prefix}{ch.name}.", ch.name)
    collect(tree, '', None)
    cands = {}
    for name, lst in defs.items():
        if len(lst) != 1:
            continue
        qual, fn, owner, cls = lst[0]
        if qual in known or not name.startswith('_') or name.startswith('__'):
            continue
        decos = [ast.unparse(d) for d in fn.decorator_list]
        if any(d != 'staticmethod' for d in decos):
            continue
        if any(isinstance(x, ast.Call) and ((isinstance(x.func, ast.Attribute) and x.func.attr == name) or
                                            (isinstance(x.func, ast.Name) and x.func.id == name))
               for x in ast.walk(fn)):
            continue        # recursive
        kind, payload = _helper_kind(fn)
        if kind is None:
            continue
        if fn.args.vararg or fn.args.kwarg:
            continue
        if any(isinstance(x, ast.Name) and x.id == name and isinstance(x.ctx, ast.Load)
               and cls is not None for x in ast.walk(tree)):
            continue        # aliased in the class body: not a plain helper
        if not any((isinstance(x, ast.Attribute) and x.attr == name) or
                   (isinstance(x, ast.Name) and x.id == name and isinstance(x.ctx, ast.Load))
                   for x in ast.walk(tree)):
            continue        # never named anywhere: not a helper (it may override a hook called by name)
        cands[name] = (qual, fn, owner, cls, kind, payload, 'staticmethod' in decos)
    if not cands:
        return 0

    changed = 0
    remaining_uses = {n: 0 for n in cands}

    def is_call_of(c, name):
        if not isinstance(c, ast.Call):
            return False
        qual, fn, owner, cls, kind, payload, static = cands[name]
        if isinstance(c.func, ast.Attribute) and c.func.attr == name:
            return isinstance(c.func.value, ast.Name) and (c.func.value.id == 'self' or c.func.value.id == cls)
        if isinstance(c.func, ast.Name) and c.func.id == name:
            return cls is None
        return False

    def bind(name, call, caller_names):
        """-> (mapping for _Subst, prelude statements) or None"""
        qual, fn, owner, cls, kind, payload, static = cands[name]
        params = _param_names(fn)
        is_method = cls is not None and not static
        mapping, prelude = {}, []
        pos = list(call.args)
        if any(isinstance(a, ast.Starred) for a in pos) or any(k.arg is None for k in call.keywords):
            return None
        if is_method:
            if not params:
                return None
            if not (isinstance(call.func, ast.Attribute) and isinstance(call.func.value, ast.Name)
                    and call.func.value.id == 'self'):
                return None
            if params[0] != 'self':
                mapping[params[0]] = ast.Name(id='self', ctx=ast.Load())
            params = params[1:]
        kw = {k.arg: k.value for k in call.keywords}
        a = fn.args
        nposdef = len(a.defaults)
        posparams = [x.arg for x in a.posonlyargs + a.args][(1 if is_method else 0):]
        defaults = dict(zip(posparams[len(posparams) - nposdef:], a.defaults)) if nposdef else {}
        for p_, d_ in zip([x.arg for x in a.kwonlyargs], a.kw_defaults):
            if d_ is not None:
                defaults[p_] = d_
        if len(pos) > len(posparams):
            return None
        argmap = dict(zip(posparams, pos))
        for k, v in kw.items():
            if k in argmap or k not in params:
                return None
            argmap[k] = v
        for p_ in params:
            if p_ not in argmap:
                if p_ in defaults:
                    argmap[p_] = defaults[p_]
                else:
                    return None
        rebound = _stores_in(fn)
        for p_, arg in argmap.items():
            simple = isinstance(arg, ast.Constant) or (
                isinstance(arg, (ast.Name, ast.Attribute)) and all(
                    isinstance(x, (ast.Name, ast.Attribute, ast.Load)) for x in ast.walk(arg)))
            uses = sum(1 for x in ast.walk(fn) if isinstance(x, ast.Name) and x.id == p_ and isinstance(x.ctx, ast.Load))
            if simple and p_ not in rebound:
                mapping[p_] = arg
            elif _pure_expr(arg) and p_ not in rebound and uses <= 1:
                mapping[p_] = arg
            else:
                newname = p_ if p_ not in caller_names else f"{p_}_h"
                prelude.append(ast.Assign(targets=[ast.Name(id=newname, ctx=ast.Store())], value=arg))
                if newname != p_:
                    mapping[p_] = newname
        # helper locals clashing with caller names
        for loc in _stores_in(fn) - set(_param_names(fn)):
            if loc in caller_names:
                mapping[loc] = f"{loc}_h"
        return mapping, prelude

    def subst_body(stmts, mapping):
        out = []
        for s in stmts:
            out.append(_Subst(mapping).visit(copy.deepcopy(s)))
        return out

    class Inliner(ast.NodeTransformer):
        def __init__(self, caller):
            self.caller = caller
            self.names = _names_in(caller) | set(_param_names(caller))

        # expression helpers: anywhere
        def visit_Call(self, node):
            self.generic_visit(node)
            for name in cands:
                if is_call_of(node, name) and cands[name][4] == 'expr':
                    b = bind(name, node, self.names)
                    if b is None or b[1]:
                        return node
                    nonlocal changed
                    changed += 1
                    return ast.copy_location(_Subst(b[0]).visit(copy.deepcopy(cands[name][5])), node)
            return node

        def _stmt_list(self, stmts):
            nonlocal changed
            out = []
            for st in stmts:
                done = False
                call = None
                ctx = None
                v = st.value if isinstance(st, (ast.Expr, ast.Assign, ast.Return)) else None
                if isinstance(v, ast.Await):
                    v = v.value
                if isinstance(v, ast.Call):
                    for name in cands:
                        if is_call_of(v, name) and cands[name][4] in ('proc', 'procret', 'tailret'):
                            kind, payload = cands[name][4], cands[name][5]
                            is_async_helper = isinstance(cands[name][1], ast.AsyncFunctionDef)
                            awaited = isinstance(st.value, ast.Await)
                            if is_async_helper != awaited:
                                break
                            b = bind(name, v, self.names)
                            if b is None:
                                break
                            mapping, prelude = b
                            if kind == 'proc' and isinstance(st, ast.Expr):
                                new = prelude + subst_body(payload, mapping)
                            elif kind == 'tailret':
                                body = subst_body(payload, mapping)
                                if isinstance(st, ast.Assign):
                                    tg = st.targets
                                    mk = lambda val: ast.Assign(targets=copy.deepcopy(tg), value=val)
                                elif isinstance(st, ast.Return):
                                    mk = lambda val: ast.Return(value=val)
                                else:
                                    mk = lambda val: ast.Expr(value=val)
                                new = prelude + [_RetToAssign(mk).visit(b_) for b_ in body]
                            elif kind == 'procret':
                                body, rexpr = payload
                                rexpr = _Subst(mapping).visit(copy.deepcopy(rexpr))
                                if isinstance(st, ast.Assign):
                                    tail = [ast.Assign(targets=st.targets, value=rexpr)]
                                elif isinstance(st, ast.Return):
                                    tail = [ast.Return(value=rexpr)]
                                else:
                                    tail = [ast.Expr(value=rexpr)] if not _pure_expr(rexpr) else []
                                new = prelude + subst_body(body, mapping) + tail
                            else:
                                break
                            for n_ in new:
                                ast.copy_location(n_, st)
                                ast.fix_missing_locations(n_)
                            out.extend(new or [ast.copy_location(ast.Pass(), st)])
                            self.names |= {x for n_ in new for x in _names_in(n_)}
                            changed += 1
                            done = True
                            break
                if not done:
                    out.append(st)
            return out

        def generic_visit(self, node):
            super().generic_visit(node)
            for f in ('body', 'orelse', 'finalbody'):
                v = getattr(node, f, None)
                if isinstance(v, list) and v and isinstance(v[0], ast.stmt):
                    setattr(node, f, self._stmt_list(v))
            return node

    # ---- apply to every function of the module that is not itself a candidate
    for name, lst in defs.items():
        for qual, fn, owner, cls in lst:
            if name in cands:
                continue
            Inliner(fn).visit(fn)
    # helpers may call each other: one more round inside the remaining (non-candidate) functions is
    # covered above because inlined bodies are re-visited by generic_visit only once; run twice
    for name, lst in defs.items():
        for qual, fn, owner, cls in lst:
            if name in cands:
                continue
            Inliner(fn).visit(fn)
    # ---- drop helpers that are no longer referenced
    for name, (qual, fn, owner, cls, kind, payload, static) in cands.items():
        still = False
        for x in ast.walk(tree):
            if x is fn:
                continue
            if isinstance(x, ast.Attribute) and x.attr == name:
                still = True
            if isinstance(x, ast.Name) and x.id == name and isinstance(x.ctx, ast.Load):
                still = True        # e.g. a class-level alias `hook = _helper`
        inside = any(True for x in ast.walk(fn) for _ in ())   # noqa: placeholder
        # references from inside the helper itself do not count (excluded: not recursive)
        refs_inside = sum(1 for x in ast.walk(fn) if (isinstance(x, ast.Attribute) and x.attr == name))
        if not still or refs_inside:
            pass
        if not still:
            owner.remove(fn)
            if not owner:
                owner.append(ast.Pass())
            changed += 1
    if changed:
        ast.fix_missing_locations(tree)
    return changed


# --------------------------------------------------------------------------------------------------

def _effect_nodes_between(stmts):
    """Flatten statements in evaluation-ish order: yields (node, is_barrier)."""
    for st in stmts:
        for x in _post_order(st):
            yield x


def _post_order(node):
    """Nodes in (approximate) evaluation order: operands before the operation, the value of an
    assignment before its targets, the iterable of a for loop before its body."""
    if isinstance(node, (ast.Assign, ast.AnnAssign, ast.AugAssign)):
        if getattr(node, 'value', None) is not None:
            yield from _post_order(node.value)
        for t in (node.targets if isinstance(node, ast.Assign) else [node.target]):
            yield from _post_order(t)
        yield node
        return
    for ch in ast.iter_child_nodes(node):
        yield from _post_order(ch)
    yield node


def _is_barrier(x, expr_names):
    if isinstance(x, (ast.Await, ast.Yield, ast.YieldFrom)):
        return True
    if isinstance(x, ast.Call) and not _is_pure_call(x) and not is_logging_call(x):
        return True
    if isinstance(x, (ast.Attribute, ast.Subscript)) and isinstance(x.ctx, (ast.Store, ast.Del)):
        return True
    if isinstance(x, ast.Name) and isinstance(x.ctx, (ast.Store, ast.Del)) and x.id in expr_names:
        return True
    if isinstance(x, ast.AugAssign):
        return True
    return False


def _may_change_self(x) -> bool:
    """A method call on self / super() / cls, a call that passes self along, or an await (other
    tasks run): afterwards an attribute of self may denote something else."""
    if isinstance(x, (ast.Await, ast.Yield, ast.YieldFrom)):
        return True
    if isinstance(x, ast.Call) and not _is_pure_call(x) and not is_logging_call(x):
        f = x.func
        root = f
        while isinstance(root, ast.Attribute):
            root = root.value
        if isinstance(root, ast.Name) and root.id in ('self', 'cls'):
            return True
        if isinstance(root, ast.Call) and isinstance(root.func, ast.Name) and root.func.id == 'super':
            return True
        for a in list(x.args) + [k.value for k in x.keywords]:
            if isinstance(a, ast.Name) and a.id == 'self':
                return True
            if isinstance(a, ast.Starred) and isinstance(a.value, ast.Name) and a.value.id == 'self':
                return True
    return False


def constant_attrs(tree) -> set:
    """Attribute names that no function of the module stores to, except constructors and the
    class-table builders: `self.<such attr>` denotes the same object during a whole call,
    whatever is called in between."""
    stored = set()
    every = set()
    for fn in [x for x in ast.walk(tree) if isinstance(x, (ast.FunctionDef, ast.AsyncFunctionDef))]:
        ctor = fn.name in ('__init__', '__init_subclass__', '_build_tables', '__new__')
        for x in ast.walk(fn):
            if isinstance(x, ast.Attribute):
                every.add(x.attr)
                if isinstance(x.ctx, (ast.Store, ast.Del)) and not ctor:
                    stored.add(x.attr)
    return every - stored


def inline_new_locals(fn, ref_names, limit: int = 8, const_attrs=frozenset()) -> int:
    ref_names = set(ref_names)
    changed = 0
    progress = True
    rounds = 0
    while progress and rounds < limit:
        progress = False
        rounds += 1
        for block_owner in [fn] + [x for x in ast.walk(fn) if x is not fn]:
            for f in ('body', 'orelse', 'finalbody'):
                stmts = getattr(block_owner, f, None)
                if not (isinstance(stmts, list) and stmts and isinstance(stmts[0], ast.stmt)):
                    continue
                if isinstance(block_owner, (ast.ClassDef,)):
                    continue
                for i, st in enumerate(stmts):
                    if not (isinstance(st, ast.Assign) and len(st.targets) == 1 and
                            isinstance(st.targets[0], ast.Name)):
                        continue
                    v = st.targets[0].id
                    if v in ref_names or not _pure_expr(st.value):
                        continue
                    all_occ = [n for n in ast.walk(fn) if isinstance(n, ast.Name) and n.id == v]
                    stores = [n for n in all_occ if isinstance(n.ctx, (ast.Store, ast.Del))]
                    loads = [n for n in all_occ if isinstance(n.ctx, ast.Load)]
                    if len(stores) != 1 or not loads:
                        continue
                    # a closure must not capture it
                    if any(isinstance(x, (ast.FunctionDef, ast.AsyncFunctionDef, ast.Lambda)) and x is not fn
                           and any(n in loads for n in ast.walk(x)) for x in ast.walk(fn)):
                        continue
                    rest = stmts[i + 1:]
                    inside = [n for s_ in rest for n in ast.walk(s_)]
                    if not all(any(n is l for n in inside) for l in loads):
                        continue        # used outside the rest of this block
                    expr_names = _names_in(st.value)
                    ok = True
                    seen = 0
                    # an attribute chain rooted at self that this function never stores to is
                    # stable for the duration of the call: barriers do not matter
                    chain = st.value
                    while isinstance(chain, ast.Attribute):
                        chain = chain.value
                    root_rebound = isinstance(chain, ast.Name) and any(
                        isinstance(z, ast.Name) and z.id == chain.id and isinstance(z.ctx, (ast.Store, ast.Del))
                        for z in ast.walk(fn))
                    stable_attr = isinstance(st.value, ast.Attribute) and isinstance(chain, ast.Name) \
                        and not root_rebound and not any(
                            isinstance(z, ast.Attribute) and isinstance(z.ctx, (ast.Store, ast.Del)) and
                            ast.unparse(z) == ast.unparse(st.value) for z in ast.walk(fn))
                    # an expression over plain local names only denotes the same objects as long as
                    # none of the names is re-bound
                    locals_only = all(isinstance(z, (ast.Name, ast.Load, ast.Compare, ast.BoolOp, ast.UnaryOp,
                                                     ast.cmpop, ast.boolop, ast.unaryop, ast.Constant,
                                                     ast.BinOp, ast.operator, ast.IfExp))
                                      for z in ast.walk(st.value))
                    # an expression over constants, un-rebound local names and attribute chains
                    # (rooted at self or at an un-rebound name) that this function never stores to
                    def _stable_leaf(z):
                        if isinstance(z, ast.Attribute):
                            c_ = z
                            while isinstance(c_, ast.Attribute):
                                c_ = c_.value
                            return isinstance(c_, ast.Name) and not any(
                                isinstance(w, ast.Attribute) and isinstance(w.ctx, (ast.Store, ast.Del))
                                and ast.unparse(w) == ast.unparse(z) for w in ast.walk(fn))
                        return True
                    stable_expr = all(isinstance(z, (ast.Name, ast.Load, ast.Compare, ast.BoolOp, ast.UnaryOp,
                                                     ast.cmpop, ast.boolop, ast.unaryop, ast.Constant,
                                                     ast.BinOp, ast.operator, ast.IfExp, ast.Attribute))
                                      and _stable_leaf(z) for z in ast.walk(st.value))
                    relaxed = stable_attr or locals_only or stable_expr
                    # every attribute in E is one that is only ever assigned by constructors:
                    # then not even a method call on self can change what E denotes
                    immutable = relaxed and all(
                        (not isinstance(z, ast.Attribute)) or z.attr in const_attrs
                        for z in ast.walk(st.value)) and not any(
                        isinstance(z, (ast.Call, ast.Subscript)) for z in ast.walk(st.value))
                    for x in _effect_nodes_between(rest):
                        if any(x is l for l in loads):
                            seen += 1
                            if seen == len(loads):
                                break
                            continue
                        if _is_barrier(x, expr_names) and not (
                                relaxed and not (isinstance(x, ast.Name) and x.id in expr_names)
                                and not (not locals_only and not immutable and _may_change_self(x))):
                            ok = False
                            break
                    if not ok:
                        continue
                    # uses inside a loop are fine only if that loop is effect-free
                    for s_ in rest:
                        for lp in [y for y in ast.walk(s_) if isinstance(y, (ast.For, ast.While, ast.AsyncFor))]:
                            in_body = [n for part in (lp.body + lp.orelse) for n in ast.walk(part)]
                            if isinstance(lp, ast.While):
                                in_body += list(ast.walk(lp.test))
                            if any(any(n is l for n in in_body) for l in loads) and \
                                    any(_is_barrier(z, expr_names) and not (
                                        relaxed and not (isinstance(z, ast.Name) and z.id in expr_names)
                                        and not (not locals_only and not immutable and _may_change_self(z)))
                                        for z in ast.walk(lp)):
                                ok = False
                    if not ok:
                        continue
                    val = st.value

                    class _S(ast.NodeTransformer):
                        def visit_Name(self, n):
                            if n.id == v and isinstance(n.ctx, ast.Load):
                                return ast.copy_location(copy.deepcopy(val), n)
                            return n
                    for s_ in rest:
                        _S().visit(s_)
                    del stmts[i]
                    if not stmts:
                        stmts.append(ast.copy_location(ast.Pass(), st))
                    changed += 1
                    progress = True
                    break
                if progress:
                    break
            if progress:
                break
    if changed:
        ast.fix_missing_locations(fn)
    return changed


# --------------------------------------------------------------------------------------------------

def _loads_locally_dominated(fn, name, skip) -> bool:
    """Sufficient condition for "re-binding `name` anywhere in `fn` cannot be observed": every load
    of `name` (outside nested functions and outside the nodes in `skip`) is preceded, in its own
    statement list, by a statement that unconditionally stores `name`."""
    ok = True

    def scan(stmts):
        nonlocal ok
        stored = False
        for st in stmts:
            if isinstance(st, (ast.FunctionDef, ast.AsyncFunctionDef, ast.ClassDef)):
                continue
            loads = [x for x in ast.walk(st) if isinstance(x, ast.Name) and x.id == name
                     and isinstance(x.ctx, ast.Load) and id(x) not in skip]
            # loads inside nested blocks of this statement are judged in their own list unless the
            # name was already stored in this list
            if loads and not stored:
                nested_lists = [getattr(st, f) for f in ('body', 'orelse', 'finalbody')
                                if isinstance(getattr(st, f, None), list)]
                if isinstance(st, ast.Try):
                    nested_lists += [h.body for h in st.handlers]
                header_loads = [x for x in loads if not any(
                    any(x is y for s2 in lst for y in ast.walk(s2)) for lst in nested_lists)]
                if header_loads:
                    ok = False
                for lst in nested_lists:
                    scan(lst)
            if isinstance(st, ast.Assign) and any(isinstance(t, ast.Name) and t.id == name for t in st.targets):
                stored = True
    scan(fn.body)
    return ok


def inline_new_closures(fn, ref_names) -> int:
    """Undo "extract local function": a plain nested `def h(...)` at the top level of `fn` whose name
    is not a name of the reference form, which is not recursive, not a generator, not decorated,
    and is only ever *called* (never passed around), is substituted at its call sites
        h(args)                     as an expression statement      (procedure)
        x = h(args) / return h(..)  the whole right-hand side        (procedure with result)
        ... h(args) ...             anywhere, for `return <expr>` helpers
    Free variables of a closure are looked up at call time, which is exactly what the inlined body
    does.  `nonlocal` declarations are dropped (the assignments then bind the caller's local, which is
    the same variable).  A parameter is bound by `param = arg` before the body; it keeps its own name
    when re-binding that name in the caller cannot be observed (see _loads_locally_dominated), else
    it gets a fresh name.  Locals of the closure that clash with caller names get a suffix."""
    changed = 0
    for _round in range(4):
        nested = [st for st in fn.body if isinstance(st, (ast.FunctionDef, ast.AsyncFunctionDef))
                  and st.name not in ref_names and not st.decorator_list]
        progress = False
        for h in nested:
            name = h.name
            if any(isinstance(x, (ast.Yield, ast.YieldFrom)) for x in ast.walk(h)):
                continue
            if any(isinstance(x, ast.Name) and x.id == name for x in ast.walk(h)):
                continue            # recursive
            if h.args.vararg or h.args.kwarg:
                continue
            if any(isinstance(x, (ast.FunctionDef, ast.AsyncFunctionDef, ast.Global)) and x is not h
                   for x in ast.walk(h)):
                continue
            nonlocals = {n for x in ast.walk(h) if isinstance(x, ast.Nonlocal) for n in x.names}
            work = copy.deepcopy(h)
            work.body = [s for s in work.body if not isinstance(s, ast.Nonlocal)]
            if any(isinstance(x, ast.Nonlocal) for x in ast.walk(work)):
                continue
            kind, payload = _helper_kind(work)
            if kind is None:
                continue
            # every mention outside the closure is the callee of a call
            others = [x for st in fn.body if st is not h for x in ast.walk(st)]
            callee_ids = {id(x.func) for x in others if isinstance(x, ast.Call)
                          and isinstance(x.func, ast.Name) and x.func.id == name}
            if any(isinstance(x, ast.Name) and x.id == name and id(x) not in callee_ids for x in others):
                continue
            if not callee_ids:
                continue
            params = _param_names(work)
            locals_h = _stores_in(work) - set(params) - nonlocals
            is_async = isinstance(h, ast.AsyncFunctionDef)
            ok_all = True
            # names of the caller before any copy of this closure is put in: the locals of one
            # inlined copy are dead when the next copy starts (a closure's locals are unbound on entry)
            caller_names = _names_in(ast.Module(body=[s for s in fn.body if s is not h], type_ignores=[])) \
                | set(_param_names(fn))

            def bind(call):
                if any(isinstance(a, ast.Starred) for a in call.args) or any(k.arg is None for k in call.keywords):
                    return None
                a = work.args
                posparams = [x.arg for x in a.posonlyargs + a.args]
                if len(call.args) > len(posparams):
                    return None
                argmap = dict(zip(posparams, call.args))
                for k in call.keywords:
                    if k.arg in argmap or k.arg not in params:
                        return None
                    argmap[k.arg] = k.value
                defaults = dict(zip(posparams[len(posparams) - len(a.defaults):], a.defaults)) if a.defaults else {}
                for p_, d_ in zip([x.arg for x in a.kwonlyargs], a.kw_defaults):
                    if d_ is not None:
                        defaults[p_] = d_
                for p_ in params:
                    if p_ not in argmap:
                        if p_ not in defaults:
                            return None
                        argmap[p_] = defaults[p_]
                mapping, prelude = {}, []
                rebound = _stores_in(work)
                for p_, arg in argmap.items():
                    if isinstance(arg, ast.Name) and arg.id == p_ and p_ not in rebound:
                        continue
                    simple = isinstance(arg, ast.Constant) or (
                        isinstance(arg, (ast.Name, ast.Attribute)) and all(
                            isinstance(x, (ast.Name, ast.Attribute, ast.Load)) for x in ast.walk(arg)))
                    if simple and p_ not in rebound and not (isinstance(arg, ast.Name) and arg.id in locals_h):
                        mapping[p_] = arg
                        continue
                    skip = {id(x) for x in ast.walk(call)}
                    if p_ not in caller_names or _loads_locally_dominated(fn, p_, skip):
                        newname = p_
                    else:
                        newname = f"{p_}_h"
                        mapping[p_] = newname
                    prelude.append(ast.Assign(targets=[ast.Name(id=newname, ctx=ast.Store())], value=arg))
                for loc in locals_h:
                    if loc in caller_names:
                        mapping[loc] = f"{loc}_h"
                return mapping, prelude

            def subst(stmts, mapping):
                return [_Subst(mapping).visit(copy.deepcopy(s)) for s in stmts]

            class In(ast.NodeTransformer):
                def visit_FunctionDef(self, node):
                    return node if node is not fn else self.generic_visit(node)
                visit_AsyncFunctionDef = visit_FunctionDef

                def visit_Call(self, node):
                    nonlocal ok_all
                    self.generic_visit(node)
                    if isinstance(node.func, ast.Name) and node.func.id == name:
                        if kind == 'expr' and not is_async:
                            b = bind(node)
                            if b is not None and not b[1]:
                                return ast.copy_location(_Subst(b[0]).visit(copy.deepcopy(payload)), node)
                    return node

                def stmts(self, lst):
                    nonlocal ok_all
                    out = []
                    for st in lst:
                        v = st.value if isinstance(st, (ast.Expr, ast.Assign, ast.Return)) else None
                        awaited = isinstance(v, ast.Await)
                        if awaited:
                            v = v.value
                        if isinstance(v, ast.Call) and isinstance(v.func, ast.Name) and v.func.id == name \
                                and kind in ('proc', 'procret', 'tailret') and awaited == is_async \
                                and not (isinstance(st, ast.Assign) and len(st.targets) != 1):
                            b = bind(v)
                            new = None
                            if b is not None:
                                mapping, prelude = b
                                if kind == 'proc' and isinstance(st, ast.Expr):
                                    new = prelude + subst(payload, mapping)
                                elif kind == 'procret':
                                    body, rexpr = payload
                                    rexpr = _Subst(mapping).visit(copy.deepcopy(rexpr))
                                    if isinstance(st, ast.Assign):
                                        tail = [ast.Assign(targets=st.targets, value=rexpr)]
                                    elif isinstance(st, ast.Return):
                                        tail = [ast.Return(value=rexpr)]
                                    else:
                                        tail = [] if _pure_expr(rexpr) else [ast.Expr(value=rexpr)]
                                    new = prelude + subst(body, mapping) + tail
                                elif kind == 'tailret':
                                    if isinstance(st, ast.Assign):
                                        tg = st.targets
                                        mk = lambda val: ast.Assign(targets=copy.deepcopy(tg), value=val)
                                    elif isinstance(st, ast.Return):
                                        mk = lambda val: ast.Return(value=val)
                                    else:
                                        mk = lambda val: ast.Expr(value=val)
                                    new = prelude + [_RetToAssign(mk).visit(b_) for b_ in subst(payload, mapping)]
                            if new is not None:
                                for n_ in new:
                                    ast.copy_location(n_, st)
                                    ast.fix_missing_locations(n_)
                                out.extend(new or [ast.copy_location(ast.Pass(), st)])
                                continue
                        out.append(st)
                    return out

                def generic_visit(self, node):
                    super().generic_visit(node)
                    for f in ('body', 'orelse', 'finalbody'):
                        v = getattr(node, f, None)
                        if isinstance(v, list) and v and isinstance(v[0], ast.stmt):
                            setattr(node, f, self.stmts(v))
                    return node

            trial = copy.deepcopy(fn)
            # work on a copy: only a complete elimination of the closure is kept
            h_t = next(s for s in trial.body if isinstance(s, (ast.FunctionDef, ast.AsyncFunctionDef)) and s.name == name)
            saved_fn = fn
            fn_backup_body = fn.body
            # run the transformer on the real function but keep a backup to restore
            backup = copy.deepcopy(fn.body)
            real_h = h
            In().visit(fn)
            left = [x for st in fn.body if st is not real_h for x in ast.walk(st)
                    if isinstance(x, ast.Name) and x.id == name]
            if left:
                fn.body = backup          # could not remove every use: undo
                break
            fn.body = [s for s in fn.body if s is not real_h]
            ast.fix_missing_locations(fn)
            changed += 1
            progress = True
            break
        if not progress:
            break
    return changed
