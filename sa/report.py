"""
Verdict protocol: obligations, violations, known findings, evidence, replay files.
"""
from __future__ import annotations

import hashlib
import json
import os
import time

from .loader import Program, AnalysisError, FuncInfo, norm1
from .cfg import CFG, register_exception

VERIF = os.path.dirname(os.path.dirname(os.path.abspath(__file__)))

ASSUMPTIONS = [
    "A1 private attributes named in ownership rules are written only through `obj.attr = ..`, "
    "`obj.attr op= ..`, `del obj.attr` (setattr/__dict__/exec sites are scanned and must be on "
    "the frozen allow-list)",
    "A2 application subclasses follow docs/new_sblocks.rst (call super().start()/stop(), add-ons "
    "before SBlock, never override event())",
    "A3 BaseExceptions other than asyncio.CancelledError are outside every fault model",
    "A4 the standard library behaves as documented (asyncio.Queue FIFO, wait_for cancels and "
    "awaits the inner task, call_later returns a cancellable handle)",
    "A5 the environment cancels a given API task at most once",
    "A6 calls of the block logging helpers / a module logger neither raise nor affect the circuit",
    "E12 the rules run on the analysed program after behaviour-preserving normalisation towards the "
    "pinned tree's spelling (alpha-conversion of locals, inlining of new private helpers and new "
    "pure locals, control-flow re-spellings; each step an equivalence, see DESIGN.md section 13)",
    "the analysed text is /repo's working tree at run time; nothing from /repo is imported or "
    "executed",
]


class Rule:
    def __init__(self, rid, sentence, model='M0', min_instances=1):
        self.id = rid
        self.sentence = sentence
        self.model = model
        self.min_instances = min_instances
        self.count = 0


class SkipSection(AnalysisError):
    """Raised by a rule to leave its `with ck.section(...)` block early on purpose (no abstention)."""
    def __init__(self):
        super().__init__('-', 'skip')


class _Section:
    def __init__(self, ck, label, backed_by=None, prefix=None):
        self.ck = ck
        self.label = label
        self.backed_by = backed_by      # name of an abstract run (ck.backing[name] is True when it passed)
        self.prefix = prefix            # constructs (prefix of the key) that this run decides

    def __enter__(self):
        self.n0 = len(self.ck.obligations)
        self.e0 = len(self.ck.analysis_errors)
        return self

    def _back(self, et, ev):
        """The shape rules of this section are the statement-naming back-up of an abstract run that
        passed: what they cannot read on this layout is noted, not reported."""
        ck = self.ck
        if not (self.backed_by and ck.backing.get(self.backed_by) is True):
            return False
        for o in ck.obligations[self.n0:]:
            if not o['ok'] and (self.prefix is None or o['construct'].startswith(self.prefix)):
                o['ok'] = True
                o['msg'] = (f"[layout not recognised by the shape rule; decided by the abstract run of "
                            f"{self.backed_by}] " + o['msg'])
                o.pop('witness', None)
        swallowed = et is not None and issubclass(et, (AnalysisError, NameError))
        if swallowed:
            ck.note(f"{self.label}: shape rule not applicable to this layout ({ev}); decided by the abstract "
                    f"run of {self.backed_by}")
            r = ck.rules.get(self.label)
            if r is not None and r.count < r.min_instances:
                ck.note(f"{self.label}: {r.min_instances - r.count} shape obligation(s) of this section were not "
                        "evaluated on this layout (the section ended at an anchor it could not read)")
                r.count = r.min_instances
        # only this section's own abstentions (nested sections of other rules keep theirs)
        keep = []
        for rid, reason in ck.analysis_errors[self.e0:]:
            if rid == self.label:
                ck.note(f"{rid}: {reason} (abstention of a shape rule; decided by the abstract run of "
                        f"{self.backed_by})")
            else:
                keep.append((rid, reason))
        ck.analysis_errors[self.e0:] = keep
        return swallowed

    def __exit__(self, et, ev, tb):
        if self._back(et, ev):
            return True
        if et is None:
            return False
        ck = self.ck
        if issubclass(et, AnalysisError) and ev.rule == '-' and ev.reason == 'skip':
            return True         # the section ended early on purpose
        if issubclass(et, AnalysisError):
            ck.analysis_errors.append((ev.rule, ev.reason))
            ck.aborted_sections.append(self.label)
            return True
        if issubclass(et, NameError) and ck.aborted_sections:
            ck.analysis_errors.append((self.label, f"section skipped: it needs a result of section "
                                       f"{ck.aborted_sections[-1]}, which abstained ({ev})"))
            ck.aborted_sections.append(self.label)
            return True
        if issubclass(et, Exception):
            import traceback
            last = traceback.format_exception(et, ev, tb, limit=-3)
            ck.analysis_errors.append(('internal', f"section {self.label}: {et.__name__}: {ev} :: "
                                       f"{[l.strip() for l in last[-3:]]}"))
            ck.aborted_sections.append(self.label)
            return True
        return False


class Check:
    def __init__(self, prop: str, tier: str, repo: str, seed: int = 0, quiet: bool = False):
        self.prop = prop
        self.tier = tier
        self.repo = repo
        self.seed = seed
        self.quiet = quiet
        self.t0 = time.time()
        self.rules: dict[str, Rule] = {}
        self.obligations: list[dict] = []
        self.analysis_errors: list[tuple[str, str]] = []
        self.aborted_sections: list[str] = []
        self.backing: dict[str, bool] = {}
        self.notes: list[str] = []
        self.undecided: list[str] = []
        self.explanation = ''
        self.functions_analysed: set[str] = set()
        self.cfg_nodes = 0
        self.product_states = 0
        self.abstract_cases = 0
        self.beliefs: list[str] = []
        self.extra: dict = {}
        self._prog = None
        self._cfgs = {}
        self._rdefs = {}

    # ------------------------------------------------------------ program access
    @property
    def prog(self) -> Program:
        if self._prog is None:
            extra = ('examples',) if self.tier == 'thorough' else ()
            self._prog = Program(self.repo, extra_dirs=extra)
            try:
                exc_mod = self._prog.modules.get('exceptions')
                if exc_mod is not None:
                    for q, ci in self._prog.classes.items():
                        if ci.module is exc_mod:
                            parents = []
                            for c in ci.mro[1:]:
                                parents.append(c.name if hasattr(c, 'name') else str(c))
                            if 'Exception' in parents or 'EdzedError' in parents:
                                parents += ['Exception', 'BaseException']
                            register_exception(ci.name, parents)
            except Exception:       # pragma: no cover
                pass
        return self._prog

    def func(self, fid: str, rule: str = 'anchor') -> FuncInfo:
        if fid not in self.prog.funcs:
            raise AnalysisError(rule, f"anchor function {fid} not found")
        self.functions_analysed.add(fid)
        return self.prog.funcs[fid]

    def cfg(self, fid: str, model: str = 'M0') -> CFG:
        key = (fid, model)
        if key not in self._cfgs:
            fi = self.func(fid)
            g = CFG(fi.node, model, name=fid)
            self._cfgs[key] = g
            self.cfg_nodes += len(g.nodes)
        return self._cfgs[key]

    def rdefs(self, fid: str, model: str = 'M0'):
        from .dataflow import ReachingDefs
        key = (fid, model)
        if key not in self._rdefs:
            self._rdefs[key] = ReachingDefs(self.cfg(fid, model))
        return self._rdefs[key]

    # ------------------------------------------------------------ recording
    def rule(self, rid: str, sentence: str, model: str = 'M0', min_instances: int = 1) -> str:
        if rid not in self.rules:
            self.rules[rid] = Rule(rid, sentence, model, min_instances)
        return rid

    def section(self, label: str, backed_by: str | None = None, prefix: str | None = None):
        """Context manager around one rule section of a property's run(): an abstention of the
        section (AnalysisError: vanished anchor, unknown idiom) is recorded and the following
        sections still run, so that a violation they find is reported (exit 1 wins over exit 2).
        A section that needs a result of an abstained one (NameError) abstains too."""
        return _Section(self, label, backed_by, prefix)

    def need(self, rule: str, cond, reason: str) -> None:
        """An anchor / idiom precondition of the analysis itself (not of edzed)."""
        if not cond:
            raise AnalysisError(rule, reason)

    def ob(self, rule: str, construct: str, ok, msg: str = '', fi: FuncInfo | None = None,
           node=None, witness=None, shape: bool = False) -> bool:
        """Record one obligation (rule instance). `construct` is the stable key part.
        shape=True marks an obligation whose failure only says "the code does not have the form
        this rule knows how to read" (no witness path, no failing abstract case): such a failure is
        reported as ANALYSIS-ERROR (exit 2, the rule abstains), never as a VIOLATION."""
        if shape and not ok:
            if rule not in self.rules:
                raise AnalysisError(rule, "internal: rule not registered")
            self.rules[rule].count += 1
            line = getattr(node, 'lineno', None) or (fi.node.lineno if fi is not None else None)
            where = f"{fi.module.path}:{line}" if fi is not None else (node if isinstance(node, str) else '')
            self.analysis_errors.append((rule, f"unrecognised structure at {where} ({construct}): {msg}"))
            return False
        if rule not in self.rules:
            raise AnalysisError(rule, "internal: rule not registered")
        self.rules[rule].count += 1
        where = ''
        if fi is not None:
            line = getattr(node, 'lineno', None) or fi.node.lineno
            where = f"{fi.module.path}:{line}"
            self.functions_analysed.add(fi.fid)
        elif isinstance(node, str):
            where = node
        rec = {'rule': rule, 'construct': construct, 'ok': bool(ok), 'where': where,
               'msg': msg}
        if witness:
            rec['witness'] = witness
        self.obligations.append(rec)
        return bool(ok)

    def note(self, text: str) -> None:
        self.notes.append(text)
        if not self.quiet:
            print(f"NOTE {self.prop}: {text}")

    def belief(self, text: str) -> None:
        if text not in self.beliefs:
            self.beliefs.append(text)

    # ------------------------------------------------------------ finishing
    def _known(self):
        path = os.path.join(VERIF, 'known_findings.json')
        try:
            with open(path, encoding='utf-8') as f:
                data = json.load(f)
        except FileNotFoundError:
            return []
        return [e for e in data.get('findings', []) if e.get('property') == self.prop]

    def finish(self) -> int:
        for r in self.rules.values():
            if r.count < r.min_instances:
                self.analysis_errors.append(
                    (r.id, f"rule matched {r.count} construct(s), fewer than the "
                           f"{r.min_instances} confirmed by hand (vacuous pass refused)"))
        known = [e for e in self._known() if e.get('status') == 'known']
        failed = [o for o in self.obligations if not o['ok']]
        violations = []
        known_hits = []
        for o in failed:
            match = next((e for e in known
                          if e.get('rule') == o['rule'] and e.get('construct') == o['construct']),
                         None)
            if match is not None:
                known_hits.append((o, match))
            else:
                violations.append(o)
        out = []
        seen_known = set()
        for o, e in known_hits:
            k = (e['rule'], e['construct'])
            if k in seen_known:
                continue
            seen_known.add(k)
            out.append(f"KNOWN-FINDING: property={self.prop} {e.get('what', o['msg'])} "
                       f"[{o['rule']} {o['construct']} at {o['where']}]")
        os.makedirs(os.path.join(VERIF, 'replay'), exist_ok=True)
        seen_v = set()
        for o in violations:
            k = (o['rule'], o['construct'])
            if k in seen_v:
                continue
            seen_v.add(k)
            digest = hashlib.sha1(f"{self.prop}|{o['rule']}|{o['construct']}".encode()).hexdigest()[:10]
            rpath = os.path.join(VERIF, 'replay', f"{self.prop}-{o['rule']}-{digest}.json")
            try:
                with open(rpath, 'w', encoding='utf-8') as f:
                    json.dump({'property': self.prop, 'rule': o['rule'],
                               'sentence': self.rules[o['rule']].sentence,
                               'construct': o['construct'], 'where': o['where'],
                               'message': o['msg'], 'witness': o.get('witness'),
                               'repo': self.repo, 'tier': self.tier}, f, indent=1)
            except OSError:
                pass
            out.append(f"  {o['where']}: [{o['rule']}] {self.rules[o['rule']].sentence}")
            out.append(f"    construct: {o['construct']}")
            out.append(f"    {o['msg']}")
            for line in (o.get('witness') or [])[:40]:
                out.append(f"      | {line}")
            out.append(f"VIOLATION property={self.prop} replay={rpath}")
        for rid, reason in self.analysis_errors:
            out.append(f"ANALYSIS-ERROR property={self.prop} rule={rid} reason={reason}")
        if violations:
            code = 1
        elif self.analysis_errors:
            code = 2
        else:
            code = 0
        self._write_evidence(len(seen_v), [e for _, e in known_hits], code)
        if not self.quiet:
            for line in out:
                print(line)
            n = len(self.obligations)
            d = sum(1 for o in self.obligations if o['ok'])
            print(f"{self.prop} [{self.tier}] rules={len(self.rules)} obligations={n} "
                  f"discharged={d} violations={len(seen_v)} known={len(seen_known)} "
                  f"analysis_errors={len(self.analysis_errors)} functions={len(self.functions_analysed)} "
                  f"cfg_nodes={self.cfg_nodes} product_states={self.product_states} "
                  f"wall={time.time() - self.t0:.2f}s -> exit {code}")
        self.result_lines = out
        return code

    def _write_evidence(self, nviol: int, known_hits, code: int) -> None:
        if self.repo != '/repo' and os.path.abspath(self.repo) != '/repo' \
                and not os.environ.get('VERIF_EVIDENCE_ANYWAY'):
            return      # scratch-copy runs (self-validation) never rewrite the evidence
        pairs = {(o['rule'], o['construct']) for o in self.obligations}
        samples = []
        seen_rules = set()
        for o in self.obligations:
            if o['rule'] in seen_rules and len(samples) >= 8:
                continue
            seen_rules.add(o['rule'])
            samples.append({'rule': o['rule'], 'construct': o['construct'],
                            'where': o['where'], 'verdict': 'holds' if o['ok'] else 'VIOLATED',
                            'detail': o['msg'][:300]})
            if len(samples) >= 24:
                break
        ev = {
            'property_id': self.prop,
            'tier': self.tier,
            'seed': self.seed,
            'level': 'other',
            'coverage': {
                'explanation': self.explanation or
                    f"static analysis of /repo's source text for {self.prop}",
                'obligations': len(self.obligations),
                'discharged': sum(1 for o in self.obligations if o['ok']),
                'evaluations': len(self.obligations) + self.abstract_cases + self.product_states,
                'distinct_nontrivial': len(pairs),
                'rule': "one evaluation = one rule instance decided on one construct of the "
                        "current tree (plus abstract-domain cases and CFG x automaton product "
                        "states explored); distinct_nontrivial = distinct (rule, construct) pairs "
                        "that matched a real construct of /repo",
                'samples': samples,
                'rules': [{'id': r.id, 'sentence': r.sentence, 'fault_model': r.model,
                           'instances': r.count, 'min_instances': r.min_instances}
                          for r in self.rules.values()],
                'functions_analysed': sorted(self.functions_analysed),
                'cfg_nodes': self.cfg_nodes,
                'paths_or_states': self.product_states,
                'abstract_cases': self.abstract_cases,
                'undecided_clauses': self.undecided,
                'assumed_beliefs': self.beliefs,
                'known_findings_matched': [f"{e['rule']} {e['construct']}" for e in known_hits],
                'analysis_errors': [f"{r}: {why}" for r, why in self.analysis_errors],
                'notes': self.notes,
                'normalisation_steps': [' / '.join(str(x) for x in t) for t in
                                        getattr(self._prog, 'alpha_log', [])][:60]
                if getattr(self, '_prog', None) is not None else [],
                'exhaustive': False,
                'exit_code': code,
                **self.extra,
            },
            'assumptions': ASSUMPTIONS,
            'wall_s': round(time.time() - self.t0, 3),
            'violations': nviol,
        }
        os.makedirs(os.path.join(VERIF, 'evidence'), exist_ok=True)
        path = os.path.join(VERIF, 'evidence', f"{self.prop}.json")
        with open(path, 'w', encoding='utf-8') as f:
            json.dump(ev, f, indent=1, default=str)
            f.write('\n')


def path_witness(cfg: CFG, path) -> list[str]:
    return cfg.describe_path(path) if path else []
