"""
E9b -- a second, slightly wider finite abstract evaluator (used where a function touches its
arguments only through comparisons, None tests, isinstance tests and tuple unpacking, so that a
small grid of integers / None / pairs covers every equivalence class of inputs).

It interprets the AST of one small function itself; nothing from the repository is imported or
executed.  Values: None, bool, small ints, str (opaque; every f-string evaluates to the marker
MSG), tuples/lists of those.  Fragment:

  expressions  any sub-expression bound in the environment by its normalised text (symbolic
               input), walrus, + and - on numbers, calls of environment-bound callables (recorders),
               Name, Constant, Tuple/List (with *spread), Dict (with **spread), Subscript (index,
               slice, key; out-of-range / missing key -> fault routed to handlers), Compare (is, is not, ==, !=, <, <=, >, >=, in, not in),
               BoolOp, not, IfExp, f-strings (-> MSG), isinstance(x, int|str|tuple|list|bool|float)
               or a tuple of those, len(x), bool(x)
  statements   For over a concrete sequence, While (bounded), Break, Continue,
               If, Return, Assign (name or tuple-unpacking targets), Expr(docstring / logging),
               Pass, Raise (-> outcome ('raise', <exception name>)), Try with `except` clauses
               (an unpacking failure or comparison of None raises inside the evaluator and is
               routed to the first handler that names Exception, TypeError or ValueError)

Everything else raises AnalysisError (exit 2) -- never a guess.
"""
from __future__ import annotations

import ast
import copy

from .loader import AnalysisError, norm, is_logging_stmt

MSG = '<message>'

import functools as _functools
import operator as _operator

# Pure standard-library callables the evaluator knows by name (applied to small concrete values;
# a Python exception raised by one of them becomes a fault routed to the interpreted handlers).
_PURE_BUILTINS = {'all': all, 'any': any, 'sum': sum, 'sorted': sorted, 'tuple': tuple, 'list': list,
                  'set': set, 'frozenset': frozenset, 'map': lambda f, *s: list(map(f, *s)),
                  'filter': lambda f, s: list(filter(f, s)), 'bool': bool, 'len': len,
                  'enumerate': lambda s, start=0: list(enumerate(s, start)),
                  'iter': iter, 'next': next, 'dict': dict, 'callable': callable, 'str': str, 'repr': repr,
                  'min': min, 'max': max, 'abs': abs,
                  'range': lambda *a: list(range(*a)) if all(isinstance(x, int) and abs(x) < 1000 for x in a)
                  else (_ for _ in ()).throw(TypeError('range'))}
_PURE_DOTTED = {'functools.reduce': _functools.reduce, 'reduce': _functools.reduce}
for _n in ('xor', 'and_', 'or_', 'not_', 'truth', 'add', 'sub', 'mul', 'mod', 'eq', 'ne', 'lt', 'le',
           'gt', 'ge', 'is_', 'is_not', 'neg', 'contains'):
    _PURE_DOTTED[f'operator.{_n}'] = getattr(_operator, _n)
_NOBASE = object()
_CONTAINER_METHODS_OF = {
    'set': {'add', 'discard', 'remove', 'update', 'union', 'intersection', 'difference', 'copy', 'clear',
            'pop', 'issubset', 'issuperset', 'isdisjoint', 'symmetric_difference', 'difference_update',
            'intersection_update'},
    'frozenset': {'union', 'intersection', 'difference', 'copy', 'issubset', 'issuperset', 'isdisjoint',
                  'symmetric_difference'},
    'dict': {'get', 'items', 'keys', 'values', 'setdefault', 'update', 'pop', 'copy', 'clear', 'popitem'},
    'list': {'append', 'extend', 'insert', 'pop', 'remove', 'index', 'count', 'copy', 'sort', 'reverse',
             'clear'},
    'tuple': {'index', 'count'},
    'str': {'split', 'rsplit', 'strip', 'lstrip', 'rstrip', 'lower', 'upper', 'startswith', 'endswith',
            'replace', 'join', 'partition', 'rpartition', 'isdigit', 'isidentifier', 'removeprefix',
            'removesuffix', 'find', 'count', 'splitlines', 'isupper', 'islower', 'isalpha', 'title',
            'capitalize', 'casefold', 'zfill'},
}
_CONTAINER_METHODS = set().union(*_CONTAINER_METHODS_OF.values())


def _container_kind(v):
    for t in (str, dict, list, set, frozenset, tuple):
        if isinstance(v, t):
            return t.__name__
    raise KeyError(type(v).__name__)
_BITOPS = {ast.BitXor: _operator.xor, ast.BitAnd: _operator.and_, ast.BitOr: _operator.or_}


class _Ret(Exception):
    def __init__(self, v):
        self.v = v


class _Raised(Exception):
    def __init__(self, name):
        self.name = name


class _Break(Exception):
    pass


class _Continue(Exception):
    pass


class _Fault(Exception):
    """A run-time error of the interpreted code (TypeError / ValueError)."""
    def __init__(self, name):
        self.name = name


_TYPES = {'int': int, 'str': str, 'tuple': tuple, 'list': list, 'bool': bool, 'float': float, 'dict': dict,
          'MutableMapping': dict, 'Mapping': dict,
          'set': set, 'frozenset': frozenset}
import collections.abc as _cabc
_TYPES.update({'MutableMapping': _cabc.MutableMapping, 'Mapping': _cabc.Mapping, 'Sequence': _cabc.Sequence,
               'abc.MutableMapping': _cabc.MutableMapping, 'abc.Mapping': _cabc.Mapping,
               'abc.Sequence': _cabc.Sequence, 'Iterable': _cabc.Iterable})


class Sym(str):
    """A symbolic (opaque) operand.  Arithmetic on it builds Term objects instead of numbers."""


class Obj:
    """An opaque object of the environment with recording methods: `x.m(args, k=v)` on a name bound to
    an Obj calls methods['m'] (a Python callable supplied by the rule); `x.a` reads attrs['a']."""

    def __init__(self, name, methods=None, attrs=None):
        self.name = name
        self.methods = dict(methods or {})
        self.attrs = dict(attrs or {})

    def __repr__(self):
        return f'<{self.name}>'


class Term(tuple):
    """(operator name, left, right): an uninterpreted arithmetic term over Sym / numbers."""


_BINOPS = {ast.Add: '+', ast.Sub: '-', ast.Mult: '*', ast.Div: '/', ast.Mod: '%', ast.FloorDiv: '//'}


class MiniEval:
    def __init__(self, rule: str, env: dict, resolve=None, depth: int = 0, globals_=None):
        """resolve(text of the called expression) -> ast.FunctionDef | None : lets the evaluator
        step into small helper methods of the analysed program (self.<helper>(...)), so that an
        'extract method' refactoring does not change what is decided."""
        self.rule = rule
        self.env = dict(env)
        self.resolve = resolve
        self.depth = depth
        # module-level names (visible in every function that is stepped into, unlike the locals in env)
        self.globals = globals_ if globals_ is not None else {}
        self._exc_stack = []

    def fail(self, node, why=''):
        raise AnalysisError(self.rule, f"construct outside the mini-evaluator fragment: "
                            f"`{norm(node)[:80]}` {why}")

    def ev(self, e):
        if not isinstance(e, (ast.Constant, ast.Name)):
            t = norm(e)
            if t in self.env:           # a whole sub-expression bound as a symbolic input
                v = self.env[t]
                return v
        if isinstance(e, ast.Constant):
            return e.value
        if isinstance(e, ast.NamedExpr) and isinstance(e.target, ast.Name):
            self.env[e.target.id] = self.ev(e.value)
            return self.env[e.target.id]
        if isinstance(e, ast.BinOp) and type(e.op) in _BITOPS:
            l, r = self.ev(e.left), self.ev(e.right)
            if isinstance(l, (Sym, Term)) or isinstance(r, (Sym, Term)):
                self.fail(e, '(bit operation on a symbolic operand)')
            try:
                return _BITOPS[type(e.op)](l, r)
            except TypeError:
                raise _Fault('TypeError') from None
        if isinstance(e, ast.Call) and isinstance(e.func, ast.Name) and e.func.id not in self.env and \
                e.func.id in self.globals and isinstance(self.globals[e.func.id], type) and \
                issubclass(self.globals[e.func.id], tuple) and hasattr(self.globals[e.func.id], '_fields'):
            args_, kws_ = self._call_args(e)
            try:
                return self.globals[e.func.id](*args_, **kws_)
            except TypeError:
                raise _Fault('TypeError') from None
        if isinstance(e, ast.Attribute) and not isinstance(e.value, ast.Name) or (
                isinstance(e, ast.Attribute) and isinstance(e.value, ast.Name) and
                isinstance(self.env.get(e.value.id), tuple) and hasattr(self.env.get(e.value.id), '_fields')):
            if norm(e) not in self.env:
                try:
                    base_ = self.ev(e.value) if not (isinstance(e.value, ast.Attribute) and norm(e.value) not in self.env
                                                     and not isinstance(e.value.value, ast.Name)) else None
                except AnalysisError:
                    base_ = None
                if isinstance(base_, tuple) and hasattr(base_, '_fields') and e.attr in base_._fields:
                    return getattr(base_, e.attr)
        if isinstance(e, ast.Attribute) and e.attr == '__class__' and norm(e) not in self.env and 'type' in self.env:
            v_ = self.ev(e.value)
            if not isinstance(v_, (Obj, Sym, Term)):
                return type(v_)
        if isinstance(e, ast.Attribute) and e.attr == '__func__':
            return self.ev(e.value)         # the function wrapped by a staticmethod / bound method
        if isinstance(e, ast.Lambda):
            return self._closure(e.args, [ast.Return(value=e.body)], bound_method=False)
        if isinstance(e, (ast.Name, ast.Attribute)) and norm(e) not in self.env:
            fn_ = self._pure_callable(e)
            if fn_ is not None:
                return fn_
        if isinstance(e, (ast.ListComp, ast.GeneratorExp, ast.SetComp)):
            saved = dict(self.env)
            # the loop targets are local to the comprehension; a walrus target is not (PEP 572)
            tnames = {x.id for g_ in e.generators for x in ast.walk(g_.target) if isinstance(x, ast.Name)}

            def gen_(i):
                if i == len(e.generators):
                    yield self.ev(e.elt)
                    return
                g = e.generators[i]
                if g.is_async:
                    self.fail(e)
                seq = self.ev(g.iter)
                if not isinstance(seq, (list, tuple, set, frozenset, dict, str)):
                    raise _Fault('TypeError')
                for item in list(seq):
                    self.assign(g.target, item)
                    if all(self.ev(c) for c in g.ifs):
                        yield from gen_(i + 1)

            def restore():
                for k_ in tnames:
                    if k_ in saved:
                        self.env[k_] = saved[k_]
                    else:
                        self.env.pop(k_, None)

            def lazy():
                try:
                    yield from gen_(0)
                finally:
                    restore()
            if isinstance(e, ast.GeneratorExp):
                return lazy()           # consumed lazily by any / all / next / sum / tuple ...
            out_ = list(lazy())
            return set(out_) if isinstance(e, ast.SetComp) else out_
        if isinstance(e, ast.BinOp) and type(e.op) in _BINOPS:
            l, r = self.ev(e.left), self.ev(e.right)
            if isinstance(l, (Sym, Term)) or isinstance(r, (Sym, Term)):
                return Term((_BINOPS[type(e.op)], l, r))
            if not isinstance(e.op, (ast.Add, ast.Sub)):
                if isinstance(l, bool) or isinstance(r, bool) or not isinstance(l, (int, float)) \
                        or not isinstance(r, (int, float)):
                    raise _Fault('TypeError')
                try:
                    return {'*': l * r, '/': l / r if r else None, '%': l % r if r else None,
                            '//': l // r if r else None}[_BINOPS[type(e.op)]] if r or isinstance(e.op, ast.Mult) \
                        else (_ for _ in ()).throw(_Fault('ZeroDivisionError'))
                except ZeroDivisionError:
                    raise _Fault('ZeroDivisionError') from None
            if isinstance(e.op, ast.Add) and ((isinstance(l, tuple) and isinstance(r, tuple)) or
                                              (isinstance(l, list) and isinstance(r, list))):
                return l + r
            if isinstance(e.op, ast.Add) and isinstance(l, str) and isinstance(r, str):
                return MSG if MSG in (l, r) else l + r      # message texts are opaque
            if isinstance(l, bool) or isinstance(r, bool) or not isinstance(l, (int, float)) \
                    or not isinstance(r, (int, float)):
                raise _Fault('TypeError')
            return l + r if isinstance(e.op, ast.Add) else l - r
        if isinstance(e, ast.Name):
            if e.id in self.env:
                return self.env[e.id]
            if e.id in self.globals:
                return self.globals[e.id]
            self.fail(e, '(unbound name)')
        if isinstance(e, ast.JoinedStr):
            return MSG
        if isinstance(e, (ast.Tuple, ast.List)):
            vals = []
            for x in e.elts:
                if isinstance(x, ast.Starred):
                    sv = self.ev(x.value)
                    if not isinstance(sv, (tuple, list)):
                        raise _Fault('TypeError')
                    vals.extend(sv)
                else:
                    vals.append(self.ev(x))
            return tuple(vals) if isinstance(e, ast.Tuple) else vals
        if isinstance(e, ast.Set):
            try:
                return {self.ev(x) for x in e.elts}
            except TypeError:
                raise _Fault('TypeError') from None
        if isinstance(e, ast.Dict):
            out = {}
            for k, v in zip(e.keys, e.values):
                if k is None:
                    sv = self.ev(v)
                    if not isinstance(sv, dict):
                        raise _Fault('TypeError')
                    out.update(sv)
                else:
                    out[self.ev(k)] = self.ev(v)
            return out
        if isinstance(e, ast.Subscript):
            base = self.ev(e.value)
            if isinstance(e.slice, ast.Slice):
                if not isinstance(base, (tuple, list, str)):
                    raise _Fault('TypeError')
                lo = self.ev(e.slice.lower) if e.slice.lower is not None else None
                hi = self.ev(e.slice.upper) if e.slice.upper is not None else None
                if e.slice.step is not None:
                    self.fail(e)
                return base[lo:hi]
            key = self.ev(e.slice)
            if isinstance(base, dict):
                try:
                    if key not in base:
                        raise _Fault('KeyError')
                except TypeError:       # unhashable key
                    raise _Fault('TypeError') from None
                return base[key]
            if isinstance(base, (tuple, list, str)) and isinstance(key, int) and not isinstance(key, bool):
                if not -len(base) <= key < len(base):
                    raise _Fault('IndexError')
                return base[key]
            raise _Fault('TypeError')
        if isinstance(e, ast.BoolOp):
            v = None
            for x in e.values:
                v = self.ev(x)
                if isinstance(e.op, ast.And) and not v:
                    return v
                if isinstance(e.op, ast.Or) and v:
                    return v
            return v
        if isinstance(e, ast.UnaryOp) and isinstance(e.op, ast.Not):
            return not self.ev(e.operand)
        if isinstance(e, ast.UnaryOp) and isinstance(e.op, (ast.USub, ast.UAdd)):
            v = self.ev(e.operand)
            if isinstance(v, bool) or not isinstance(v, (int, float)):
                raise _Fault('TypeError')
            return -v if isinstance(e.op, ast.USub) else v
        if isinstance(e, ast.IfExp):
            return self.ev(e.body) if self.ev(e.test) else self.ev(e.orelse)
        if isinstance(e, ast.Compare):
            left = self.ev(e.left)
            for op, right_e in zip(e.ops, e.comparators):
                right = self.ev(right_e)
                if isinstance(op, ast.Is):
                    res = left is right
                elif isinstance(op, ast.IsNot):
                    res = left is not right
                elif isinstance(op, (ast.Eq, ast.NotEq)):
                    res = (left == right) if isinstance(op, ast.Eq) else (left != right)
                elif isinstance(op, (ast.In, ast.NotIn)):
                    if not isinstance(right, (tuple, list, str, set, frozenset, dict)):
                        raise _Fault('TypeError')
                    try:
                        res = (left in right) if isinstance(op, ast.In) else (left not in right)
                    except TypeError:
                        raise _Fault('TypeError') from None
                else:
                    if not isinstance(left, (int, float)) or not isinstance(right, (int, float)):
                        raise _Fault('TypeError')
                    res = {ast.Lt: left < right, ast.LtE: left <= right, ast.Gt: left > right,
                           ast.GtE: left >= right}[type(op)]
                if not res:
                    return False
                left = right
            return True
        if isinstance(e, ast.Call) and isinstance(e.func, ast.Attribute) and \
                isinstance(e.func.value, (ast.Name, ast.Attribute)) \
                and isinstance(self.env.get(norm(e.func.value)), Obj) and norm(e.func) not in self.env:
            obj = self.env[norm(e.func.value)]
            if e.func.attr not in obj.methods:
                self.fail(e, f'(no method {e.func.attr} on the environment object {obj!r})')
            args_, kws_ = self._call_args(e)
            try:
                return obj.methods[e.func.attr](*args_, **kws_)
            except (_Ret, _Raised, _Fault, _Break, _Continue, AnalysisError):
                raise
            except Exception as exc:
                raise _Fault(type(exc).__name__) from None
        if isinstance(e, ast.Call) and isinstance(e.func, ast.Attribute) and \
                isinstance(e.func.value, (ast.Call, ast.Subscript)) and norm(e.func) not in self.env:
            # a method of the value of a call / subscript: evaluated once, here
            base = self.ev(e.func.value)
            args_, kws_ = self._call_args(e)
            if isinstance(base, Obj):
                if e.func.attr not in base.methods:
                    self.fail(e, f'(no method {e.func.attr} on the environment object {base!r})')
                fn_ = base.methods[e.func.attr]
            elif (isinstance(base, (list, dict, set, frozenset, tuple)) or
                  (isinstance(base, str) and not isinstance(base, Sym))) and not kws_ and \
                    e.func.attr in _CONTAINER_METHODS_OF[_container_kind(base)]:
                fn_ = getattr(base, e.func.attr)
            elif base is None:
                raise _Fault('AttributeError')
            else:
                self.fail(e, '(method of a computed value)')
            try:
                out_ = fn_(*args_, **kws_)
            except (_Ret, _Raised, _Fault, _Break, _Continue, AnalysisError):
                raise
            except Exception as exc:
                raise _Fault(type(exc).__name__) from None
            if type(out_).__name__ in ('dict_items', 'dict_keys', 'dict_values'):
                out_ = list(out_)
            return out_
        if isinstance(e, ast.Attribute) and isinstance(e.value, ast.Name) and \
                isinstance(self.env.get(e.value.id), Obj) and e.attr in self.env[e.value.id].attrs:
            return self.env[e.value.id].attrs[e.attr]
        if isinstance(e, ast.Attribute) and isinstance(self.env.get(norm(e.value)), Obj) and \
                e.attr in self.env[norm(e.value)].attrs:
            return self.env[norm(e.value)].attrs[e.attr]
        if isinstance(e, ast.Attribute) and isinstance(e.value, ast.Attribute) and norm(e) not in self.env:
            root_ = e.value
            while isinstance(root_, ast.Attribute):
                root_ = root_.value
            if isinstance(root_, ast.Name) and isinstance(self.env.get(root_.id), Obj):
                base_ = self.ev(e.value)
                if isinstance(base_, Obj) and e.attr in base_.attrs:
                    return base_.attrs[e.attr]
        if isinstance(e, ast.Call) and norm(e.func) in self.env and callable(self.env[norm(e.func)]):
            args_, kws_ = self._call_args(e)
            if getattr(self.env[norm(e.func)], 'wants_me', False):
                kws_['_me'] = self         # a stand-in that re-enters the interpreted program
            try:
                return self.env[norm(e.func)](*args_, **kws_)
            except (_Ret, _Raised, _Fault, _Break, _Continue, AnalysisError):
                raise
            except Exception as exc:        # an environment callable modelling a failing user function
                flt_ = _Fault(type(exc).__name__)
                if isinstance(getattr(exc, 'mini_obj', None), Obj):
                    flt_.obj = exc.mini_obj
                raise flt_ from None
        if isinstance(e, ast.Call) and self.resolve is not None and self.depth < 3 and not e.keywords \
                and not any(isinstance(a, ast.Starred) for a in e.args):
            fn = self.resolve(norm(e.func))
            if fn is not None and not isinstance(fn, ast.AsyncFunctionDef):
                params = [a.arg for a in fn.args.posonlyargs + fn.args.args]
                recv_name = None
                if params and params[0] in ('self', 'cls') and isinstance(e.func, ast.Attribute):
                    recv_name = params[0]
                    params = params[1:]
                if len(params) == len(e.args):
                    child_env = {k: v for k, v in self.env.items() if not k.isidentifier() or k == '__setattr__'}
                    if recv_name and isinstance(e.func.value, ast.Name) and e.func.value.id in self.env:
                        child_env[recv_name] = self.env[e.func.value.id]
                    for p_, a_ in zip(params, e.args):
                        child_env[p_] = self.ev(a_)
                    child = MiniEval(self.rule, child_env, self.resolve, self.depth + 1, self.globals)
                    out = child.run(fn.body)
                    for k, v in child.env.items():      # attribute writes are visible to the caller
                        if not k.isidentifier():
                            self.env[k] = v
                    if out[0] == 'return':
                        return out[1]
                    if out[0] == 'raise':
                        raise _Raised(out[1])
                    raise _Fault(out[1])
        if isinstance(e, ast.Call) and not e.keywords and norm(e.func) not in self.env and \
                not (isinstance(e.func, ast.Name) and e.func.id in ('len', 'bool')):
            fn_ = None
            if isinstance(e.func, ast.Lambda):
                fn_ = self.ev(e.func)
            elif isinstance(e.func, (ast.Name, ast.Attribute)):
                fn_ = self._pure_callable(e.func)
            elif isinstance(e.func, (ast.IfExp, ast.Subscript, ast.BoolOp)):
                fn_ = self.ev(e.func)
                if not callable(fn_):
                    raise _Fault('TypeError')
            if fn_ is not None:
                args_ = []
                for a in e.args:
                    if isinstance(a, ast.Starred):
                        sv = self.ev(a.value)
                        if not isinstance(sv, (tuple, list)):
                            raise _Fault('TypeError')
                        args_.extend(sv)
                    else:
                        args_.append(self.ev(a))
                if any(isinstance(a, (Sym, Term)) for a in args_):
                    self.fail(e, '(pure call on a symbolic operand)')
                try:
                    return fn_(*args_)
                except (_Ret, _Raised, _Fault, _Break, _Continue, AnalysisError):
                    raise
                except Exception as exc:
                    raise _Fault(type(exc).__name__) from None
        if isinstance(e, ast.Call) and isinstance(e.func, ast.Attribute) and not e.keywords and \
                e.func.attr in _CONTAINER_METHODS:
            try:
                base = self.ev(e.func.value)
            except AnalysisError:
                base = _NOBASE
            if isinstance(base, (list, dict, set, frozenset, tuple)) or \
                    (isinstance(base, str) and not isinstance(base, Sym)):
                if e.func.attr not in _CONTAINER_METHODS_OF[_container_kind(base)]:
                    raise _Fault('AttributeError')
                args_, _ = self._call_args(e)
                if any(isinstance(a, (Sym, Term)) for a in args_) and isinstance(base, str):
                    self.fail(e, '(string method on a symbolic operand)')
                try:
                    out_ = getattr(base, e.func.attr)(*args_)
                except Exception as exc:
                    raise _Fault(type(exc).__name__) from None
                if type(out_).__name__ in ('dict_items', 'dict_keys', 'dict_values'):
                    out_ = list(out_)
                return out_
        if isinstance(e, ast.Call) and isinstance(e.func, ast.Attribute) and not e.keywords and \
                e.func.attr in ('replace', 'strip', 'lower', 'upper', 'startswith', 'endswith'):
            base = self.ev(e.func.value)
            if isinstance(base, str) and not isinstance(base, Sym):
                args_ = [self.ev(a) for a in e.args]
                if all(isinstance(a, (str, int)) for a in args_):
                    return getattr(base, e.func.attr)(*args_)
        if isinstance(e, ast.Call) and isinstance(e.func, ast.Name) and not e.keywords:
            if e.func.id == 'isinstance' and len(e.args) == 2:
                v = self.ev(e.args[0])
                t = e.args[1]
                names = [x for x in (t.elts if isinstance(t, ast.Tuple) else [t])]
                types = []
                for n in names:
                    if isinstance(n, (ast.Name, ast.Attribute)) and isinstance(self.env.get(norm(n)), type):
                        types.append(self.env[norm(n)])
                        continue
                    if isinstance(n, ast.Name) and n.id in self.globals and isinstance(self.globals[n.id], type):
                        types.append(self.globals[n.id])
                        continue
                    if not (isinstance(n, (ast.Name, ast.Attribute)) and norm(n) in _TYPES):
                        self.fail(e, '(isinstance against an unknown type)')
                    types.append(_TYPES[norm(n)])
                return isinstance(v, tuple(types))
            if e.func.id == 'len' and len(e.args) == 1:
                v = self.ev(e.args[0])
                if not isinstance(v, (tuple, list, str, set, frozenset, dict)):
                    raise _Fault('TypeError')
                return len(v)
            if e.func.id == 'bool' and len(e.args) == 1:
                return bool(self.ev(e.args[0]))
            if e.func.id in ('float', 'int') and len(e.args) == 1:
                v = self.ev(e.args[0])
                if isinstance(v, (Sym, Term)):
                    return Term((e.func.id, v, None))
                if isinstance(v, (int, float)) and not isinstance(v, bool):
                    return float(v) if e.func.id == 'float' else int(v)
                if isinstance(v, str):
                    try:
                        return float(v) if e.func.id == 'float' else int(v)
                    except ValueError:
                        raise _Fault('ValueError') from None
                raise _Fault('TypeError')
            if e.func.id == 'reversed' and len(e.args) == 1:
                v = self.ev(e.args[0])
                if not isinstance(v, (tuple, list, str)):
                    raise _Fault('TypeError')
                return list(reversed(v))
            if e.func.id == 'zip':
                vs = [self.ev(a) for a in e.args]
                if not all(isinstance(v, (tuple, list, str)) for v in vs):
                    raise _Fault('TypeError')
                return [tuple(t) for t in zip(*vs)]
            if e.func.id in ('max', 'min') and len(e.args) == 2:
                a_, b_ = self.ev(e.args[0]), self.ev(e.args[1])
                if all(isinstance(x, (int, float)) and not isinstance(x, bool) for x in (a_, b_)):
                    return max(a_, b_) if e.func.id == 'max' else min(a_, b_)
                raise _Fault('TypeError')
            if e.func.id == 'abs' and len(e.args) == 1:
                v = self.ev(e.args[0])
                if isinstance(v, bool) or not isinstance(v, (int, float)):
                    raise _Fault('TypeError')
                return abs(v)
        self.fail(e)

    _EXC_PARENTS = {'KeyError': 'LookupError', 'IndexError': 'LookupError', 'LookupError': 'Exception',
                    'ValueError': 'Exception', 'TypeError': 'Exception', 'RuntimeError': 'Exception',
                    'AttributeError': 'Exception', 'ZeroDivisionError': 'ArithmeticError',
                    'ArithmeticError': 'Exception', 'StopIteration': 'Exception', 'OSError': 'Exception',
                    'NotImplementedError': 'RuntimeError', 'RecursionError': 'RuntimeError',
                    'UnicodeError': 'ValueError', 'TimeoutError': 'OSError', 'AssertionError': 'Exception',
                    'EdzedError': 'Exception', 'EdzedCircuitError': 'EdzedError',
                    'EdzedInvalidState': 'EdzedError', 'EdzedUnknownEvent': 'EdzedError',
                    'CancelledError': 'BaseException', 'Exception': 'BaseException'}

    def _match_handler(self, handlers, exc):
        name = str(exc.name).split('(')[0].rsplit('.', 1)[-1]
        chain = [name]
        while chain[-1] in self._EXC_PARENTS:
            chain.append(self._EXC_PARENTS[chain[-1]])
        if chain[-1] != 'BaseException':
            chain += ['Exception', 'BaseException']      # an unknown class: an ordinary exception
        for h in handlers:
            if h.type is None:
                return h
            types_ = h.type.elts if isinstance(h.type, ast.Tuple) else [h.type]
            if any(norm(t).rsplit('.', 1)[-1] in chain for t in types_):
                return h
        return None

    def _call_args(self, e):
        args_ = []
        for a in e.args:
            if isinstance(a, ast.Starred):
                sv = self.ev(a.value)
                if not isinstance(sv, (tuple, list)):
                    raise _Fault('TypeError')
                args_.extend(sv)
            else:
                args_.append(self.ev(a))
        kws_ = {}
        for k in e.keywords:
            if k.arg is None:
                dv = self.ev(k.value)
                if not isinstance(dv, _cabc.Mapping) or any(not isinstance(k_, str) for k_ in dv):
                    raise _Fault('TypeError')
                kws_.update(dict(dv))
            else:
                kws_[k.arg] = self.ev(k.value)
        return args_, kws_

    def _pure_callable(self, f):
        """A Name / dotted name denoting a pure callable the evaluator can apply: a builtin of the
        table, functools.reduce / operator.*, or a function of the analysed program handed out by
        `resolve` (interpreted, not executed)."""
        t = norm(f)
        if isinstance(f, ast.Name) and f.id in _PURE_BUILTINS and (self.resolve is None or self.resolve(t) is None):
            return _PURE_BUILTINS[f.id]
        if t in _PURE_DOTTED:
            return _PURE_DOTTED[t]
        if self.resolve is not None and self.depth < 3:
            fn = self.resolve(t)
            if isinstance(fn, ast.FunctionDef):
                return self._closure(fn.args, fn.body, bound_method=isinstance(f, ast.Attribute))
        return None

    def _closure(self, args, body, bound_method, receiver=None):
        if args.kwarg or args.kwonlyargs:
            return None
        params = [a.arg for a in args.posonlyargs + args.args]
        recv_name = None
        if bound_method and params and params[0] in ('self', 'cls'):
            recv_name = params[0]
            params = params[1:]
        defaults = list(args.defaults)
        vararg = args.vararg.arg if args.vararg else None
        outer = self

        def call(*vals):
            if (len(vals) > len(params) and vararg is None) or len(vals) < len(params) - len(defaults):
                raise _Fault('TypeError')
            child_env = dict(outer.env)
            if recv_name is not None:
                child_env[recv_name] = receiver if receiver is not None else outer.env.get('self', outer.env.get('cls'))
            for p_, v_ in zip(params, vals):
                child_env[p_] = v_
            if vararg is not None:
                child_env[vararg] = tuple(vals[len(params):])
            for p_, d_ in zip(params[len(params) - len(defaults):], defaults):
                if params.index(p_) >= len(vals):
                    child_env[p_] = outer.ev(d_)
            child = MiniEval(outer.rule, child_env, outer.resolve, outer.depth + 1, outer.globals)
            out = child.run(body)
            for k, v in child.env.items():          # attribute writes are visible to the caller
                if not k.isidentifier():
                    outer.env[k] = v
            if out[0] == 'return':
                return out[1]
            if out[0] == 'raise':
                raise _Raised(out[1])
            raise _Fault(out[1])
        return call

    def _closure_live(self, fdef):
        """A local `def`: free variables are looked up in the defining evaluator's environment at
        call time (late binding, as Python does) and item / attribute stores are shared."""
        if fdef.args.kwarg or fdef.args.kwonlyargs or fdef.args.vararg:
            return None
        params = [a.arg for a in fdef.args.posonlyargs + fdef.args.args]
        defaults = list(fdef.args.defaults)
        outer = self

        def call(*vals, **kws):
            if len(vals) > len(params):
                raise _Fault('TypeError')
            bound = dict(zip(params, vals))
            for k, v in kws.items():
                if k in bound or k not in params:
                    raise _Fault('TypeError')
                bound[k] = v
            for p_, d_ in zip(params[len(params) - len(defaults):], defaults):
                if p_ not in bound:
                    bound[p_] = outer.ev(d_)
            if len(bound) != len(params):
                raise _Fault('TypeError')
            child_env = dict(outer.env)
            child_env.update(bound)
            child = MiniEval(outer.rule, child_env, outer.resolve, outer.depth + 1, outer.globals)
            out = child.run(fdef.body)
            for k, v in child.env.items():
                if not k.isidentifier():
                    outer.env[k] = v
            if out[0] == 'return':
                return out[1]
            if out[0] == 'raise':
                raise _Raised(out[1])
            raise _Fault(out[1])
        return call

    def assign(self, target, value):
        if isinstance(target, ast.Name):
            self.env[target.id] = value
        elif isinstance(target, ast.Subscript):
            base = self.ev(target.value)
            if isinstance(base, dict):
                try:
                    base[self.ev(target.slice)] = value
                except TypeError:
                    raise _Fault('TypeError') from None
            elif isinstance(base, list):
                idx = self.ev(target.slice)
                if not isinstance(idx, int) or not -len(base) <= idx < len(base):
                    raise _Fault('IndexError')
                base[idx] = value
            else:
                raise _Fault('TypeError')
        elif isinstance(target, ast.Attribute):
            key = norm(target)
            hook = self.env.get('__setattr__')
            if callable(hook):
                hook(key, value)
            self.env[key] = value
        elif isinstance(target, (ast.Tuple, ast.List)):
            if not isinstance(value, (tuple, list)):
                raise _Fault('TypeError')
            if len(value) != len(target.elts):
                raise _Fault('ValueError')
            for t, v in zip(target.elts, value):
                self.assign(t, v)
        else:
            self.fail(target)

    def block(self, stmts):
        for st in stmts:
            if isinstance(st, ast.Return):
                raise _Ret(self.ev(st.value) if st.value is not None else None)
            if isinstance(st, ast.If):
                self.block(st.body if self.ev(st.test) else st.orelse)
            elif isinstance(st, ast.Assign):
                val_ = self.ev(st.value)
                for tg_ in st.targets:          # a = b = value: evaluated once, stored left to right
                    self.assign(tg_, val_)
            elif is_logging_stmt(st):
                continue
            elif isinstance(st, ast.Expr) and isinstance(st.value, ast.Constant):
                continue
            elif isinstance(st, ast.Expr) and isinstance(st.value, ast.Call) and \
                    norm(st.value.func).startswith(('_logger.', 'self.log_', 'logging.')):
                continue
            elif isinstance(st, ast.Expr) and isinstance(st.value, ast.Call) and \
                    norm(st.value.func) in self.env:
                self.ev(st.value)
            elif isinstance(st, (ast.Pass, ast.Assert)):
                continue
            elif isinstance(st, ast.Expr) and isinstance(st.value, (ast.Call, ast.Await)) is True and \
                    isinstance(st.value, ast.Call):
                self.ev(st.value)           # a call for its effect (environment object / helper)
            elif isinstance(st, ast.Delete):
                for t in st.targets:
                    if isinstance(t, ast.Subscript):
                        base = self.ev(t.value)
                        key = self.ev(t.slice)
                        try:
                            del base[key]
                        except (KeyError, IndexError, TypeError) as exc:
                            raise _Fault(type(exc).__name__) from None
                    elif isinstance(t, ast.Name):
                        self.env.pop(t.id, None)
                    else:
                        self.fail(st)
            elif isinstance(st, ast.FunctionDef) and not st.decorator_list:
                fn_ = self._closure_live(st)
                if fn_ is None:
                    self.fail(st, '(local function with an unsupported signature)')
                self.env[st.name] = fn_
            elif isinstance(st, ast.Raise):
                exc = st.exc
                name = None
                if isinstance(exc, ast.Call):
                    name = norm(exc.func)
                elif exc is not None:
                    name = norm(exc)
                if name is None and self._exc_stack:
                    raise self._exc_stack[-1]
                raise _Raised(name or 're-raise')
            elif isinstance(st, ast.AugAssign) and type(st.op) in _BINOPS:
                load = copy.copy(st.target)
                load.ctx = ast.Load()
                self.assign(st.target, self.ev(ast.BinOp(left=load, op=st.op, right=st.value)))
            elif isinstance(st, ast.For):
                seq = self.ev(st.iter)
                if not isinstance(seq, (list, tuple, set, frozenset, dict, str, _cabc.Mapping)) and \
                        type(seq).__name__ != 'generator':
                    raise _Fault('TypeError')
                broke = False
                for item in list(seq):
                    self.assign(st.target, item)
                    try:
                        self.block(st.body)
                    except _Break:
                        broke = True
                        break
                    except _Continue:
                        continue
                if not broke and st.orelse:
                    self.block(st.orelse)
            elif isinstance(st, ast.While) and not st.orelse:
                n_ = 0
                while self.ev(st.test):
                    n_ += 1
                    if n_ > 64:
                        self.fail(st, '(loop bound of the mini-evaluator exceeded)')
                    try:
                        self.block(st.body)
                    except _Break:
                        break
                    except _Continue:
                        continue
            elif isinstance(st, ast.Break):
                raise _Break()
            elif isinstance(st, ast.Continue):
                raise _Continue()
            elif isinstance(st, ast.Try):
                try:
                    try:
                        self.block(st.body)
                    except (_Fault, _Raised) as exc:
                        h = self._match_handler(st.handlers, exc)
                        if h is None:
                            raise
                        if h.name:
                            # a failing stand-in may hand over an object for `except ... as err`
                            self.env[h.name] = getattr(exc, 'obj', None) or f'<{exc.name}>'
                        self._exc_stack.append(exc)
                        try:
                            self.block(h.body)
                        finally:
                            self._exc_stack.pop()
                    else:
                        self.block(st.orelse)
                finally:
                    if st.finalbody:
                        self.block(st.finalbody)
            elif isinstance(st, ast.With):
                ctxs = []
                for item in st.items:
                    cm = self.ev(item.context_expr)
                    if not isinstance(cm, Obj):
                        self.fail(st, '(context manager that is not an environment object)')
                    val = cm.methods['__enter__']() if '__enter__' in cm.methods else cm
                    if item.optional_vars is not None:
                        self.assign(item.optional_vars, val)
                    ctxs.append(cm)
                try:
                    self.block(st.body)
                finally:
                    for cm in reversed(ctxs):
                        if '__exit__' in cm.methods:
                            cm.methods['__exit__']()
            else:
                self.fail(st)

    def run(self, stmts):
        """-> ('return', value) | ('raise', name) | ('fault', name)"""
        try:
            self.block(stmts)
        except _Ret as r:
            return ('return', r.v)
        except _Raised as r:
            return ('raise', r.name)
        except _Fault as f:
            return ('fault', f.name)
        return ('return', None)


class ModuleGlobals(dict):
    """Module-level names for MiniEval(globals_=...): explicit entries first, then the module's
    constant bindings folded from the source (sa.tables.fold) on demand."""

    def __init__(self, prog, mod, extra=None):
        super().__init__(extra or {})
        self._prog, self._mod = prog, mod
        self._missing = set()

    def _try(self, name):
        if dict.__contains__(self, name) or name in self._missing:
            return
        from .tables import fold, Unfoldable
        b = self._prog.lookup(self._mod, name)
        if b is not None and b[0] == 'class' and any(
                norm(x).endswith('NamedTuple') for x in b[1].node.bases):
            # a NamedTuple class of the analysed module: its instances are plain (named) tuples
            import collections
            fields, defaults = [], []
            for st in b[1].node.body:
                if isinstance(st, ast.AnnAssign) and isinstance(st.target, ast.Name):
                    fields.append(st.target.id)
                    if st.value is not None:
                        try:
                            defaults.append(MiniEval('module constant', {}, globals_=self).ev(st.value))
                        except (AnalysisError, _Fault, _Raised):
                            fields = None
                            break
            if fields:
                dict.__setitem__(self, name, collections.namedtuple(name, fields, defaults=defaults or None))
                return
        if b is not None and b[0] == 'value':
            try:
                dict.__setitem__(self, name, fold(self._prog, self._mod, b[1]))
                return
            except (Unfoldable, AnalysisError, TypeError, ValueError):
                pass
            # not a literal table: a constant expression over pure builtins (frozenset(range(1, 8)) ...)
            self._missing.add(name)         # (guards against self-reference while evaluating)
            try:
                val = MiniEval('module constant', {}, globals_=self).ev(b[1])
            except (AnalysisError, _Fault, _Raised, RecursionError):
                return
            self._missing.discard(name)
            dict.__setitem__(self, name, val)
            return
        self._missing.add(name)

    def __contains__(self, name):
        self._try(name)
        return dict.__contains__(self, name)

    def __getitem__(self, name):
        self._try(name)
        return dict.__getitem__(self, name)
