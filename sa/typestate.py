"""
E7 -- typestate / path-language inclusion.

A rule supplies a mapping CFG node -> list of abstract events and a specification written as
a regular expression over event symbols. The product CFG x (subset-constructed) NFA is explored;
a shortest CFG path whose event word is not in the specification language is returned.

Specification syntax: symbols are identifiers; juxtaposition = concatenation; `|` `*` `+` `?`
and parentheses as usual; whitespace separates symbols.
"""
from __future__ import annotations

import re
from collections import deque

from .loader import AnalysisError

_TOK = re.compile(r"\s*([A-Za-z_][A-Za-z0-9_.:'-]*|[()|*+?])")


class NFA:
    def __init__(self, spec: str):
        self.spec = spec
        self.trans: list[dict] = []     # state -> {symbol: set(states)}
        self.eps: list[set] = []
        toks = []
        pos = 0
        spec_s = spec.strip()
        while pos < len(spec_s):
            m = _TOK.match(spec_s, pos)
            if not m:
                raise AnalysisError('E7', f"bad specification near {spec_s[pos:pos+20]!r}")
            toks.append(m.group(1))
            pos = m.end()
        self.toks = toks
        self.i = 0
        self.symbols = {t for t in toks if t not in '()|*+?'}
        s, e = self._alt()
        if self.i != len(toks):
            raise AnalysisError('E7', f"unbalanced specification {spec!r}")
        self.start = s
        self.accept = e

    def _state(self):
        self.trans.append({})
        self.eps.append(set())
        return len(self.trans) - 1

    def _alt(self):
        frags = [self._concat()]
        while self.i < len(self.toks) and self.toks[self.i] == '|':
            self.i += 1
            frags.append(self._concat())
        if len(frags) == 1:
            return frags[0]
        s, e = self._state(), self._state()
        for fs, fe in frags:
            self.eps[s].add(fs)
            self.eps[fe].add(e)
        return s, e

    def _concat(self):
        frags = []
        while self.i < len(self.toks) and self.toks[self.i] not in '|)':
            frags.append(self._rep())
        if not frags:
            s = self._state()
            return s, s
        s, e = frags[0]
        for fs, fe in frags[1:]:
            self.eps[e].add(fs)
            e = fe
        return s, e

    def _rep(self):
        s, e = self._atom()
        while self.i < len(self.toks) and self.toks[self.i] in '*+?':
            op = self.toks[self.i]
            self.i += 1
            ns, ne = self._state(), self._state()
            self.eps[ns].add(s)
            self.eps[e].add(ne)
            if op in '*?':
                self.eps[ns].add(ne)
            if op in '*+':
                self.eps[e].add(s)
            s, e = ns, ne
        return s, e

    def _atom(self):
        t = self.toks[self.i]
        if t == '(':
            self.i += 1
            fr = self._alt()
            if self.i >= len(self.toks) or self.toks[self.i] != ')':
                raise AnalysisError('E7', f"missing ')' in {self.spec!r}")
            self.i += 1
            return fr
        if t in ')|*+?':
            raise AnalysisError('E7', f"unexpected {t!r} in {self.spec!r}")
        self.i += 1
        s, e = self._state(), self._state()
        self.trans[s].setdefault(t, set()).add(e)
        return s, e

    def closure(self, states) -> frozenset:
        seen = set(states)
        stack = list(states)
        while stack:
            x = stack.pop()
            for y in self.eps[x]:
                if y not in seen:
                    seen.add(y)
                    stack.append(y)
        return frozenset(seen)

    def initial(self) -> frozenset:
        return self.closure({self.start})

    def step(self, states: frozenset, sym: str) -> frozenset:
        nxt = set()
        for s in states:
            nxt |= self.trans[s].get(sym, set())
        return self.closure(nxt)

    def accepts(self, states: frozenset) -> bool:
        return self.accept in states

    def matches(self, word) -> bool:
        st = self.initial()
        for w in word:
            st = self.step(st, w)
        return self.accepts(st)


def check_language(cfg, spec: str, events, exits, start=None, labels_excluded=(),
                   prune_tests=False):
    """
    Explore CFG x NFA. `events(node) -> list[str]` (symbols emitted when the node executes;
    symbols outside the specification alphabet raise AnalysisError). `exits`: iterable of CFG
    nodes at which the word must be accepted.

    Returns (ok, witness, stats) -- witness = (path nodes, word) of a shortest rejecting run.
    """
    nfa = NFA(spec)
    exit_ids = {e.id for e in exits}
    start = start or cfg.entry
    ev_cache = {}

    def ev(nid):
        if nid not in ev_cache:
            syms = list(events(cfg.nodes[nid]) or [])
            for s in syms:
                if s not in nfa.symbols:
                    raise AnalysisError('E7', f"event {s!r} is not in the alphabet of {spec!r}")
            ev_cache[nid] = syms
        return ev_cache[nid]

    def advance(states, nid):
        for s in ev(nid):
            states = nfa.step(states, s)
        return states

    def facts_after(facts, nid):
        if not prune_tests:
            return facts
        from .cfg import _facts_after
        return _facts_after(cfg, facts, nid)

    init = (start.id, advance(nfa.initial(), start.id), frozenset())
    prev = {init: None}
    dq = deque([init])
    n_states = 0
    while dq:
        cur = dq.popleft()
        n_states += 1
        nid, states, facts = cur
        if nid in exit_ids and not nfa.accepts(states):
            # rebuild the witness
            chain = []
            c = cur
            while c is not None:
                chain.append(c)
                c = prev[c]
            chain.reverse()
            path = [cfg.nodes[c[0]] for c in chain]
            word = [s for c in chain for s in ev(c[0])]
            return False, (path, word), {'product_states': n_states}
        for v, lab in cfg.succ[nid]:
            if lab in labels_excluded:
                continue
            nf = facts_after(facts, v)
            if nf is None:
                continue        # contradicts the outcome of an earlier, still valid test
            nxt = (v, advance(states, v), nf)
            if nxt not in prev:
                prev[nxt] = cur
                dq.append(nxt)
    return True, None, {'product_states': n_states}
