"""
E7 -- typestate / path-language inclusion.

A rule supplies a mapping CFG node -> list of abstract events and a specification written as
a regular expression over event symbols. The product CFG x (subset-constructed) NFA is explored;
a shortest CFG path whose event word is not in the specification language is returned.

Specification syntax: symbols are identifiers; juxtaposition = concatenation; `|` `*` `+` `?`
and parentheses as usual; whitespace separates symbols.
"""
from __future__ import annotations

import re
from collections import deque

from .loader import AnalysisError

_TOK = re.compile(r"\s*([A-Za-z_][A-Za-z0-9_.:'-]*|[()|*+?])")


class NFA:
    def __init__(self, spec: str):
        self.spec = spec
        self.trans: list[dict] = []     # state -> {symbol: set(states)}
        self.eps: list[set] = []
        toks = []
        pos = 0
        spec_s = spec.strip()
        while pos < len(spec_s):
            m = _TOK.match(spec_s, pos)
            if not m:
                raise AnalysisError('E7', f"bad specification near {spec_s[pos:pos+20]!r}")
            toks.append(m.group(1))
            pos = m.end()
        self.toks = toks
        self.i = 0
        self.symbols = {t for t in toks if t not in '()|*+?'}
        s, e = self._alt()
        if self.i != len(toks):
            raise AnalysisError('E7', f"unbalanced specification {spec!r}")
        self.start = s
        self.accept = e

    def _state(self):
        self.trans.append({})
        self.eps.append(set())
        return len(self.trans) - 1

    def _alt(self):
        frags = [self._concat()]
        while self.i < len(self.toks) and self.toks[self.i] == '|':
            self.i += 1
            frags.append(self._concat())
        if len(frags) == 1:
            return frags[0]
        s, e = self._state(), self._state()
        for fs, fe in frags:
            self.eps[s].add(fs)
            self.eps[fe].add(e)
        return s, e

    def _concat(self):
        frags = []
        while self.i < len(self.toks) and self.toks[self.i] not in '|)':
            frags.append(self._rep())
        if not frags:
            s = self._state()
            return s, s
        s, e = frags[0]
        for fs, fe in frags[1:]:
            self.eps[e].add(fs)
            e = fe
        return s, e

    def _rep(self):
        s, e = self._atom()
        while self.i < len(self.toks) and self.toks[self.i] in '*+?':
            op = self.toks[self.i]
            self.i += 1
            ns, ne = self._state(), self._state()
            self.eps[ns].add(s)
            self.eps[e].add(ne)
            if op in '*?':
                self.eps[ns].add(ne)
            if op in '*+':
                self.eps[e].add(s)
            s, e = ns, ne
        return s, e

    def _atom(self):
        t = self.toks[self.i]
        if t == '(':
            self.i += 1
            fr = self._alt()
            if self.i >= len(self.toks) or self.toks[self.i] != ')':
                raise AnalysisError('E7', f"missing ')' in {self.spec!r}")
            self.i += 1
            return fr
        if t in ')|*+?':
            raise AnalysisError('E7', f"unexpected {t!r} in {self.spec!r}")
        self.i += 1
        s, e = self._state(), self._state()
        self.trans[s].setdefault(t, set()).add(e)
        return s, e

    def closure(self, states) -> frozenset:
        seen = set(states)
        stack = list(states)
        while stack:
            x = stack.pop()
            for y in self.eps[x]:
                if y not in seen:
                    seen.add(y)
                    stack.append(y)
        return frozenset(seen)

    def initial(self) -> frozenset:
        return self.closure({self.start})

    def step(self, states: frozenset, sym: str) -> frozenset:
        nxt = set()
        for s in states:
            nxt |= self.trans[s].get(sym, set())
        return self.closure(nxt)

    def accepts(self, states: frozenset) -> bool:
        return self.accept in states

    def matches(self, word) -> bool:
        st = self.initial()
        for w in word:
            st = self.step(st, w)
        return self.accepts(st)


_PURE_ITER = {'range', 'len', 'enumerate', 'zip', 'list', 'tuple', 'sorted', 'reversed', 'iter'}


def _test_key(test):
    """(subject text, polarity-if-true) for a pure test of a name / attribute, else None.
    `E`, `not E`, `E is None`, `E is not None` are all tests on the truthiness-ish state of E
    (E is None => E falsy; only used to find *contradictions* between two tests of the same
    form, so each form is keyed separately except for the `not` wrapper)."""
    import ast as _ast
    from .loader import norm as _norm
    pol = True
    while isinstance(test, _ast.UnaryOp) and isinstance(test.op, _ast.Not):
        test = test.operand
        pol = not pol
    if isinstance(test, (_ast.Name, _ast.Attribute)):
        return ('truth', _norm(test)), pol
    if isinstance(test, _ast.Compare) and len(test.ops) == 1 and \
            isinstance(test.ops[0], (_ast.Is, _ast.IsNot)) and \
            isinstance(test.comparators[0], _ast.Constant) and test.comparators[0].value is None \
            and isinstance(test.left, (_ast.Name, _ast.Attribute)):
        if isinstance(test.ops[0], _ast.IsNot):
            pol = not pol
        return ('isnone', _norm(test.left)), pol
    return None


def _invalidates(node) -> bool:
    """May executing this node change the value of a tested name/attribute?"""
    import ast as _ast
    from .loader import walk_shallow as _ws, call_name as _cn
    a = node.ast
    if a is None or node.kind in ('branch', 'entry', 'exit', 'raise', 'join', 'dispatch', 'handler'):
        return False
    roots = [a.iter] if node.kind == 'for' else ([i.context_expr for i in a.items]
                                                 if node.kind in ('with',) else [a])
    if node.kind == 'with_exit':
        return True
    for r in roots:
        if isinstance(r, (_ast.Assign, _ast.AugAssign, _ast.AnnAssign, _ast.Delete)):
            return True
        for x in _ws(r):
            if isinstance(x, _ast.Await):
                return True
            if isinstance(x, _ast.Call):
                if node.kind == 'for' and _cn(x) in _PURE_ITER:
                    continue
                if _cn(x) in ('log_debug', 'log_info', 'log_warning', 'log_error', 'isinstance'):
                    continue
                return True
            if isinstance(x, _ast.NamedExpr):
                return True
    return False


def check_language(cfg, spec: str, events, exits, start=None, labels_excluded=(),
                   prune_tests=False):
    """
    Explore CFG x NFA. `events(node) -> list[str]` (symbols emitted when the node executes;
    symbols outside the specification alphabet raise AnalysisError). `exits`: iterable of CFG
    nodes at which the word must be accepted.

    Returns (ok, witness, stats) -- witness = (path nodes, word) of a shortest rejecting run.
    """
    nfa = NFA(spec)
    exit_ids = {e.id for e in exits}
    start = start or cfg.entry
    ev_cache = {}

    def ev(nid):
        if nid not in ev_cache:
            syms = list(events(cfg.nodes[nid]) or [])
            for s in syms:
                if s not in nfa.symbols:
                    raise AnalysisError('E7', f"event {s!r} is not in the alphabet of {spec!r}")
            ev_cache[nid] = syms
        return ev_cache[nid]

    def advance(states, nid):
        for s in ev(nid):
            states = nfa.step(states, s)
        return states

    def facts_after(facts, nid):
        """Known outcomes of pure tests, updated by executing node nid; None = infeasible."""
        if not prune_tests:
            return facts
        n = cfg.nodes[nid]
        if n.kind == 'branch':
            k = _test_key(n.test.ast)
            if k is None:
                return facts
            key, pol_if_true = k
            outcome = pol_if_true if n.polarity else (not pol_if_true)
            d = dict(facts)
            if key in d and d[key] != outcome:
                return None
            d[key] = outcome
            return frozenset(d.items())
        if n.kind == 'stmt' and n.ast is not None and type(n.ast).__name__ == 'Assert':
            k = _test_key(n.ast.test)
            if k is not None:       # a stated belief of the authors
                d = dict(facts)
                d[k[0]] = k[1]
                return frozenset(d.items())
            return facts
        if facts and _invalidates(n):
            return frozenset()
        return facts

    init = (start.id, advance(nfa.initial(), start.id), frozenset())
    prev = {init: None}
    dq = deque([init])
    n_states = 0
    while dq:
        cur = dq.popleft()
        n_states += 1
        nid, states, facts = cur
        if nid in exit_ids and not nfa.accepts(states):
            # rebuild the witness
            chain = []
            c = cur
            while c is not None:
                chain.append(c)
                c = prev[c]
            chain.reverse()
            path = [cfg.nodes[c[0]] for c in chain]
            word = [s for c in chain for s in ev(c[0])]
            return False, (path, word), {'product_states': n_states}
        for v, lab in cfg.succ[nid]:
            if lab in labels_excluded:
                continue
            nf = facts_after(facts, v)
            if nf is None:
                continue        # contradicts the outcome of an earlier, still valid test
            nxt = (v, advance(states, v), nf)
            if nxt not in prev:
                prev[nxt] = cur
                dq.append(nxt)
    return True, None, {'product_states': n_states}
