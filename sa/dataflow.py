"""
E4 -- reaching definitions for local names (and `self.attr` pseudo-variables) inside one
function, on an E2 graph.
"""
from __future__ import annotations

import ast

from .loader import walk_shallow, norm
from .cfg import CFG, Node


def _targets(t, acc):
    if isinstance(t, ast.Name):
        acc.append(t.id)
    elif isinstance(t, (ast.Tuple, ast.List)):
        for e in t.elts:
            _targets(e, acc)
    elif isinstance(t, ast.Starred):
        _targets(t.value, acc)
    elif isinstance(t, ast.Attribute) and isinstance(t.value, ast.Name) and t.value.id == 'self':
        acc.append(f"self.{t.attr}")


def node_defs(n: Node) -> list[str]:
    """Names (and `self.x`) defined by a CFG node."""
    acc: list[str] = []
    a = n.ast
    if a is None or n.kind in ('branch', 'entry', 'exit', 'raise', 'with_exit'):
        return acc
    if n.kind == 'for':
        _targets(a.target, acc)
        roots = [a.iter]
    elif n.kind == 'with':
        for it in a.items:
            if it.optional_vars is not None:
                _targets(it.optional_vars, acc)
        roots = [it.context_expr for it in a.items]
    elif n.kind == 'handler':
        if a.name:
            acc.append(a.name)
        roots = []
    elif n.kind == 'test':
        roots = [a]
    else:
        roots = [a]
        if isinstance(a, ast.Assign):
            for t in a.targets:
                _targets(t, acc)
        elif isinstance(a, (ast.AugAssign, ast.AnnAssign)):
            if not (isinstance(a, ast.AnnAssign) and a.value is None):
                _targets(a.target, acc)
        elif isinstance(a, (ast.FunctionDef, ast.AsyncFunctionDef, ast.ClassDef)):
            acc.append(a.name)
            roots = []
        elif isinstance(a, (ast.Import, ast.ImportFrom)):
            for al in a.names:
                acc.append((al.asname or al.name).split('.')[0])
        elif isinstance(a, ast.Delete):
            for t in a.targets:
                _targets(t, acc)
    for r in roots:
        for x in walk_shallow(r):
            if isinstance(x, ast.NamedExpr) and isinstance(x.target, ast.Name):
                acc.append(x.target.id)
    return acc


def node_uses(n: Node) -> set[str]:
    """Names loaded by a CFG node (incl. `self.x` loads)."""
    a = n.ast
    res: set[str] = set()
    if a is None or n.kind in ('branch', 'entry', 'exit', 'raise', 'with_exit', 'handler'):
        return res
    if n.kind == 'for':
        roots = [a.iter]
    elif n.kind == 'with':
        roots = [it.context_expr for it in a.items]
    else:
        roots = [a]
    for r in roots:
        if isinstance(r, (ast.FunctionDef, ast.AsyncFunctionDef, ast.ClassDef)):
            continue
        for x in walk_shallow(r):
            if isinstance(x, ast.Name) and isinstance(x.ctx, ast.Load):
                res.add(x.id)
            elif isinstance(x, ast.Attribute) and isinstance(x.ctx, ast.Load) \
                    and isinstance(x.value, ast.Name) and x.value.id == 'self':
                res.add(f"self.{x.attr}")
    return res


class ReachingDefs:
    """IN[n] = set of (name, def node id); parameters are defined at the entry node."""

    def __init__(self, cfg: CFG):
        self.cfg = cfg
        fn = cfg.func_node
        params = []
        args = fn.args
        for a in list(args.posonlyargs) + list(args.args) + list(args.kwonlyargs):
            params.append(a.arg)
        if args.vararg:
            params.append(args.vararg.arg)
        if args.kwarg:
            params.append(args.kwarg.arg)
        self.params = params
        self.gen = {}
        for n in cfg.nodes:
            self.gen[n.id] = set(node_defs(n))
        self.gen[cfg.entry.id] = set(params)
        reach = cfg.reachable()
        IN = {i: set() for i in reach}
        OUT = {i: set() for i in reach}
        work = list(reach)
        while work:
            i = work.pop()
            new_in = set()
            for p, _lab in cfg.pred[i]:
                if p in OUT:
                    new_in |= OUT[p]
            IN[i] = new_in
            g = self.gen[i]
            if g:
                out = {(nm, d) for (nm, d) in new_in if nm not in g} | {(nm, i) for nm in g}
            else:
                out = new_in
            if out != OUT[i]:
                OUT[i] = out
                for s, _lab in cfg.succ[i]:
                    if s in reach:
                        work.append(s)
        self.IN = IN
        self.OUT = OUT

    def defs_at(self, node: Node, name: str) -> list[Node]:
        """Definitions of `name` reaching the entry of `node`."""
        return [self.cfg.nodes[d] for (nm, d) in sorted(self.IN.get(node.id, ()),
                                                       key=lambda x: x[1]) if nm == name]

    def value_exprs(self, node: Node, name: str) -> list:
        """The right-hand sides of the definitions of `name` reaching `node`; 'param' for a
        parameter; 'opaque:<kind>' for loop / with / handler / unpacking definitions."""
        res = []
        for d in self.defs_at(node, name):
            if d.kind == 'entry':
                res.append('param')
            elif d.kind == 'stmt' and isinstance(d.ast, ast.Assign) and \
                    any(isinstance(t, ast.Name) and t.id == name for t in d.ast.targets):
                res.append(d.ast.value)
            elif d.kind == 'stmt' and isinstance(d.ast, ast.AnnAssign) and \
                    isinstance(d.ast.target, ast.Name) and d.ast.target.id == name:
                res.append(d.ast.value)
            else:
                named = None
                if d.ast is not None and d.kind in ('stmt', 'test'):
                    for x in walk_shallow(d.ast):
                        if isinstance(x, ast.NamedExpr) and isinstance(x.target, ast.Name) \
                                and x.target.id == name:
                            named = x.value
                if named is not None:
                    res.append(named)
                else:
                    res.append(f"opaque:{d.kind}:{norm(d.ast)[:60] if d.ast is not None else ''}")
        return res
