"""
Self-validation corpus: violating (V) and equivalent (E) variants of the current tree.
Text edits are keyed on exact source fragments of /repo; a fragment that does not occur exactly
once makes the variant `inapplicable` (reported, not failed).
"""
from __future__ import annotations

_ALL: list[dict] = []


def V(prop, vid, file, old, new, rule=None, note=''):
    _ALL.append({'prop': prop, 'id': f"{prop}-V-{vid}", 'kind': 'violating', 'file': file,
                 'old': old, 'new': new, 'rule': rule, 'note': note})


def E(prop, vid, file, old, new, note=''):
    _ALL.append({'prop': prop, 'id': f"{prop}-E-{vid}", 'kind': 'equivalent', 'file': file,
                 'old': old, 'new': new, 'note': note})


def VM(prop, vid, edits, rule=None, note=''):
    _ALL.append({'prop': prop, 'id': f"{prop}-V-{vid}", 'kind': 'violating', 'edits': edits,
                 'rule': rule, 'note': note})


def EM(prop, vid, edits, note=''):
    _ALL.append({'prop': prop, 'id': f"{prop}-E-{vid}", 'kind': 'equivalent', 'edits': edits,
                 'note': note})


def all_variants():
    return list(_ALL)


S1 = 'edzed/blocklib/sblocks1.py'
S2 = 'edzed/blocklib/sblocks2.py'
BLK = 'edzed/block.py'
SIM = 'edzed/simulator.py'
FSM = 'edzed/fsm.py'
ADD = 'edzed/addons.py'
CRON = 'edzed/blocklib/cron.py'
TD = 'edzed/blocklib/timedate.py'
TI = 'edzed/blocklib/timeinterval.py'
FIL = 'edzed/blocklib/filters.py'
CB = 'edzed/blocklib/cblocks.py'
TU = 'edzed/utils/timeunits.py'
TC = 'edzed/utils/tconst.py'
SC = 'edzed/utils/shield_cancel.py'

# ----------------------------------------------------------------------------- C20
V('C20', 'put-raw', S1, "        return self._setmod(value)\n",
  "        self.set_output(value)\n        return value\n", 'R20.1')
V('C20', 'dec-plus', S1, "return self._setmod(self._output - amount)",
  "return self._setmod(self._output + amount)", 'R20.2')
V('C20', 'reset-zero', S1, "return self._setmod(self.initdef)", "return self._setmod(0)", 'R20.2')
V('C20', 'mod-dropped', S1, "output = value if self._mod is None else value % self._mod",
  "output = value", 'R20.1')
V('C20', 'mod-inverted', S1, "output = value if self._mod is None else value % self._mod",
  "output = value % self._mod if self._mod is None else value", 'R20.1')
V('C20', 'return-raw', S1, "        self.set_output(output)\n        return output\n",
  "        self.set_output(output)\n        return value\n", 'R20.1b')
V('C20', 'restore-raw', S1, "    _restore_state = _setmod\n",
  "    def _restore_state(self, value):\n        self.set_output(value)\n", 'R20.1')
V('C20', 'init-raw', S1, "    init_from_value = _setmod\n",
  "    init_from_value = block.SBlock.set_output\n", 'R20.1c')
V('C20', 'put-default', S1, "def _event_put(self, *, value: float, **_data) -> float:\n        return self._setmod",
  "def _event_put(self, *, value: float = 0, **_data) -> float:\n        return self._setmod", 'R20.3')
V('C20', 'zero-after', S1, """        if modulo == 0:
            raise ValueError("modulo must not be zero")
        self._mod = modulo
        super().__init__(*args, initdef=initdef, **kwargs)
""", """        self._mod = modulo
        super().__init__(*args, initdef=initdef, **kwargs)
        if modulo == 0:
            raise ValueError("modulo must not be zero")
""", 'R20.4')
V('C20', 'inc-noreturn', S1, "        return self._setmod(self._output + amount)\n",
  "        self._setmod(self._output + amount)\n", 'R20.2')
E('C20', 'if-else', S1, "        output = value if self._mod is None else value % self._mod\n",
  "        if self._mod is None:\n            output = value\n        else:\n            output = value % self._mod\n")
E('C20', 'rename', S1, """        output = value if self._mod is None else value % self._mod
        self.set_output(output)
        return output
""", """        reduced = value % self._mod if self._mod is not None else value
        self.set_output(reduced)
        return reduced
""")
E('C20', 'inc-commuted', S1, "return self._setmod(self._output + amount)",
  "return self._setmod(amount + self.output)")
E('C20', 'zero-ne', S1, """        if modulo == 0:
            raise ValueError("modulo must not be zero")
        self._mod = modulo
""", """        if modulo != 0:
            self._mod = modulo
        else:
            raise ValueError("modulo must not be zero")
""")
