"""
Self-validation corpus: violating (V) and equivalent (E) variants of the current tree.
Text edits are keyed on exact source fragments of /repo; a fragment that does not occur exactly
once makes the variant `inapplicable` (reported, not failed).
"""
from __future__ import annotations

_ALL: list[dict] = []


def V(prop, vid, file, old, new, rule=None, note=''):
    _ALL.append({'prop': prop, 'id': f"{prop}-V-{vid}", 'kind': 'violating', 'file': file,
                 'old': old, 'new': new, 'rule': rule, 'note': note})


def E(prop, vid, file, old, new, note=''):
    _ALL.append({'prop': prop, 'id': f"{prop}-E-{vid}", 'kind': 'equivalent', 'file': file,
                 'old': old, 'new': new, 'note': note})


def VM(prop, vid, edits, rule=None, note=''):
    _ALL.append({'prop': prop, 'id': f"{prop}-V-{vid}", 'kind': 'violating', 'edits': edits,
                 'rule': rule, 'note': note})


def EM(prop, vid, edits, note=''):
    _ALL.append({'prop': prop, 'id': f"{prop}-E-{vid}", 'kind': 'equivalent', 'edits': edits,
                 'note': note})


def all_variants():
    return list(_ALL)


S1 = 'edzed/blocklib/sblocks1.py'
S2 = 'edzed/blocklib/sblocks2.py'
BLK = 'edzed/block.py'
SIM = 'edzed/simulator.py'
FSM = 'edzed/fsm.py'
ADD = 'edzed/addons.py'
CRON = 'edzed/blocklib/cron.py'
TD = 'edzed/blocklib/timedate.py'
TI = 'edzed/blocklib/timeinterval.py'
FIL = 'edzed/blocklib/filters.py'
CB = 'edzed/blocklib/cblocks.py'
TU = 'edzed/utils/timeunits.py'
TC = 'edzed/utils/tconst.py'
SC = 'edzed/utils/shield_cancel.py'

# ----------------------------------------------------------------------------- C20
V('C20', 'put-raw', S1, "        return self._setmod(value)\n",
  "        self.set_output(value)\n        return value\n", 'R20.1')
V('C20', 'dec-plus', S1, "return self._setmod(self._output - amount)",
  "return self._setmod(self._output + amount)", 'R20.2')
V('C20', 'reset-zero', S1, "return self._setmod(self.initdef)", "return self._setmod(0)", 'R20.2')
V('C20', 'mod-dropped', S1, "output = value if self._mod is None else value % self._mod",
  "output = value", 'R20.1')
V('C20', 'mod-inverted', S1, "output = value if self._mod is None else value % self._mod",
  "output = value % self._mod if self._mod is None else value", 'R20.1')
V('C20', 'return-raw', S1, "        self.set_output(output)\n        return output\n",
  "        self.set_output(output)\n        return value\n", 'R20.1b')
V('C20', 'restore-raw', S1, "    _restore_state = _setmod\n",
  "    def _restore_state(self, value):\n        self.set_output(value)\n", 'R20.1')
V('C20', 'init-raw', S1, "    init_from_value = _setmod\n",
  "    init_from_value = block.SBlock.set_output\n", 'R20.1c')
V('C20', 'put-default', S1, "def _event_put(self, *, value: float, **_data) -> float:\n        return self._setmod",
  "def _event_put(self, *, value: float = 0, **_data) -> float:\n        return self._setmod", 'R20.3')
V('C20', 'zero-after', S1, """        if modulo == 0:
            raise ValueError("modulo must not be zero")
        self._mod = modulo
        super().__init__(*args, initdef=initdef, **kwargs)
""", """        self._mod = modulo
        super().__init__(*args, initdef=initdef, **kwargs)
        if modulo == 0:
            raise ValueError("modulo must not be zero")
""", 'R20.4')
V('C20', 'inc-noreturn', S1, "        return self._setmod(self._output + amount)\n",
  "        self._setmod(self._output + amount)\n", 'R20.2')
E('C20', 'if-else', S1, "        output = value if self._mod is None else value % self._mod\n",
  "        if self._mod is None:\n            output = value\n        else:\n            output = value % self._mod\n")
E('C20', 'rename', S1, """        output = value if self._mod is None else value % self._mod
        self.set_output(output)
        return output
""", """        reduced = value % self._mod if self._mod is not None else value
        self.set_output(reduced)
        return reduced
""")
E('C20', 'inc-commuted', S1, "return self._setmod(self._output + amount)",
  "return self._setmod(amount + self.output)")
E('C20', 'zero-ne', S1, """        if modulo == 0:
            raise ValueError("modulo must not be zero")
        self._mod = modulo
""", """        if modulo != 0:
            self._mod = modulo
        else:
            raise ValueError("modulo must not be zero")
""")

# ----------------------------------------------------------------------------- C17
V('C17', 'raw-output', S2, "        self.set_output(value)\n        return True\n\n    _restore_state = init_from_value",
  "        self.set_output(_data.get('raw', value))\n        return True\n\n    _restore_state = init_from_value", 'R17.2')
V('C17', 'validate-discarded', S2, """        try:
            value = self._validate(value)
        except ValueError as err:
            self.log_warning("%s", err)
            return False
        self.set_output(value)""", """        try:
            self._validate(value)
        except ValueError as err:
            self.log_warning("%s", err)
            return False
        self.set_output(value)""", 'R17.2')
V('C17', 'schema-first', S2, """        if self._allowed is not None and value not in self._allowed:
            raise ValueError(f"Validation error: {value!r} is not among allowed values")
        if self._check is not None and not self._check(value):
            raise ValueError(f"Validation function rejected value {value!r}")
        if self._schema is not None:
            try:
                value = self._schema(value)
            except Exception as err:
                raise ValueError(
                    f"Validation schema rejected value {value!r} with error: {err}") from None
        return value""", """        if self._schema is not None:
            try:
                value = self._schema(value)
            except Exception as err:
                raise ValueError(
                    f"Validation schema rejected value {value!r} with error: {err}") from None
        if self._allowed is not None and value not in self._allowed:
            raise ValueError(f"Validation error: {value!r} is not among allowed values")
        if self._check is not None and not self._check(value):
            raise ValueError(f"Validation function rejected value {value!r}")
        return value""", 'R17.1')
V('C17', 'check-ignored', S2, "if self._check is not None and not self._check(value):",
  "if self._check is not None and self._check(value) is False:", 'R17.1')
V('C17', 'allowed-only-without-check', S2, "if self._allowed is not None and value not in self._allowed:",
  "if self._allowed is not None and self._check is None and value not in self._allowed:", 'R17.1')
V('C17', 'schema-result-dropped', S2, "                value = self._schema(value)\n",
  "                self._schema(value)\n", 'R17.1')
V('C17', 'reject-still-sets', S2, """        except ValueError as err:
            self.log_warning("%s", err)
            return False
        self.set_output(value)
        return True""", """        except ValueError as err:
            self.log_warning("%s", err)
        self.set_output(value)
        return True""", 'R17.2')
V('C17', 'restore-direct', S2, "    _restore_state = init_from_value\n\n\nclass InputExp",
  "    def _restore_state(self, value):\n        self.set_output(value)\n\n\nclass InputExp", 'R17.2')
V('C17', 'initdef-unvalidated', S2, "        if self.initdef is not block.UNDEF:\n            self._validate(self.initdef)\n",
  "        if self.initdef is not block.UNDEF and self._schema is None:\n            self._validate(self.initdef)\n", 'R17.2b')
V('C17', 'condput-store-first', S2, """        value = data['value']
        try:
            value = self._validate(value)
        except ValueError as err:
            self.log_warning("%s", err)
            return False
        self.sdata['input'] = value
        return True""", """        value = data['value']
        self.sdata['input'] = value
        try:
            value = self._validate(value)
        except ValueError as err:
            self.log_warning("%s", err)
            return False
        return True""", 'R17.3')
V('C17', 'expired-unvalidated', S2, "self._expired = self._validate(expired)", "self._expired = expired", 'R17.3')
V('C17', 'iexp-restore-unvalidated', S2, "            sdata = {**istate[2], 'input': self._validate(istate[2]['input'])}\n            istate = [*istate[:2], sdata]\n",
  "            sdata = {**istate[2]}\n            istate = [*istate[:2], sdata]\n", 'R17.3r')
V('C17', 'iexp-initdef-unvalidated', S2, "self.sdata['input'] = self._validate(initdef)", "self.sdata['input'] = initdef", 'R17.3')
E('C17', 'local-name', S2, """            value = self._validate(value)
        except ValueError as err:
            self.log_warning("%s", err)
            return False
        self.set_output(value)
        return True""", """            validated = self._validate(value)
        except ValueError as err:
            self.log_warning("%s", err)
            return False
        self.set_output(validated)
        return True""")
E('C17', 'nested-ifs', S2, """        if self._check is not None and not self._check(value):
            raise ValueError(f"Validation function rejected value {value!r}")""",
  """        if self._check is not None:
            if not self._check(value):
                raise ValueError(f"Validation function rejected value {value!r}")""")
E('C17', 'calc-output-ifstmt', S2, "        return self.sdata['input'] if self._state == 'valid' else self._expired\n",
  "        if self._state == 'valid':\n            return self.sdata['input']\n        return self._expired\n")

# ----------------------------------------------------------------------------- C14
V('C14', 'gate-weakened', SIM, "return self._simtask is not None and self._error is None",
  "return self._simtask is not None", 'R14.1')
V('C14', 'gate-after-value', BLK, """        if not self._dest.circuit.is_ready():
            raise EdzedInvalidState("The circuit simulation is shutting down or not running")
        if value is not UNDEF:
            data['value'] = value
""", """        if value is not UNDEF:
            data['value'] = value
            return self._dest.event(self._etype, **data)
        if not self._dest.circuit.is_ready():
            raise EdzedInvalidState("The circuit simulation is shutting down or not running")
""", 'R14.1')
V('C14', 'gate-removed', BLK, """        if not self._dest.circuit.is_ready():
            raise EdzedInvalidState("The circuit simulation is shutting down or not running")
        if value is not UNDEF:""", """        if value is not UNDEF:""", 'R14.1')
V('C14', 'prefix-one-branch', BLK, """            if not source.startswith("_ext_"):
                data['source'] = "_ext_" + source
""", """            if not source.startswith("_ext_") and source:
                data['source'] = "_ext_" + source
""", 'R14.2')
V('C14', 'prefix-typo', BLK, """                data['source'] = "_ext_" + source
""", """                data['source'] = "_ext" + source
""", 'R14.2')
V('C14', 'default-source-raw', BLK, """self._source = source if source.startswith("_ext_") else "_ext_" + source""",
  """self._source = source""", 'R14.2')
V('C14', 'setdefault-source', BLK, "        data['source'] = source.name\n", "        data.setdefault('source', source.name)\n", 'R14.3')
V('C14', 'source-after-filters', BLK, """        data['source'] = source.name
        for efilter in self._filters:""", """        for efilter in self._filters:""", 'R14.3')
V('C14', 'reserved-ext-name', TD, "name = '_cron_utc' if utc else '_cron_local'", "name = '_ext_cron_utc' if utc else '_cron_local'", 'R14.3')
V('C14', 'underscore-allowed', BLK, "            if name.startswith('_') and not _reserved:\n", "            if name.startswith('__') and not _reserved:\n", 'R14.3')
V('C14', 'value-always', BLK, "        if value is not UNDEF:\n            data['value'] = value\n        try:\n            source",
  "        data['value'] = value\n        try:\n            source", 'R14.2b')
V('C14', 'drops-item', BLK, "        return self._dest.event(self._etype, **data)\n\n    def __str__(self):\n        return f\"<{type(self).__name__} dest='{self._dest.name}'",
  "        data.pop('trigger', None)\n        return self._dest.event(self._etype, **data)\n\n    def __str__(self):\n        return f\"<{type(self).__name__} dest='{self._dest.name}'", 'R14.2b')
V('C14', 'returns-none', BLK, "        return self._dest.event(self._etype, **data)\n\n    def __str__(self):\n        return f\"<{type(self).__name__} dest='{self._dest.name}'",
  "        self._dest.event(self._etype, **data)\n\n    def __str__(self):\n        return f\"<{type(self).__name__} dest='{self._dest.name}'", 'R14.1')
E('C14', 'gate-local', BLK, """        if not self._dest.circuit.is_ready():
            raise EdzedInvalidState("The circuit simulation is shutting down or not running")
        if value is not UNDEF:""", """        if self._dest.circuit.is_ready():
            pass
        else:
            raise EdzedInvalidState("The circuit simulation is shutting down or not running")
        if value is not UNDEF:""")
E('C14', 'source-in-test', BLK, """        try:
            source = data['source']
        except KeyError:
            data['source'] = self._source
        else:
            if not isinstance(source, str):
                raise TypeError(f"Event source must be a string, but got {source!r}")
            if not source.startswith("_ext_"):
                data['source'] = "_ext_" + source
""", """        if 'source' not in data:
            data['source'] = self._source
        else:
            source = data['source']
            if not isinstance(source, str):
                raise TypeError(f"Event source must be a string, but got {source!r}")
            if not source.startswith("_ext_"):
                data['source'] = "_ext_" + source
""")
E('C14', 'is-ready-order', SIM, "return self._simtask is not None and self._error is None",
  "return self._error is None and self._simtask is not None")

# ----------------------------------------------------------------------------- C19
V('C19', 'const-hour', TC, "SEC_PER_HOUR = 3_600", "SEC_PER_HOUR = 3_660", 'R19.1')
V('C19', 'scale-swapped', TU, "(1, SEC_PER_MIN, SEC_PER_HOUR, SEC_PER_DAY, None, None)",
  "(1, SEC_PER_HOUR, SEC_PER_MIN, SEC_PER_DAY, None, None)", 'R19.1')
V('C19', 'groups-reordered', TU, r"(?:{_NUM}\s*d)?  \s*  (?:{_NUM}\s*h)?  \s*", r"(?:{_NUM}\s*h)?  \s*  (?:{_NUM}\s*d)?  \s*", 'R19.1')
V('C19', 'match-not-full', TU, "(match := re.fullmatch(tstr))", "(match := re.match(tstr))", 'R19.2')
V('C19', 'iso-ignorecase', TU, "         \"\"\",\n    flags = re.ASCII | re.VERBOSE)", "         \"\"\",\n    flags = re.ASCII | re.VERBOSE | re.IGNORECASE)", 'R19.2')
V('C19', 'iso-months-as-minutes', TU, "(1, SEC_PER_MIN, SEC_PER_HOUR, SEC_PER_DAY, None, None)",
  "(1, SEC_PER_MIN, SEC_PER_HOUR, SEC_PER_DAY, SEC_PER_MIN, None)", 'R19.1')
V('C19', 'none-scale-skipped', TU, """        if scale_factor is None:
            raise ValueError("calendar years/months are not supported as duration units")
""", """        if scale_factor is None:
            continue
""", 'R19.1')
V('C19', 'fraction-check-dropped', TU, """            if not smallest_unit:
                raise ValueError("only the smallest unit may have a fractional part")
""", "", 'R19.3')
V('C19', 'flag-cleared-late', TU, """        num = float(value)
        smallest_unit = False
        if num == 0.0:
            continue
""", """        num = float(value)
        if num == 0.0:
            continue
        smallest_unit = False
""", 'R19.3')
V('C19', 'empty-accepted', TU, """    if smallest_unit:
        raise ValueError("at least one element must be present")
""", "", 'R19.3')
V('C19', 'negative-kept', TU, "        return max(0.0, period)\n", "        return period\n", 'R19.4')
V('C19', 'int-unclamped', TU, """    if isinstance(period, int):
        period = float(period)
""", """    if isinstance(period, int):
        return float(period)
""", 'R19.4')
V('C19', 'timestr-divisor', TU, """    d, s = divmod(seconds, SEC_PER_DAY)
    h, s = divmod(s, SEC_PER_HOUR)
    m, s = divmod(s, SEC_PER_MIN)
    parts = []
    if d:
        parts.append(f"{int(d)}d")
    if d or h:
        parts.append(f"{int(h)}h")
    parts.append(f"{int(m)}m")
    parts.append(f"{s:.{prec}f}s\"""", """    d, s = divmod(seconds, SEC_PER_DAY)
    h, s = divmod(s, SEC_PER_HOUR)
    m, s = divmod(seconds, SEC_PER_MIN)
    parts = []
    if d:
        parts.append(f"{int(d)}d")
    if d or h:
        parts.append(f"{int(h)}h")
    parts.append(f"{int(m)}m")
    parts.append(f"{s:.{prec}f}s\"""", 'R19.6')
V('C19', 'comma-not-replaced', TU, "                value = value.replace(',', '.', 1)\n", "                pass\n", 'R19.3')
V('C19', 'unit-s-mandatory-h-optional', TU, r"(?:{_NUM}\s*h)?  \s*" + "\n", r"(?:{_NUM}\s*h?)?  \s*" + "\n", 'R19.1')
E('C19', 'constants-product', TC, "SEC_PER_HOUR = 3_600", "SEC_PER_HOUR = 60 * 60")
E('C19', 'pattern-split', TU, "_NUM = r'(\\d+(?:[.,]\\d+)?)'", "_DIG = r'\\d+'\n_NUM = rf'({_DIG}(?:[.,]{_DIG})?)'")
E('C19', 'time-period-elif', TU, """    if isinstance(period, str):
        return convert(period)
    raise TypeError""", """    elif isinstance(period, str):
        return convert(period)
    else:
        raise TypeError""")

# ----------------------------------------------------------------------------- C13
V('C13', 'open-le', TI, "        if low < high:\n            return low <= item < high\n", "        if low < high:\n            return low <= item <= high\n", 'R13.1')
V('C13', 'open-wrap-and', TI, "        return low <= item or item < high\n", "        return low <= item and item < high\n", 'R13.1')
V('C13', 'open-equal-empty', TI, "        if low < high:\n            return low <= item < high\n", "        if low <= high:\n            return low <= item < high\n", 'R13.1')
V('C13', 'closed-exclusive', TI, "        if low <= high:\n            return low <= item <= high\n", "        if low <= high:\n            return low <= item < high\n", 'R13.1')
V('C13', 'datetime-wraps', TI, """    @staticmethod
    def _cmp_open(low: dt.datetime, item: dt.datetime, high: dt.datetime) -> bool:
        \"\"\"Compare function for non-recurring intervals.\"\"\"
        return low <= item < high
""", "", 'R13.1')
V('C13', 'date-open', TI, "class DateInterval(_Interval[dt.date]):\n    \"\"\"\n    List of date ranges and single dates.\n    \"\"\"\n\n    _RCLOSED_INTERVAL = True",
  "class DateInterval(_Interval[dt.date]):\n    \"\"\"\n    List of date ranges and single dates.\n    \"\"\"\n\n    _RCLOSED_INTERVAL = False", 'R13.2')
V('C13', 'contains-swapped', TI, "any(self._cmp(low, item, high) for low, high in self._interval)", "any(self._cmp(item, low, high) for low, high in self._interval)", 'R13.1b')
V('C13', 'dispatch-inverted', TI, "(self._cmp_closed if self._RCLOSED_INTERVAL else self._cmp_open)(*args)", "(self._cmp_open if self._RCLOSED_INTERVAL else self._cmp_closed)(*args)", 'R13.1b')
V('C13', 'unsorted', TI, "self._interval = sorted(self._parse_range(subint) for subint in ivalue)", "self._interval = list(self._parse_range(subint) for subint in ivalue)", 'R13.3')
V('C13', 'export-short', TI, "    dt.time: _DT_ATTRS[3:],", "    dt.time: _DT_ATTRS[3:6],", 'R13.3')
V('C13', 'aslist-swapped', TI, "return [[export(start), export(stop)] for start, stop in self._interval]", "return [[export(stop), export(start)] for start, stop in self._interval]", 'R13.3')
V('C13', 'dummy-year', TI, "_DUMMY_YEAR = 404", "_DUMMY_YEAR = 405", 'R13.3')
V('C13', 'wrong-converter', TI, "    _RCLOSED_INTERVAL = False\n    _convert_seq = convert_datetime_seq\n    _convert_str = convert_datetime_str", "    _RCLOSED_INTERVAL = False\n    _convert_seq = convert_datetime_seq\n    _convert_str = convert_date_str", 'R13.2')
V('C13', 'render-low-sep', TI, 'return f"{to_string(start)} {_RANGE_SEPARATORS[0]} {to_string(stop)}{_DELIMITER}"', 'return f"{to_string(start)} {_RANGE_SEPARATORS[2]} {to_string(stop)}{_DELIMITER}"', 'R13.4')
V('C13', 'single-any', TI, "            if length == 1 and self._RCLOSED_INTERVAL:", "            if length == 1:", 'R13.4')
V('C13', 'leftover-ignored', TI, """    string = string.strip()
    if string:
        raise ValueError(
            f"Could not convert {original_string!r}, offending part: {string!r}")
""", "", 'R13.5')
V('C13', 'tz-accepted', TI, """        if dt_time.tzinfo is not None:
            raise ValueError(f"{time_str!r}: time zones are not supported")
""", "", 'R13.5')
V('C13', 'seq-length', TI, "    if not 1 <= len(time_seq) <= 4:", "    if not 1 <= len(time_seq) <= 5:", 'R13.3')
E('C13', 'cmp-negated', TI, "        if low < high:\n            return low <= item < high\n        # low <= item < MAX or MIN <= item < high\n        return low <= item or item < high\n",
  "        if not low < high:\n            return not item < low or item < high\n        return not item < low and item < high\n")
E('C13', 'cmp-split-chain', TI, "        if low <= high:\n            return low <= item <= high\n", "        if low <= high:\n            return low <= item and item <= high\n")
E('C13', 'cmp-ifexp', TI, "        if low <= high:\n            return low <= item <= high\n        return low <= item or item <= high\n", "        return (low <= item <= high) if low <= high else (low <= item or item <= high)\n")

# ----------------------------------------------------------------------------- C16
V('C16', 'truth-before-mapping', BLK, """            if isinstance(retval, MutableMapping):
                for key in retval:
                    if not isinstance(key, str):
                        raise TypeError(
                            f"Event filter {efilter.__name__} returned non-string key {key!r} "
                            + f"(value {retval[key]})")
                data = retval   # type: ignore[assignment]
            elif not retval:
                source.log_debug(f"Not sending event {self} (rejected by a filter)")
                return False
""", """            if not retval:
                source.log_debug(f"Not sending event {self} (rejected by a filter)")
                return False
            if isinstance(retval, MutableMapping):
                for key in retval:
                    if not isinstance(key, str):
                        raise TypeError(
                            f"Event filter {efilter.__name__} returned non-string key {key!r} "
                            + f"(value {retval[key]})")
                data = retval   # type: ignore[assignment]
""", 'R16.1')
V('C16', 'veto-continues', BLK, """                source.log_debug(f"Not sending event {self} (rejected by a filter)")
                return False
""", """                source.log_debug(f"Not sending event {self} (rejected by a filter)")
                break
""", 'R16.1')
V('C16', 'data-not-rebound', BLK, "                data = retval   # type: ignore[assignment]\n", "                pass\n", 'R16.1')
VM('C16', 'deliver-original', [(BLK, "        data['source'] = source.name\n        for efilter in self._filters:", "        data['source'] = source.name\n        orig = data\n        for efilter in self._filters:"),
                              (BLK, "        dest.event(self._etype, **data)\n        return True", "        dest.event(self._etype, **orig)\n        return True")], 'R16.1')
V('C16', 'reversed-filters', BLK, "        for efilter in self._filters:\n            retval = efilter(data)", "        for efilter in reversed(self._filters):\n            retval = efilter(data)", 'R16.1')
V('C16', 'edge-urise-from-fall', FIL, "self._urise = bool(u_rise) if u_rise is not None else self._rise", "self._urise = bool(u_rise) if u_rise is not None else self._fall", 'R16.2')
V('C16', 'edge-prev-not-bool', FIL, "            if (not previous and self._rise) if value else (previous and self._fall):", "            if (not previous and self._rise) if value else (not previous and self._fall):", 'R16.2')
V('C16', 'edge-undef-swapped', FIL, "            if self._urise if value else self._ufall:", "            if self._ufall if value else self._urise:", 'R16.2')
V('C16', 'nfu-inverted', FIL, "    return data.get('previous', block.UNDEF) is not block.UNDEF", "    return data.get('previous', None) is not block.UNDEF", 'R16.2')
V('C16', 'ifoutput-inverted', FIL, "        return data if self._ctrl_blk.output else None", "        return None if self._ctrl_blk.output else data", 'R16.2')
V('C16', 'notinit-inverted', FIL, "        return None if self._ctrl_blk.is_initialized() else data", "        return data if self._ctrl_blk.is_initialized() else None", 'R16.2')
V('C16', 'delta-gt', FIL, "abs(self._last - value) >= self._delta", "abs(self._last - value) > self._delta", 'R16.3')
V('C16', 'delta-last-always', FIL, """        value = data['value']
        if self._last is block.UNDEF or abs(self._last - value) >= self._delta:
            self._last = value
            return True
        return False""", """        value = data['value']
        last, self._last = self._last, value
        if last is block.UNDEF or abs(last - value) >= self._delta:
            return True
        return False""", 'R16.3')
V('C16', 'delta-no-update', FIL, "            self._last = value\n            return True\n", "            if self._last is block.UNDEF:\n                self._last = value\n            return True\n", 'R16.3')
V('C16', 'add-precedence', FIL, "self._editlist.append(lambda data: {**data, **kwargs})", "self._editlist.append(lambda data: {**kwargs, **data})", 'R16.4c')
V('C16', 'setdefault-precedence', FIL, "self._editlist.append(lambda data: {**kwargs, **data})", "self._editlist.append(lambda data: {**data, **kwargs})", 'R16.4c')
V('C16', 'modify-reject-deletes', FIL, "            if replacement is self.REJECT:\n                return None\n", "            if replacement is self.REJECT:\n                del data[key]\n                return data\n", 'R16.4')
V('C16', 'dual-shared', FIL, "        if instance is None:\n            instance = cls()\n", "        if instance is None:\n            instance = cls._shared = getattr(cls, '_shared', None) or cls()\n", 'R16.4')
V('C16', 'call-continues', FIL, "            if not isinstance(data, MutableMapping):\n                break\n", "            if data is None:\n                continue\n", 'R16.4')
VM('C16', 'documented-name-gone', [(FIL, "class NotIfInitialized:", "class IfNotIitialized:"),
                                   (FIL, "IfNotIitialized = NotIfInitialized\n", ""),
                                   (FIL, "'NotIfInitialized',\n    'IfNotIitialized']", "'IfNotIitialized']")], 'R16.5')
E('C16', 'edge-ifstmt', FIL, """            if self._urise if value else self._ufall:
                return True
""", """            if value:
                if self._urise:
                    return True
            elif self._ufall:
                return True
""")
E('C16', 'veto-nested', BLK, """            elif not retval:
                source.log_debug(f"Not sending event {self} (rejected by a filter)")
                return False
""", """            else:
                if not retval:
                    source.log_debug(f"Not sending event {self} (rejected by a filter)")
                    return False
""")
E('C16', 'delta-le', FIL, "abs(self._last - value) >= self._delta", "self._delta <= abs(value - self._last)")

# ----------------------------------------------------------------------------- C11
V('C11', 'release-not-finally', BLK, """            return retval
        finally:
            self._event_active = False
""", """            self._event_active = False
            return retval
        finally:
            pass
""", 'R11.1')
V('C11', 'test-inside-try', BLK, """        if self._event_active:
            raise EdzedCircuitError(f"{self}: Forbidden recursive event() call")
        self._event_active = True
        try:
""", """        try:
            if self._event_active:
                raise EdzedCircuitError(f"{self}: Forbidden recursive event() call")
            self._event_active = True
""", 'R11.2')
V('C11', 'early-return-after-acquire', BLK, """        self._event_active = True
        try:
            while isinstance(etype, EventCond):""", """        self._event_active = True
        if etype == 'noop':
            return None
        try:
            while isinstance(etype, EventCond):""", 'R11.1')
V('C11', 'exit-writes-false', BLK, "            self._block._event_active = self._event_saved\n", "            self._block._event_active = False\n", 'R11.3')
V('C11', 'exit-writes-true', BLK, "            self._block._event_active = self._event_saved\n", "            self._block._event_active = True\n", 'R11.3')
V('C11', 'new-lift-site', FSM, "            self._send_events('on_enter')\n            return True\n", "            with self._enable_event:\n                self._send_events('on_enter')\n            return True\n", 'R11.3')
V('C11', 'exit-cb-lifted', FSM, """                assert self._state is not block.UNDEF   # because is_initialized
                self._run_cb('exit', self._state)
""", """                assert self._state is not block.UNDEF   # because is_initialized
                with self._enable_event:
                    self._run_cb('exit', self._state)
""", 'R11.3')
V('C11', 'foreign-handler-call', S1, "        self._repeated_event.send(self, **data, repeat=0)\n", "        self._repeated_event.dest._event_put(**data, repeat=0)\n", 'R11.5')
V('C11', 'fsm-flag-not-finally', FSM, """            self._send_events('on_enter')
            return True
        finally:
            self._fsm_event_active = False
""", """            self._send_events('on_enter')
            self._fsm_event_active = False
            return True
        finally:
            pass
""", 'R11.4')
V('C11', 'slot-overwritten', FSM, """            if self._next_event is not None:
                raise EdzedCircuitError(
                    "Forbidden event multiplication; "
                    + f"Two events ({self._next_event[0]} and {etype}) were generated "
                    + "while handling a single event")
            self._next_event = (etype, data, newstate)""", """            self._next_event = (etype, data, newstate)""", 'R11.4')
V('C11', 'unknown-event-aborts', BLK, """            except EdzedUnknownEvent:
                raise
            except Exception as err:""", """            except Exception as err:""", 'R11.6')
V('C11', 'guard-skipped-for-ext', BLK, """        if self._event_active:
            raise EdzedCircuitError(f"{self}: Forbidden recursive event() call")
""", """        if self._event_active and not str(data.get('source', '')).startswith('_ext_'):
            raise EdzedCircuitError(f"{self}: Forbidden recursive event() call")
""", 'R11.2')
V('C11', 'enter-no-save', BLK, """            self._event_saved = block._event_active
            block._event_active = False
            return block""", """            block._event_active = False
            self._event_saved = block._event_active
            return block""", 'R11.3')
E('C11', 'ne-test', BLK, """        if self._event_active:
            raise EdzedCircuitError(f"{self}: Forbidden recursive event() call")
        self._event_active = True
""", """        if not self._event_active:
            self._event_active = True
        else:
            raise EdzedCircuitError(f"{self}: Forbidden recursive event() call")
""")
E('C11', 'exit-try-finally', BLK, "            self._block._event_active = self._event_saved\n", "            saved = self._event_saved\n            self._block._event_active = saved\n", note='alias local: must stay silent')

# ----------------------------------------------------------------------------- C09
V('C09', 'handler-overwrites', SIM, """        except (Exception, asyncio.CancelledError) as err:
            if self._error is None:
                self._error = err
""", """        except (Exception, asyncio.CancelledError) as err:
            self._error = err
""", 'R09.1')
VM('C09', 'raise-caught-not-recorded', [(SIM, "        started_blocks = set()\n        start_ok = False\n", "        started_blocks = set()\n        start_ok = False\n        last_err = None\n"),
  (SIM, "        except (Exception, asyncio.CancelledError) as err:\n            if self._error is None:\n                self._error = err\n", "        except (Exception, asyncio.CancelledError) as err:\n            last_err = err\n            if self._error is None:\n                self._error = err\n"),
  (SIM, "        assert self._error is not None\n        raise self._error\n\n    def abort(", "        assert self._error is not None\n        raise last_err or self._error\n\n    def abort(")], 'R09.2')
V('C09', 'abort-replaces', SIM, """        if self._error is not None:
            if (exc != self._error
                    and exc != self._error.__cause__
                    and not isinstance(exc, asyncio.CancelledError)):
                _logger.warning("ignoring subsequent abort(%r)", exc)
            return
""", """        if self._error is not None and isinstance(exc, asyncio.CancelledError):
            return
""", 'R09.1')
V('C09', 'cancel-before-record', SIM, """        self._error = exc
        if self._simtask is not None and not self._simtask.done():
            self._simtask.cancel()
""", """        if self._simtask is not None and not self._simtask.done():
            self._simtask.cancel()
            return
        self._error = exc
""", 'R09.1')
V('C09', 'event-no-abort', BLK, "                    self.circuit.abort(sim_err)\n", "                    self.log_error('%s', sim_err)\n", 'R09.3')
V('C09', 'event-abort-extra-cond', BLK, "                if err.__traceback__.tb_next is not None:\n", "                if err.__traceback__.tb_next is not None and not isinstance(err, ValueError):\n", 'R09.3')
V('C09', 'monitor-swallows', ADD, """        except Exception as err:
            add_note(err, f"block {self}, coroutine: {coro.__qualname__}")
            self.circuit.abort(err)
            raise
        return retval""", """        except Exception as err:
            add_note(err, f"block {self}, coroutine: {coro.__qualname__}")
            if not is_service:
                raise
            self.circuit.abort(err)
            raise
        return retval""", 'R09.3')
V('C09', 'simulate-logs-continues', SIM, """            except Exception as err:
                # add the block name
                add_note(err, f"block: {cblk}, output evaluation error")
                raise
""", """            except Exception as err:
                # add the block name
                add_note(err, f"block: {cblk}, output evaluation error")
                _logger.error("evaluation error ignored: %s", err)
                continue
""", 'R09.3')
V('C09', 'run-keeps-last', SIM, "            if run_error is None:\n                run_error = err\n", "            run_error = err\n", 'R09.2')
V('C09', 'shutdown-swallows-all', SIM, """        try:
            await self._simtask
        except asyncio.CancelledError:
            pass


class _TerminatingSignal""", """        try:
            await self._simtask
        except (Exception, asyncio.CancelledError):
            pass


class _TerminatingSignal""", 'R09.2')
V('C09', 'new-swallowing-handler', S2, """    def cond_put(self) -> bool:
        data = fsm.fsm_event_data.get()
        value = data['value']
""", """    def cond_put(self) -> bool:
        try:
            data = fsm.fsm_event_data.get()
        except Exception:
            return False
        value = data['value']
""", 'R09.4')
V('C09', 'service-return-ok', ADD, """            if is_service:
                raise EdzedCircuitError("Unexpected task termination")
""", "", 'R09.3')
V('C09', 'maintask-unmonitored', ADD, """        self._mtask = self._create_monitored_task(
            self._maintask(), is_service=True, name=f"edzed: main task for block {self.name!r}")""",
  """        self._mtask = asyncio.create_task(
            self._maintask(), name=f"edzed: main task for block {self.name!r}")""", 'R09.3')
V('C09', 'ready-ignores-error', SIM, "return self._simtask is not None and self._error is None", "return self._simtask is not None and not self._simtask.done()", 'R09.1')
V('C09', 'ctrl-abort-logs-only', S1, """        if isinstance(error, Exception):
            exc.__cause__ = error
        self.circuit.abort(exc)""", """        if isinstance(error, Exception):
            exc.__cause__ = error
            self.circuit.abort(exc)""", 'R09.3')
V('C09', 'stop-error-escalates', SIM, """                try:
                    blk.stop()
                except Exception:
                    _logger.error("%s: ignored error in stop()", blk, exc_info=True)

            await asyncio.sleep(0)""", """                try:
                    blk.stop()
                except Exception as err:
                    _logger.error("%s: ignored error in stop()", blk, exc_info=True)
                    self.abort(err)

            await asyncio.sleep(0)""", 'R09.4')
E('C09', 'nested-guard', SIM, """        if self._error is not None:
            if (exc != self._error""", """        if not self._error is None:
            if (exc != self._error""")
E('C09', 'handler-early-style', SIM, """        except (Exception, asyncio.CancelledError) as err:
            if self._error is None:
                self._error = err
""", """        except (Exception, asyncio.CancelledError) as err:
            if self._error is not None:
                pass
            else:
                self._error = err
""")

# ----------------------------------------------------------------------------- C10
V('C10', 'count-after-eval', SIM, """            eval_cnt += 1
            if eval_cnt > eval_limit:
                raise EdzedCircuitError(
                    "Circuit instability detected (too many block evaluations)")
            if len(eval_set) == 1:""", """            if len(eval_set) == 1:""", 'R10.1')
V('C10', 'reset-in-drain', SIM, """            while not queue.empty():
                sblk = queue.get_nowait()
                eval_set |= sblk.oconnections
""", """            while not queue.empty():
                sblk = queue.get_nowait()
                eval_cnt = 0
                eval_set |= sblk.oconnections
""", 'R10.2')
V('C10', 'limit-infinite', SIM, "eval_limit = _MAX_EVALS_PER_BLOCK * len(self._blocks)", "eval_limit = float('inf')", 'R10.3')
V('C10', 'yield-in-burst', SIM, """            if changed:
                eval_set |= cblk.oconnections
""", """            if changed:
                eval_set |= cblk.oconnections
                await asyncio.sleep(0)
""", 'R10.4')
V('C10', 'test-inverted', SIM, "            if eval_cnt > eval_limit:\n", "            if eval_cnt < 0:\n", 'R10.1')
V('C10', 'count-only-multi', SIM, """            eval_cnt += 1
            if eval_cnt > eval_limit:""", """            if len(eval_set) > 1:
                eval_cnt += 1
            if eval_cnt > eval_limit:""", 'R10.1')
V('C10', 'error-logged', SIM, """            if eval_cnt > eval_limit:
                raise EdzedCircuitError(
                    "Circuit instability detected (too many block evaluations)")
""", """            if eval_cnt > eval_limit:
                _logger.error("Circuit instability detected (too many block evaluations)")
                eval_cnt = 0
""", 'R10')
V('C10', 'wait-with-pending', SIM, "            if not eval_set and queue.empty():\n                self.log_debug(\"%d block(s) evaluated, pausing\", eval_cnt)", "            if queue.empty():\n                self.log_debug(\"%d block(s) evaluated, pausing\", eval_cnt)", 'R10.2')
E('C10', 'inc-explicit', SIM, "            eval_cnt += 1\n", "            eval_cnt = eval_cnt + 1\n")
E('C10', 'ge-test', SIM, "            if eval_cnt > eval_limit:\n", "            if eval_limit < eval_cnt:\n")

# ----------------------------------------------------------------------------- C01
V('C01', 'drain-drops', SIM, """            while not queue.empty():
                sblk = queue.get_nowait()
                eval_set |= sblk.oconnections
            if not eval_set:""", """            while not queue.empty():
                sblk = queue.get_nowait()
            if not eval_set:""", 'R01.2')
V('C01', 'changed-inverted', SIM, "            if changed:\n                eval_set |= cblk.oconnections\n", "            if not changed:\n                eval_set |= cblk.oconnections\n", 'R01.4')
V('C01', 'union-replaced', SIM, "            if changed:\n                eval_set |= cblk.oconnections\n", "            if changed:\n                eval_set = set(cblk.oconnections)\n", 'R01.4')
V('C01', 'continue-after-removal', SIM, """                cblk = select_blk(eval_set)
                eval_set.discard(cblk)
""", """                cblk = select_blk(eval_set)
                eval_set.discard(cblk)
                if not cblk.oconnections and not cblk._output_events:
                    continue
""", 'R01.3')
V('C01', 'await-resume-drops', SIM, """                eval_cnt = 0
                eval_set |= sblk.oconnections
            while not queue.empty():""", """                eval_cnt = 0
            while not queue.empty():""", 'R01.2')
V('C01', 'enqueue-in-loop', BLK, """            self._output = value
            self.circuit.sblock_queue.put_nowait(self)
            for event in self._output_events:
                event.send(self, trigger='output', previous=previous, value=value)
""", """            self._output = value
            for event in self._output_events:
                self.circuit.sblock_queue.put_nowait(self)
                event.send(self, trigger='output', previous=previous, value=value)
""", 'R01.6')
V('C01', 'direct-output-write', S1, "        output = value if self._mod is None else value % self._mod\n        self.set_output(output)\n", "        output = value if self._mod is None else value % self._mod\n        self._output = output\n", 'R01.6')
V('C01', 'is-instead-of-eq', BLK, """        value = self.calc_output()
        if value is UNDEF:
            raise ValueError("Output value must not be <UNDEF>")
        if previous == value:
            return False""", """        value = self.calc_output()
        if value is UNDEF:
            raise ValueError("Output value must not be <UNDEF>")
        if previous is value:
            return False""", 'R01.7')
V('C01', 'eval-returns-false', BLK, """            event.send(self, trigger='output', previous=previous, value=value)
        return True

    def get_conf(self) -> dict[str, Any]:
        conf = super().get_conf()
        conf['type'] = 'combinational'""", """            event.send(self, trigger='output', previous=previous, value=value)
        return bool(self._output_events)

    def get_conf(self) -> dict[str, Any]:
        conf = super().get_conf()
        conf['type'] = 'combinational'""", 'R01.7')
V('C01', 'oconn-missing-for-groups', SIM, """                for inp in all_inputs:
                    if not isinstance(inp, block.Const):
                        blk.iconnections.add(inp)
                        self._blocks[inp.name].oconnections.add(blk)
""", """                for inp in all_inputs:
                    if not isinstance(inp, block.Const):
                        blk.iconnections.add(inp)
                        if not isinstance(inp, block.CBlock):
                            self._blocks[inp.name].oconnections.add(blk)
""", 'R01.8')
V('C01', 'group-not-collected', SIM, """                        newgroup = tuple(validate_output(blk, i) for i in inp)
                        all_inputs.extend(newgroup)
""", """                        newgroup = tuple(validate_output(blk, i) for i in inp)
                        all_inputs.extend(newgroup[:1])
""", 'R01.8')
V('C01', 'initial-set-sblocks', SIM, "eval_set = set(self.getblocks(block.CBlock))", "eval_set = set()", 'R01.1')
V('C01', 'override-name', CB, "        return self._in.input if override == self._null else override", "        return self._in.inp if override == self._null else override", 'R01.9')
V('C01', 'not-identity', CB, "        return not self._in['_'][0]\n", "        return bool(self._in['_'][0])\n", 'R01.10')
V('C01', 'and-is-any', CB, "super().__init__(*args, func=all, unpack=False, **kwargs)", "super().__init__(*args, func=any, unpack=False, **kwargs)", 'R01.10')
V('C01', 'getter-first-only', BLK, "                return tuple(b.output for b in iblk)\n", "                return tuple(b.output for b in iblk[:1])\n", 'R01.9')
V('C01', 'idle-with-pending', SIM, "            if not eval_set and queue.empty():\n                self.log_debug(\"%d block(s) evaluated, pausing\", eval_cnt)", "            if len(eval_set) <= 1 and queue.empty():\n                self.log_debug(\"%d block(s) evaluated, pausing\", eval_cnt)", 'R01.5')
E('C01', 'update-call', SIM, "            if changed:\n                eval_set |= cblk.oconnections\n", "            if changed:\n                eval_set.update(cblk.oconnections)\n")
E('C01', 'no-fastpath', SIM, """            if len(eval_set) == 1:
                cblk = eval_set.pop()
            else:
                cblk = select_blk(eval_set)
                eval_set.discard(cblk)
""", """            cblk = select_blk(eval_set)
            eval_set.remove(cblk)
""")
E('C01', 'not-changed-continue', SIM, "            if changed:\n                eval_set |= cblk.oconnections\n", "            if not changed:\n                continue\n            eval_set |= cblk.oconnections\n")
E('C01', 'ne-branches', BLK, """        if previous == value:
            return False
        self.log_debug("output: %s -> %s", previous, value)
        self._output = value
        for event in self._output_events:
            event.send(self, trigger='output', previous=previous, value=value)
        return True
""", """        if previous != value:
            self.log_debug("output: %s -> %s", previous, value)
            self._output = value
            for event in self._output_events:
                event.send(self, trigger='output', previous=previous, value=value)
            return True
        return False
""")

# ----------------------------------------------------------------------------- C02
V('C02', 'previous-after-write', BLK, """        previous = self._output
        if previous == value:
            if not self._every_output_events:
                return
            self.log_debug("output: %s (unchanged)", value)
        else:
            self.log_debug("output: %s -> %s", previous, value)
            self._output = value
""", """        previous = self._output
        if previous == value:
            if not self._every_output_events:
                return
            self.log_debug("output: %s (unchanged)", value)
        else:
            self.log_debug("output: %s -> %s", previous, value)
            self._output = value
            previous = self._output
""", 'R02.1')
V('C02', 'is-compare', BLK, """        previous = self._output
        if previous == value:
            if not self._every_output_events:""", """        previous = self._output
        if previous is value:
            if not self._every_output_events:""", 'R02.2')
V('C02', 'every-before-output', BLK, """            self._output = value
            self.circuit.sblock_queue.put_nowait(self)
            for event in self._output_events:
                event.send(self, trigger='output', previous=previous, value=value)
        for event in self._every_output_events:
            event.send(self, trigger='output', previous=previous, value=value)
""", """            self._output = value
            self.circuit.sblock_queue.put_nowait(self)
        for event in self._every_output_events:
            event.send(self, trigger='output', previous=previous, value=value)
        if previous != value:
            for event in self._output_events:
                event.send(self, trigger='output', previous=previous, value=value)
""", 'R02.2')
V('C02', 'every-only-when-changed', BLK, """                event.send(self, trigger='output', previous=previous, value=value)
        for event in self._every_output_events:
            event.send(self, trigger='output', previous=previous, value=value)
""", """                event.send(self, trigger='output', previous=previous, value=value)
            for event in self._every_output_events:
                event.send(self, trigger='output', previous=previous, value=value)
""", 'R02.2')
V('C02', 'deferred-delivery', BLK, """        source.log_debug("sending event %s", self)
        dest.event(self._etype, **data)
        return True""", """        source.log_debug("sending event %s", self)
        import asyncio
        asyncio.get_running_loop().call_soon(lambda: dest.event(self._etype, **data))
        return True""", 'R02.3')
V('C02', 'dedup-events', BLK, """    elif _is_multiple(args):
        args = tuple(args)""", """    elif _is_multiple(args):
        args = tuple(dict.fromkeys(args))""", 'R02.5')
V('C02', 'wrong-trigger', BLK, """        for event in self._every_output_events:
            event.send(self, trigger='output', previous=previous, value=value)""", """        for event in self._every_output_events:
            event.send(self, trigger='every_output', previous=previous, value=value)""", 'R02.1')
V('C02', 'value-swapped', BLK, """        for event in self._output_events:
            event.send(self, trigger='output', previous=previous, value=value)
        return True""", """        for event in self._output_events:
            event.send(self, trigger='output', previous=value, value=previous)
        return True""", 'R02.1')
V('C02', 'second-delivery', BLK, """        dest.event(self._etype, **data)
        return True""", """        dest.event(self._etype, **data)
        if data.get('repeat_once'):
            dest.event(self._etype, **data)
        return True""", 'R02.4')
V('C02', 'events-rewritten', S1, "    def init_regular(self) -> None:\n        self.set_output(0)\n\n    async def _maintask(self) -> NoReturn:\n        repeating = False", "    def init_regular(self) -> None:\n        self._output_events = ()\n        self.set_output(0)\n\n    async def _maintask(self) -> NoReturn:\n        repeating = False", 'R02.6')
V('C02', 'asyncinit-no-super', ADD, """        super().set_output(value)
        if not self._init_event.is_set():
            self._init_event.set()""", """        if not self._init_event.is_set():
            self._init_event.set()
            super().set_output(value)""", 'R02.7')
V('C02', 'early-return-drops-every', BLK, """            if not self._every_output_events:
                return
            self.log_debug("output: %s (unchanged)", value)""", """            return""", 'R02.2')
V('C02', 'reversed-loop', BLK, """            for event in self._output_events:
                event.send(self, trigger='output', previous=previous, value=value)
        for event in self._every_output_events:""", """            for event in reversed(self._output_events):
                event.send(self, trigger='output', previous=previous, value=value)
        for event in self._every_output_events:""", 'R02')
E('C02', 'kw-order', BLK, """        for event in self._every_output_events:
            event.send(self, trigger='output', previous=previous, value=value)""", """        for event in self._every_output_events:
            event.send(self, value=value, previous=previous, trigger='output')""")
E('C02', 'ne-form', BLK, """        previous = self._output
        if previous == value:
            if not self._every_output_events:
                return
            self.log_debug("output: %s (unchanged)", value)
        else:
            self.log_debug("output: %s -> %s", previous, value)
            self._output = value
            self.circuit.sblock_queue.put_nowait(self)
            for event in self._output_events:
                event.send(self, trigger='output', previous=previous, value=value)
""", """        previous = self._output
        if previous != value:
            self.log_debug("output: %s -> %s", previous, value)
            self._output = value
            self.circuit.sblock_queue.put_nowait(self)
            for event in self._output_events:
                event.send(self, trigger='output', previous=previous, value=value)
        else:
            if not self._every_output_events:
                return
            self.log_debug("output: %s (unchanged)", value)
""")

# ----------------------------------------------------------------------------- C15
V('C15', 'finalize-no-resolve', SIM, "            self._resolver.resolve()\n            self._finalize()\n            self._finalized = True\n", "            self._finalize()\n            self._finalized = True\n", 'R15.1')
V('C15', 'flag-first', SIM, "            self._resolver.resolve()\n            self._finalize()\n            self._finalized = True\n", "            self._finalized = True\n            self._resolver.resolve()\n            self._finalize()\n", 'R15.1')
V('C15', 'connect-ungated', BLK, "        self.circuit.check_not_finalized()\n        if self.inputs:\n", "        if self.inputs:\n", 'R15.3')
V('C15', 'storage-ungated', SIM, "        self.check_not_finalized()\n        self.persistent_dict = persistent_dict\n", "        self.persistent_dict = persistent_dict\n", 'R15.3')
V('C15', 'addblock-overwrites', SIM, """        if blk.name in self._blocks:
            raise ValueError(f"Duplicate block name {blk.name}")
""", "", 'R15.3')
V('C15', 'gate-ignores-finalized', SIM, """        if self._finalized:
            raise EdzedInvalidState("Not allowed in a finalized circuit")
""", "", 'R15.3')
V('C15', 'inverter-always-new', SIM, "            if blk.startswith('_') and blk not in self._blocks:\n", "            if blk.startswith('_'):\n", 'R15.4')
V('C15', 'inverter-wrong-input', SIM, ").connect(blk.removeprefix('_not_'))", ").connect(blk)", 'R15.4')
V('C15', 'resolver-wrong-attr', FIL, "simulator.get_circuit().resolve_name(self, '_ctrl_blk')\n", "simulator.get_circuit().resolve_name(self, '_ctrl_block')\n", 'R15.5')
V('C15', 'resolve-no-store', SIM, "            self._check_type(obj, attr, blk, block_type)\n            setattr(obj, attr, blk)\n        self._unresolved.clear()", "            self._check_type(obj, attr, blk, block_type)\n        self._unresolved.clear()", 'R15.5')
V('C15', 'register-drops-names', SIM, "        if isinstance(blk, str):\n            # name to be resolved\n            self._unresolved.append((obj, attr, block_type))", "        if isinstance(blk, str):\n            # name to be resolved\n            pass", 'R15.5')
V('C15', 'getconf-list', BLK, "                iname: tuple(g.name for g in ival) if isinstance(ival, tuple) else ival.name", "                iname: tuple(g.name for g in ival) if isinstance(ival, list) else ival.name", 'R15.6')
V('C15', 'connect-stores-list', BLK, "            self.inputs[iname] = tuple(inp) if _is_multiple(inp) else inp", "            self.inputs[iname] = list(inp) if _is_multiple(inp) else inp", 'R15.6')
V('C15', 'oconn-other-block', SIM, "                        self._blocks[inp.name].oconnections.add(blk)\n", "                        blk.oconnections.add(inp)\n", 'R15.2')
V('C15', 'event-dest-any-block', BLK, "        simulator.get_circuit().resolve_name(self, '_dest', SBlock)", "        simulator.get_circuit().resolve_name(self, '_dest')", 'R15.5')
V('C15', 'unfinalize', SIM, "    def is_finalized(self) -> bool:\n        \"\"\"Return True only if finalize() was called.\"\"\"\n        return self._finalized\n", "    def is_finalized(self) -> bool:\n        \"\"\"Return True only if finalize() was called.\"\"\"\n        return self._finalized\n\n    def unfreeze(self) -> None:\n        self._finalized = False\n", 'R15.1')
E('C15', 'gate-alias', BLK, "        self.circuit.check_not_finalized()\n        if self.inputs:\n", "        circuit = self.circuit\n        circuit.check_not_finalized()\n        if self.inputs:\n")

# ----------------------------------------------------------------------------- C03
V('C03', 'f14-reverted', FSM, "            self._fsm_event_active = False\n            self._next_event = None     # could be left over after an exception\n",
  "            self._fsm_event_active = False\n", 'R03.5')
V('C03', 'f3-reverted', FSM, """                    etype, data, newstate = self._next_event
                    self._next_event = None
                    # from now on the actions are caused by the chained event
                    fsm_event_data.set(
                        types.MappingProxyType(data) if isinstance(data, MutableMapping) else data)
                    self._run_cb('exit', self._state)
""", """                    self._run_cb('exit', self._state)
                    etype, data, newstate = self._next_event
                    self._next_event = None
""", 'R03.6')
V('C03', 'stop-timer-first', FSM, """                self._run_cb('exit', self._state)
                self._send_events('on_exit')
                self._stop_timer()
""", """                self._stop_timer()
                self._run_cb('exit', self._state)
                self._send_events('on_exit')
""", 'R03.1')
V('C03', 'on-enter-before-output', FSM, """            output = self.calc_output()
            if output is not block.UNDEF:
                self.set_output(output)
            self._send_events('on_enter')
            return True""", """            self._send_events('on_enter')
            output = self.calc_output()
            if output is not block.UNDEF:
                self.set_output(output)
            return True""", 'R03.1')
V('C03', 'output-before-enter', FSM, """                self._state = newstate
                with self._enable_event:        # type: ignore[attr-defined]
                    self._run_cb('enter', self._state)
""", """                self._state = newstate
                if (out := self.calc_output()) is not block.UNDEF:
                    self.set_output(out)
                with self._enable_event:        # type: ignore[attr-defined]
                    self._run_cb('enter', self._state)
""", 'R03.1')
V('C03', 'intermediate-exit-skipped', FSM, """                        types.MappingProxyType(data) if isinstance(data, MutableMapping) else data)
                    self._run_cb('exit', self._state)
""", """                        types.MappingProxyType(data) if isinstance(data, MutableMapping) else data)
""", None, note='allowed by X? in the language - property says its exit action runs; see R03.1b')
V('C03', 'notrans-on-cond', FSM, """                self.log_debug(
                    "not executing event %s (%s -> %s), condition not satisfied",
                    etype, self._state, newstate)
                return False
""", """                self.log_debug(
                    "not executing event %s (%s -> %s), condition not satisfied",
                    etype, self._state, newstate)
                for event in self._on_notrans:
                    event.send(self, trigger='notrans', event=etype, state=self._state)
                return False
""", 'R03.2')
V('C03', 'state-written-on-reject', FSM, """            if self.is_initialized() and not all(self._run_cb('cond', etype)):
""", """            self._prev_state, self._state = self._state, self._state
            if self.is_initialized() and not all(self._run_cb('cond', etype)):
""", 'R03.2')
V('C03', 'anystate-first', FSM, """            try:
                newstate = self._ct_transition[(etype, self._state)]
            except KeyError:
                newstate = self._ct_transition.get((etype, None), None)
""", """            try:
                newstate = self._ct_transition[(etype, None)]
            except KeyError:
                newstate = self._ct_transition.get((etype, self._state), None)
""", 'R03.3')
V('C03', 'cond-any', FSM, "not all(self._run_cb('cond', etype))", "not any(self._run_cb('cond', etype))", 'R03.4')
V('C03', 'cond-uninitialised', FSM, "            if self.is_initialized() and not all(self._run_cb('cond', etype)):", "            if not all(self._run_cb('cond', etype)):", 'R03.4')
V('C03', 'goto-checks-cond', FSM, """            newstate = etype.state
            self._check_state(newstate)
        else:""", """            newstate = etype.state
            self._check_state(newstate)
            if self.is_initialized() and not all(self._run_cb('cond', 'goto')):
                return False
        else:""", 'R03.3')
V('C03', 'unbounded-chain', FSM, "            for _ in range(self._ct_chainlimit):\n", "            for _ in iter(int, 1):\n", 'R03.5')
V('C03', 'runcb-method-only-if-no-function', FSM, """        else:
            retvals.append(cb())
        cls_cb = self._ct_methods[cb_type]
        try:
            cb = cls_cb[name]
        except KeyError:
            pass
        else:
            # cb is an unbound method
            retvals.append(cb(self))
        return retvals""", """        else:
            retvals.append(cb())
            return retvals
        cls_cb = self._ct_methods[cb_type]
        try:
            cb = cls_cb[name]
        except KeyError:
            pass
        else:
            # cb is an unbound method
            retvals.append(cb(self))
        return retvals""", 'R03.4')
V('C03', 'accepted-returns-none', FSM, "            self._next_event = (etype, data, newstate)\n            return True\n", "            self._next_event = (etype, data, newstate)\n            return None\n", 'R03.2')
V('C03', 'data-mutable', FSM, "            rodata = types.MappingProxyType(data)\n", "            rodata = data\n", 'R03.6')
V('C03', 'no-context-copy', FSM, "        return contextvars.copy_context().run(self._ctx_event, etype, data)", "        return self._ctx_event(etype, data)", 'R03.6')
V('C03', 'on-exit-state-new', FSM, """        state_events = self._state_events[trigger_type]
        state = self._state
""", """        state_events = self._state_events[trigger_type]
        state = self._state if trigger_type == 'on_enter' else None
""", 'R03.1')
E('C03', 'ifkey-lookup', FSM, """            try:
                newstate = self._ct_transition[(etype, self._state)]
            except KeyError:
                newstate = self._ct_transition.get((etype, None), None)
""", """            if (etype, self._state) in self._ct_transition:
                newstate = self._ct_transition[(etype, self._state)]
            else:
                newstate = self._ct_transition.get((etype, None), None)
""")
E('C03', 'set-via-local', FSM, """                    fsm_event_data.set(
                        types.MappingProxyType(data) if isinstance(data, MutableMapping) else data)
""", """                    ro = types.MappingProxyType(data) if isinstance(data, MutableMapping) else data
                    fsm_event_data.set(ro)
""")

# ----------------------------------------------------------------------------- C04
V('C04', 'f11-reverted', FSM, "            duration, self._timer_expired, timed_event)", "            duration, self.event, timed_event)", 'R04.8')
V('C04', 'expiry-keeps-handle', FSM, "        self._active_timer = None\n        self.event(timed_event)\n", "        self.event(timed_event)\n", 'R04.8')
V('C04', 'zero-lt', FSM, "        if duration <= 0.0:\n            self.log_debug(\"timer: zero delay before %s\", timed_event)", "        if duration < 0.0:\n            self.log_debug(\"timer: zero delay before %s\", timed_event)", 'R04.6')
V('C04', 'cancel-dropped', FSM, """            if not timer.cancelled():
                timer.cancel()
                # do not rely on the existence of the private attribute '_scheduled'
                if getattr(timer, '_scheduled', True):
                    self.log_debug("timer: cancelled")
            self._active_timer = None""", """            self._active_timer = None""", 'R04.2')
V('C04', 'handle-not-stored', FSM, """        self._active_timer = asyncio.get_running_loop().call_later(
            duration, self._timer_expired, timed_event)""", """        asyncio.get_running_loop().call_later(
            duration, self._timer_expired, timed_event)""", 'R04.1')
V('C04', 'stop-without-timer', FSM, "        \"\"\"Cleanup.\"\"\"\n        self._stop_timer()\n        super().stop()", "        \"\"\"Cleanup.\"\"\"\n        super().stop()", 'R04.5')
V('C04', 'stop-timer-after-state', FSM, """                self._send_events('on_exit')
                self._stop_timer()
            assert self._next_event is None""", """                self._send_events('on_exit')
            assert self._next_event is None""", 'R04.3')
V('C04', 'shared-defaults', FSM, "            self._duration = self._ct_default_duration.copy()   # copy on write", "            self._duration = self._ct_default_duration   # copy on write", 'R04.6')
V('C04', 'event-duration-ignored', FSM, "                        self._start_timer(data.get('duration'), timed_event)", "                        self._start_timer(None, timed_event)", 'R04.6')
V('C04', 'default-beats-event', FSM, """        if duration is not None:
            duration = utils.time_period(duration)
        else:
            duration = self._duration.get(self._state)
            if duration is None:    # not found or explicitly set to None
                raise EdzedCircuitError(f"Timer duration for state {self._state!r} not set")
""", """        default = self._duration.get(self._state)
        if default is not None:
            duration = default
        elif duration is not None:
            duration = utils.time_period(duration)
        else:
            raise EdzedCircuitError(f"Timer duration for state {self._state!r} not set")
""", 'R04.6')
V('C04', 'inf-fires', FSM, "        if duration == INF_TIME:\n            return\n", "        if duration == INF_TIME:\n            duration = 0.0\n", 'R04.6')
V('C04', 'immediate-and-timer', FSM, "            self.event(timed_event)\n            return\n        self._set_timer(duration, timed_event)", "            self.event(timed_event)\n        self._set_timer(duration, timed_event)", 'R04.4')
V('C04', 'timer-elsewhere', S1, "        self.set_output(0)\n        self._repeated_event.send(self, **data, repeat=0)\n        self._queue.put_nowait(data)", "        self.set_output(0)\n        self._repeated_event.send(self, **data, repeat=0)\n        asyncio.get_running_loop().call_later(self._interval, self._queue.put_nowait, data)", 'R04.1')
V('C04', 'wrong-timed-event', FSM, "                    timed_event = self._ct_timed_event[newstate]\n                except KeyError:\n                    pass    # new state is not a timed state", "                    timed_event = self._ct_timed_event[etype]\n                except KeyError:\n                    pass    # new state is not a timed state", 'R04.6')
V('C04', 'timer-table', 'edzed/blocklib/fsms.py', "        'on': (fsm.INF_TIME, 'stop'),\n", "        'on': (fsm.INF_TIME, 'start'),\n", 'R04.9')
E('C04', 'gt-form', FSM, "        if duration <= 0.0:\n            self.log_debug(\"timer: zero delay before %s\", timed_event)\n            self.event(timed_event)\n            return\n        self._set_timer(duration, timed_event)", "        if duration > 0.0:\n            self._set_timer(duration, timed_event)\n            return\n        self.log_debug(\"timer: zero delay before %s\", timed_event)\n        self.event(timed_event)")
E('C04', 'expiry-finally', FSM, "        self._active_timer = None\n        self.event(timed_event)\n", "        timer, self._active_timer = self._active_timer, None\n        self.event(timed_event)\n", note='tuple assignment')

# ----------------------------------------------------------------------------- C05
V('C05', 'f4-reverted', SIM, "        if (error := self._error) is not None or self._simtask.done():", "        error = self._error\n        if self._simtask.done():", 'R05.7')
V('C05', 'value-before-regular', SIM, """                blk.init_regular()
                if (not blk.is_initialized()
                        and blk.has_method('init_from_value')
                        and blk.initdef is not block.UNDEF):
                    blk.init_from_value(blk.initdef)
""", """                if (not blk.is_initialized()
                        and blk.has_method('init_from_value')
                        and blk.initdef is not block.UNDEF):
                    blk.init_from_value(blk.initdef)
                blk.init_regular()
""", 'R05.1')
V('C05', 'value-unguarded', SIM, """                if (not blk.is_initialized()
                        and blk.has_method('init_from_value')
                        and blk.initdef is not block.UNDEF):
                    blk.init_from_value(blk.initdef)""", """                if (blk.has_method('init_from_value')
                        and blk.initdef is not block.UNDEF):
                    blk.init_from_value(blk.initdef)""", 'R05.1')
V('C05', 'marker-missing', SIM, "                blk.init_steps_completed = -2\n", "", 'R05.1')
V('C05', 'restore-after-regular', SIM, """            if steps == 0:
                blk.init_steps_completed = -1
                if isinstance(blk, addons.AddonPersistence) and blk.persistent:
                    blk.init_from_persistent_data()
                    if blk.is_initialized():
                        blk.log_debug("initialized from saved state")
                blk.init_steps_completed = 1
            if steps == 1 or steps == 0 and full:
                blk.init_steps_completed = -2
                blk.init_regular()""", """            if steps == 0:
                blk.init_steps_completed = -1
                blk.init_steps_completed = 1
            if steps == 1 or steps == 0 and full:
                blk.init_steps_completed = -2
                blk.init_regular()
                if isinstance(blk, addons.AddonPersistence) and blk.persistent:
                    blk.init_from_persistent_data()""", 'R05.1')
V('C05', 'step2-always', SIM, "            if steps == 1 or steps == 0 and full:\n", "            if steps <= 1:\n", 'R05.2')
V('C05', 'early-init-range', BLK, "            if 0 <= self.init_steps_completed < 2:\n", "            if self.init_steps_completed < 2:\n", 'R05.2')
V('C05', 'merged-check', SIM, """        for blk in self.getblocks(block.SBlock):
            self.init_sblock(blk, full=False)
            # do not test yet, because the block might be still uninitialized
            # and waiting for an event that will be sent during another block's init
        for blk in self.getblocks(block.SBlock):
            if not blk.is_initialized():
                raise EdzedCircuitError(f"{blk}: not initialized")
""", """        for blk in self.getblocks(block.SBlock):
            self.init_sblock(blk, full=False)
            if not blk.is_initialized():
                raise EdzedCircuitError(f"{blk}: not initialized")
""", 'R05.4')
V('C05', 'timeout-ge', SIM, "                and blk.init_timeout > 0.0]", "                and blk.init_timeout >= 0.0]", 'R05.5')
V('C05', 'bare-await', SIM, "                        await asyncio.wait_for(task, timeout - get_time() + start_time)", "                        await task", 'R05.5')
V('C05', 'ascending-sort', SIM, "sorted(btt_list, key=operator.itemgetter(2), reverse=True)", "sorted(btt_list, key=operator.itemgetter(2))", 'R05.5')
V('C05', 'signal-before-sync2', SIM, """            self._init_sblocks_sync_2()
            start_ok = True

            if self._error is None:
                self.log_debug("Starting simulation")
                self._init_done.set()""", """            self._init_done.set()
            self._init_sblocks_sync_2()
            start_ok = True

            if self._error is None:
                self.log_debug("Starting simulation")""", 'R05.3')
V('C05', 'init-error-logged', SIM, """        except Exception as err:
            # add the block name
            add_note(err, f"block: {blk}, initialization error")
            raise
""", """        except Exception as err:
            # add the block name
            add_note(err, f"block: {blk}, initialization error")
            blk.log_error("initialization error: %s", err)
""", 'R05.6')
V('C05', 'async-also-initialized', SIM, "            if not blk.is_initialized()\n                and blk.has_method('init_async')", "            if blk.has_method('init_async')", 'R05.5')
V('C05', 'second-caller', S2, "    def init_regular(self) -> None:\n        if self.is_initialized() or self.initdef is not block.UNDEF:\n            return      # is initialized or will be initialized", "    def init_regular(self) -> None:\n        if self.initdef is not block.UNDEF:\n            self.init_from_value(self.initdef)\n        if self.is_initialized():\n            return      # is initialized or will be initialized", 'R05.2')
E('C05', 'list-copy', SIM, """        for blk in self.getblocks(block.SBlock):
            if not blk.is_initialized():
                raise EdzedCircuitError(f"{blk}: not initialized")""", """        for blk in self.getblocks(block.SBlock):
            if blk.is_initialized():
                continue
            raise EdzedCircuitError(f"{blk}: not initialized")""")
E('C05', 'isready-test', SIM, "        if (error := self._error) is not None or self._simtask.done():", "        error = self._error\n        if not self.is_ready() or self._simtask.done():")

# ----------------------------------------------------------------------------- C06
V('C06', 'f10-reverted', SIM, """            await asyncio.sleep(0)
            self.log_debug("Initializing sequential blocks")
            self._init_sblocks_sync_1()
            await self._init_sblocks_async()
            self._init_sblocks_sync_2()
            start_ok = True
""", """            await asyncio.sleep(0)
            start_ok = True
            self.log_debug("Initializing sequential blocks")
            self._init_sblocks_sync_1()
            await self._init_sblocks_async()
            self._init_sblocks_sync_2()
""", 'R06.4')
V('C06', 'save-in-finally', ADD, """        try:
            retval = super().event(etype, **data)
        except Exception:
            if self.persistent and not self.circuit.is_ready():
                # The internal state data may be corrupted, because it looks like
                # event() decided to stop the simulation in reaction to this exception.
                # (Never mind if it wasn't this exception but some previous one.)
                self.log_warning("Disabling persistent state due to an error")
                self.persistent = False
            raise
        if self.persistent and self.sync_state:
            self.save_persistent_state()
        return retval""", """        try:
            retval = super().event(etype, **data)
        finally:
            if self.persistent and self.sync_state:
                self.save_persistent_state()
        return retval""", 'R06.1')
V('C06', 'save-before-handler', ADD, """        try:
            retval = super().event(etype, **data)
        except Exception:""", """        if self.persistent and self.sync_state:
            self.save_persistent_state()
        try:
            retval = super().event(etype, **data)
        except Exception:""", 'R06.1')
V('C06', 'save-ignores-syncstate', ADD, "        if self.persistent and self.sync_state:\n            self.save_persistent_state()\n        return retval", "        if self.persistent:\n            self.save_persistent_state()\n        return retval", 'R06.1')
V('C06', 'error-swallowed', ADD, """                self.log_warning("Disabling persistent state due to an error")
                self.persistent = False
            raise
""", """                self.log_warning("Disabling persistent state due to an error")
                self.persistent = False
                return None
            raise
""", 'R06.1')
V('C06', 'persistence-kept-after-error', ADD, """                self.log_warning("Disabling persistent state due to an error")
                self.persistent = False
""", """                self.log_warning("Disabling persistent state due to an error")
""", 'R06.1')
V('C06', 'stop-then-save', SIM, """            if start_ok and self.persistent_dict is not None:
                for blk in started_blocks.intersection(self.getblocks(addons.AddonPersistence)):
                    blk.save_persistent_state()
                self.persistent_dict['edzed-stop-time'] = time.time()
            await self._stop_sblocks(started_blocks)
""", """            await self._stop_sblocks(started_blocks)
            if start_ok and self.persistent_dict is not None:
                for blk in started_blocks.intersection(self.getblocks(addons.AddonPersistence)):
                    blk.save_persistent_state()
                self.persistent_dict['edzed-stop-time'] = time.time()
""", 'R06.3')
V('C06', 'save-unconditional', SIM, "            if start_ok and self.persistent_dict is not None:\n                for blk in started_blocks", "            if self.persistent_dict is not None:\n                for blk in started_blocks", 'R06')
V('C06', 'raw-loop-time', FSM, "            exp_timestamp = looptimes.loop_to_unixtime(timer.when())", "            exp_timestamp = timer.when()", 'R06.6')
V('C06', 'restore-loop-base', FSM, "            remaining = exp_timestamp - time.time()", "            remaining = exp_timestamp - asyncio.get_running_loop().time()", 'R06')
V('C06', 'tuple-extended-one-side', FSM, "        return (self._state, exp_timestamp, self.sdata)", "        return (self._state, exp_timestamp, self.sdata, type(self).__name__)", 'R06.5')
V('C06', 'positions-swapped', FSM, "        return (self._state, exp_timestamp, self.sdata)", "        return (self._state, self.sdata, exp_timestamp)", 'R06.5')
V('C06', 'reconfig-kw-renamed', TD, """            weekdays: Optional[str|Sequence[int]] = None,
            **_data
            ) -> None:
        \"\"\"Reconfigure the block.\"\"\"""", """            wdays: Optional[str|Sequence[int]] = None,
            **_data
            ) -> None:
        \"\"\"Reconfigure the block.\"\"\"
        weekdays = wdays""", 'R06.5')
V('C06', 'expiry-inverted', ADD, "            if ts is not None and ts + exp < time.time():", "            if ts is not None and ts + exp > time.time():", 'R06')
V('C06', 'exp-zero-restores', ADD, """            if exp <= 0.0:
                return
            ts = self.circuit.persistent_ts""", """            ts = self.circuit.persistent_ts""", 'R06.7')
V('C06', 'restore-reruns-enter', FSM, """        self._state = state
        self.sdata = sdata
        self.log_debug("state: <UNDEF> -> %s", state)""", """        self._state = state
        self.sdata = sdata
        self._run_cb('enter', state)
        self.log_debug("state: <UNDEF> -> %s", state)""", 'R06.7')
V('C06', 'expired-timer-installed', FSM, """            if remaining <= 0.0:
                self.log_debug("restore state: ignoring expired state")
                return
""", """            if remaining <= 0.0:
                self.log_debug("restore state: ignoring expired state")
                remaining = 0.001
""", 'R06.7')
V('C06', 'purge-reserved', SIM, """            if key.startswith('edzed-'):
                continue
            _logger.info("Removing unused persistent state for '%s'", key)""", """            _logger.info("Removing unused persistent state for '%s'", key)""", 'R06.8')
V('C06', 'ts-key-mismatch', SIM, "                self.persistent_dict['edzed-stop-time'] = time.time()", "                self.persistent_dict['edzed-stop-ts'] = time.time()", 'R06.8')
V('C06', 'foreign-writer', S1, "        output = value if self._mod is None else value % self._mod\n        self.set_output(output)\n", "        output = value if self._mod is None else value % self._mod\n        self.set_output(output)\n        if self.circuit.persistent_dict is not None:\n            self.circuit.persistent_dict[self.key] = output\n", 'R06.2')
V('C06', 'save-before-check', SIM, """        for blk in self.getblocks(block.SBlock):
            if not blk.is_initialized():
                raise EdzedCircuitError(f"{blk}: not initialized")
        # save the internal states after initialization
        if self.persistent_dict is not None:
            for blk in self.getblocks(addons.AddonPersistence):
                blk.save_persistent_state()
""", """        # save the internal states after initialization
        if self.persistent_dict is not None:
            for blk in self.getblocks(addons.AddonPersistence):
                blk.save_persistent_state()
        for blk in self.getblocks(block.SBlock):
            if not blk.is_initialized():
                raise EdzedCircuitError(f"{blk}: not initialized")
""", 'R06.3')
V('C06', 'stale-entry-kept', ADD, "            persistent_dict.pop(self.key, None)  # remove stale data\n", "", 'R06.2')
E('C06', 'early-return-style', ADD, "        if self.persistent and self.sync_state:\n            self.save_persistent_state()\n        return retval", "        if not (self.persistent and self.sync_state):\n            return retval\n        self.save_persistent_state()\n        return retval")
EM('C06', 'flag-renamed', [(SIM, "        start_ok = False\n", "        init_ok = False\n"),
                            (SIM, "            start_ok = True\n", "            init_ok = True\n"),
                            (SIM, "            if start_ok and self.persistent_dict is not None:", "            if init_ok and self.persistent_dict is not None:")])

# ----------------------------------------------------------------------------- C07
V('C07', 'f13-reverted', CRON, "                if step > 1 or sleeptime < 0 or sleeptime > SEC_PER_HOUR + _TT_ERROR:",
  "                if step > 1 or sleeptime < 0:", 'R07.11')
V('C07', 'jump-guard-only-at-step-1', CRON, "                if step > 1 or sleeptime < 0 or sleeptime > SEC_PER_HOUR + _TT_ERROR:",
  "                if step > 1 or sleeptime < 0 or (step == 1 and sleeptime > SEC_PER_DAY):", 'R07.11')
E('C07', 'jump-guard-negated-le', CRON, "                if step > 1 or sleeptime < 0 or sleeptime > SEC_PER_HOUR + _TT_ERROR:",
  "                if step > 1 or sleeptime < 0 or not sleeptime <= SEC_PER_HOUR + _TT_ERROR:")
V('C07', 'f5-reverted', CRON, "for blk in set().union(*self._alarms.values()):  # all blocks", "for blk in set.union(*self._alarms.values()):  # all blocks", 'R07.1')
V('C07', 'reset-keeps-index', CRON, """                    blk.recalc(nowdt)
                index = None
                continue
            if reload:""", """                    blk.recalc(nowdt)
                continue
            if reload:""", 'R07.2')
V('C07', 'reset-no-recalc', CRON, """                for blk in set().union(*self._alarms.values()):  # all blocks
                    assert hasattr(blk, 'recalc')
                    blk.recalc(nowdt)
                index = None""", """                index = None""", 'R07.2')
V('C07', 'no-hourly', CRON, "timetable = sorted(_SET24.union(self._alarms))", "timetable = sorted(self._alarms)", 'R07.1')
V('C07', 'raise-on-drift', CRON, "                self.log_warning(\"Resetting due to a time tracking problem.\")\n", "                self.log_warning(\"Resetting due to a time tracking problem.\")\n                if abs(diff) > 10 * SEC_PER_HOUR:\n                    raise RuntimeError('system clock is unusable')\n", 'R07.2')
V('C07', 'no-reload', TD, """        self._cron.add_block(dt.time(0, 0, 0), self)
        self._cron.reload()
        self.recalc(self._cron.dtnow())""", """        self._cron.add_block(dt.time(0, 0, 0), self)
        self.recalc(self._cron.dtnow())""", 'R07.3')
V('C07', 'add-before-store', TD, """        self._times, self._dates, self._weekdays = self._parse3(times, dates, weekdays)
        if self._times is not None:
            for time_of_day in self._times.range_endpoints():
                self._cron.add_block(time_of_day, self)
""", """        if self._times is not None:
            for time_of_day in self._times.range_endpoints():
                self._cron.add_block(time_of_day, self)
        self._times, self._dates, self._weekdays = self._parse3(times, dates, weekdays)
""", 'R07.3')
V('C07', 'no-midnight', TD, "        self._cron.add_block(dt.time(0, 0, 0), self)\n", "        if self._dates is not None:\n            self._cron.add_block(dt.time(0, 0, 0), self)\n", 'R07.3')
V('C07', 'span-strict-future', TD, "            if datetime.date() >= now_date:", "            if datetime.date() > now_date:", 'R07.3')
V('C07', 'recalc-before-reload', TD, """        self._cron.reload()
        self.recalc(now)""", """        self.recalc(now)
        self._cron.reload()""", 'R07.3')
V('C07', 'weekday-monday0', TD, "            and (self._weekdays is None or now.isoweekday() in self._weekdays))", "            and (self._weekdays is None or now.weekday() in self._weekdays))", 'R07.5')
V('C07', 'dates-or', TD, """            and (self._dates is None
                 or ti.convert_date_seq([now.month, now.day]) in self._dates)""", """            or (self._dates is not None
                and ti.convert_date_seq([now.month, now.day]) in self._dates)""", 'R07.5')
V('C07', 'unconfigured-true', TD, "            self._is_configured()\n            and (self._times is None", "            (self._times is None", 'R07.5')
V('C07', 'sunday-zero', TD, "pweekdays = frozenset(7 if x == 0 else x for x in weekdays)", "pweekdays = frozenset(0 if x == 7 else x for x in weekdays)", 'R07.5')
V('C07', 'wrong-clock', TD, "        self.recalc(self._cron.dtnow())", "        self.recalc(dt.datetime.now())", 'R07.4')
V('C07', 'cron-mode-swapped', TD, "        cronblock = cron.Cron(name, utc=utc, _reserved=True)", "        cronblock = cron.Cron(name, utc=False, _reserved=True)", 'R07.4')
V('C07', 'queue-sleep-plain', CRON, """                    try:
                        await asyncio.wait_for(self._queue.get(), sleeptime - overhead)
                    except asyncio.TimeoutError:
                        pass
                    else:
                        reload.set()
                        break""", """                    await asyncio.sleep(sleeptime - overhead)""", 'R07.3')
E('C07', 'union-method', CRON, "for blk in set().union(*self._alarms.values()):  # all blocks", "for blk in {b for blks in self._alarms.values() for b in blks}:  # all blocks")
E('C07', 'recalc-local', TD, "        self.recalc(self._cron.dtnow())", "        now = self._cron.dtnow()\n        self.recalc(now)")

# ----------------------------------------------------------------------------- C08
V('C08', 'f1-reverted', BLK, """    @classmethod
    def shutdown(cls) -> Event:
        return cls('_ctrl', 'shutdown')

""", "", 'R08.11')
V('C08', 'f6-reverted', SIM, """        init_done = asyncio.create_task(self._init_done.wait())
        try:
            await asyncio.wait([init_done, self._simtask], return_when=asyncio.FIRST_COMPLETED)
        finally:
            # do not leave the helper task pending if the simulation task has finished first
            init_done.cancel()
""", """        await asyncio.wait(
            [asyncio.create_task(self._init_done.wait()), self._simtask],
            return_when=asyncio.FIRST_COMPLETED)
""", 'R08.5')
V('C08', 'f7-reverted', SIM, """        finally:
            # when cancelled, wait_for() cancels only the task being awaited;
            # do not let the other tasks outlive the simulation
            for _, task, _ in btt_list:
                if not task.done():
                    task.cancel()
""", """        finally:
            pass
""", 'R08.5')
V('C08', 'add-before-start', SIM, "                blk.start()\n                started_blocks.add(blk)\n", "                started_blocks.add(blk)\n                blk.start()\n", 'R08.1')
V('C08', 'cleanup-bypassed', SIM, """        if isinstance(self._error, asyncio.CancelledError):
            _logger.info("Normal circuit simulation stop")
        else:""", """        if isinstance(self._error, asyncio.CancelledError):
            _logger.info("Normal circuit simulation stop")
        elif isinstance(self._error, EdzedInvalidState):
            raise self._error
        else:""", 'R08.2')
V('C08', 'second-cancel-site', SIM, """        self.abort(asyncio.CancelledError('shutdown'))
        try:
            await self._simtask""", """        self.abort(asyncio.CancelledError('shutdown'))
        self._simtask.cancel()
        try:
            await self._simtask""", 'R08.3')
V('C08', 'stop-not-isolated', SIM, """        for blk in sync_blocks:
            try:
                blk.stop()
            except Exception:
                _logger.error("%s: ignored error in stop()", blk, exc_info=True)
""", """        for blk in sync_blocks:
            blk.stop()
""", 'R08.4')
V('C08', 'sync-first', SIM, """        sync_blocks = blocks.difference(async_blocks)

        # 1. async blocks""", """        sync_blocks = blocks.difference(async_blocks)
        for blk in sync_blocks:
            try:
                blk.stop()
            except Exception:
                _logger.error("%s: ignored error in stop()", blk, exc_info=True)
        sync_blocks = ()

        # 1. async blocks""", 'R08.4')
V('C08', 'partition-overlap', SIM, "        sync_blocks = blocks.difference(async_blocks)\n", "        sync_blocks = blocks\n", 'R08.4')
V('C08', 'fire-and-forget', S1, "    def start(self) -> None:\n        super().start()\n        self._queue = asyncio.Queue()\n\n\nclass ValuePoll", "    def start(self) -> None:\n        super().start()\n        self._queue = asyncio.Queue()\n        asyncio.create_task(asyncio.sleep(self._interval))\n\n\nclass ValuePoll", 'R08.5')
V('C08', 'start-no-super', ADD, "    def start(self) -> None:\n        super().start()\n        self._init_event = asyncio.Event()", "    def start(self) -> None:\n        self._init_event = asyncio.Event()", 'R08.7')
V('C08', 'sentinel-before-stopdata', S2, """            self._event_put(**self._stop_data)
        self._queue.put_nowait(None)    # stop serving
        super().stop()""", """            self._queue.put_nowait(None)    # stop serving
            self._event_put(**self._stop_data)
        else:
            self._queue.put_nowait(None)    # stop serving
        super().stop()""", 'R08.8')
V('C08', 'simtask-reset', SIM, "        assert self._error is not None\n        raise self._error\n\n    def abort(", "        assert self._error is not None\n        self._simtask = None\n        raise self._error\n\n    def abort(", 'R08.9')
V('C08', 'mtask-not-awaited', ADD, """        self._mtask.cancel()
        try:
            await self._mtask
        except asyncio.CancelledError:
            pass
        finally:
            self._mtask = None""", """        self._mtask.cancel()
        self._mtask = None""", 'R08')
V('C08', 'handler-not-restored', SIM, """        if self._signo is None:
            return False
        signal.signal(self._signo, self._saved_handler)
        return False""", """        if self._signo is None or _exc_type is not None:
            return False
        signal.signal(self._signo, self._saved_handler)
        return False""", 'R08.10')
V('C08', 'stop-async-timeout-ge', SIM, "                and blk.stop_timeout > 0.0} # type: ignore[attr-defined]", "                and blk.stop_timeout > 1.0} # type: ignore[attr-defined]", 'R08.4')
V('C08', 'outfunc-stopdata-after', S2, """        if self._stop_data is not None:
            self._event_put(**self._stop_data)
        super().stop()


class InitAsync""", """        super().stop()
        if self._stop_data is not None:
            self._event_put(**self._stop_data)


class InitAsync""", 'R08.8')
V('C08', 'mode-tests-same', S2, "        if self._stop_data is not None and self._ctrl_coro == self._ctrl_start:\n            await self._output_coro_wrapper(self._stop_data)", "        if self._stop_data is not None:\n            await self._output_coro_wrapper(self._stop_data)", 'R08.8')
E('C08', 'ensure-future', SIM, "        init_done = asyncio.create_task(self._init_done.wait())", "        init_done = asyncio.ensure_future(self._init_done.wait())")
E('C08', 'rename-tasks', SIM, "            self.log_debug(\"Waiting for async cleanup\")\n            await self._run_tasks(\"stop\", wait_tasks)", "            self.log_debug(\"Waiting for async cleanup\")\n            stop_jobs = wait_tasks\n            await self._run_tasks(\"stop\", wait_tasks)")

# ----------------------------------------------------------------------------- C12
V('C12', 'cancel-arm-returns', S2, """            self.log_debug("output task cancelled")
            for ev in self._on_cancel:
                ev.send(self, trigger='cancel', put=data)
""", """            self.log_debug("output task cancelled")
            for ev in self._on_cancel:
                ev.send(self, trigger='cancel', put=data)
            return
""", 'R12')
V('C12', 'guard-unshielded', S2, "                await utils.shield_cancel(asyncio.sleep(self._guard_time))", "                await asyncio.sleep(self._guard_time)", 'R12.4')
V('C12', 'put-copy', S2, """            for ev in self._on_success:
                ev.send(self, trigger='success', value=retval, put=data)""", """            for ev in self._on_success:
                ev.send(self, trigger='success', value=retval, put=dict(data, value=retval))""", 'R12.1')
V('C12', 'success-in-finally', S2, """        else:
            self.log_debug("output task returned value %r", retval)
            for ev in self._on_success:
                ev.send(self, trigger='success', value=retval, put=data)
        if self._guard_time > 0.0:""", """        finally:
            for ev in self._on_success:
                ev.send(self, trigger='success', value=None, put=data)
        if self._guard_time > 0.0:""", 'R12.1')
V('C12', 'discard-silently', S2, """                self.log_debug("Discarding: %r", data)
                for ev in self._on_cancel:
                    ev.send(self, trigger='cancel', put=data)
                data = new_data""", """                self.log_debug("Discarding: %r", data)
                data = new_data""", 'R12.2')
V('C12', 'lifo-queue', S2, "        self._queue = asyncio.Queue()\n        self._ctrl_task = self._create_monitored_task(", "        self._queue = asyncio.LifoQueue()\n        self._ctrl_task = self._create_monitored_task(", 'R12.5')
V('C12', 'decrement-outside-finally', S2, """        try:
            await self._output_coro(data)
        finally:
            self.set_output(self.output - 1)
""", """        await self._output_coro(data)
        self.set_output(self.output - 1)
""", 'R12.3')
V('C12', 'cancel-at-stop', S2, """                if not stop:
                    task.cancel()
""", """                task.cancel()
""", 'R12.5')
V('C12', 'create-before-await', S2, """            if task and not task.done():
                if not stop:
                    task.cancel()
                # do not use try/await task/except here, because the _output_coro
                # catches all exceptions from user-supplied 'coro'
                await task
""", """            if task and not task.done():
                if not stop:
                    task.cancel()
""", 'R12')
V('C12', 'wait-mode-concurrent', S2, "            await self._output_coro_wrapper(data)\n\n    async def _ctrl_start", "            asyncio.create_task(self._output_coro_wrapper(data))\n\n    async def _ctrl_start", 'R12')
V('C12', 'mode-swapped', S2, """        if mode in {"c", "cancel"}:
            self._ctrl_coro = self._ctrl_cancel
        elif mode in {"w", "wait"}:
            self._ctrl_coro = self._ctrl_wait""", """        if mode in {"c", "cancel"}:
            self._ctrl_coro = self._ctrl_wait
        elif mode in {"w", "wait"}:
            self._ctrl_coro = self._ctrl_cancel""", 'R12.6')
V('C12', 'wrong-trigger', S2, "                ev.send(self, trigger='error', error=err, put=data)", "                ev.send(self, trigger='cancel', error=err, put=data)", 'R12.1')
V('C12', 'error-to-cancel-tuple', S2, "            for ev in self._on_error:\n                ev.send(self, trigger='error', error=err, put=data)", "            for ev in self._on_cancel:\n                ev.send(self, trigger='error', error=err, put=data)", 'R12.1')
V('C12', 'shield-exits-early', SC, """            if task.done():
                # cancelled from within aw
                raise
            cancel_exc = err""", """            if task.done():
                # cancelled from within aw
                raise
            cancel_exc = err
            break""", 'R12.4')
V('C12', 'put-drops-data', S2, "    def _event_put(self, **data) -> None:\n        self._queue.put_nowait(data)", "    def _event_put(self, **data) -> None:\n        self._queue.put_nowait({'value': data.get('value')})", 'R12.2')
V('C12', 'sentinel-data-lost', S2, """                if new_data is None:
                    stop = True
                    break
                self.log_debug("Discarding: %r", data)""", """                if new_data is None:
                    stop = True
                    data = None
                    break
                self.log_debug("Discarding: %r", data)""", None, note='data overwritten before being run')
E('C12', 'arms-reordered', S2, "        if self._guard_time > 0.0:\n            try:\n                await utils.shield_cancel", "        if 0.0 < self._guard_time:\n            try:\n                await utils.shield_cancel")
E('C12', 'counter-local', S2, "        self.set_output(self.output + 1)\n        try:\n            await self._output_coro(data)", "        self.set_output(self._output + 1)\n        try:\n            await self._output_coro(data)")

# ----------------------------------------------------------------------------- C18
V('C18', 'output-lags', S1, "                self.set_output(repeat)\n                self._repeated_event.send(self, **data, repeat=repeat)", "                self._repeated_event.send(self, **data, repeat=repeat)\n                self.set_output(repeat)", 'R18.1')
V('C18', 'output-other-number', S1, "                self.set_output(repeat)\n                self._repeated_event.send(self, **data, repeat=repeat)", "                self.set_output(repeat - 1)\n                self._repeated_event.send(self, **data, repeat=repeat)", 'R18.1')
V('C18', 'orig-source-after', S1, """        data['orig_source'] = data.get('source')
        # the event may come from another Repeat block, this block does its own numbering
        data.pop('repeat', None)
        self.set_output(0)
        self._repeated_event.send(self, **data, repeat=0)
        self._queue.put_nowait(data)""", """        data.pop('repeat', None)
        self.set_output(0)
        self._repeated_event.send(self, **data, repeat=0)
        data['orig_source'] = data.get('source')
        self._queue.put_nowait(data)""", 'R18.2')
V('C18', 'repeat-key-kept-reverted', S1, "        data.pop('repeat', None)\n", "", 'R18.7',
  note='reverts fix db7cab4: Repeat -> Repeat chain raises TypeError (multiple values for repeat)')
V('C18', 'repeat-key-removed-after-send', S1, """        data.pop('repeat', None)
        self.set_output(0)
        self._repeated_event.send(self, **data, repeat=0)
""", """        self.set_output(0)
        self._repeated_event.send(self, **data, repeat=0)
        data.pop('repeat', None)
""", 'R18.7')
V('C18', 'repeat-key-removed-conditionally', S1, "        data.pop('repeat', None)\n",
  "        if self._count is not None:\n            data.pop('repeat', None)\n", 'R18.7')
V('C18', 'repeat-key-copy-queued', S1, "        self._queue.put_nowait(data)\n",
  "        self._queue.put_nowait({**data, 'repeat': 0})\n", 'R18.7')
E('C18', 'repeat-key-del-guarded', S1, "        data.pop('repeat', None)\n",
  "        if 'repeat' in data:\n            del data['repeat']\n")
E('C18', 'repeat-key-pop-first', S1, """        data['orig_source'] = data.get('source')
        # the event may come from another Repeat block, this block does its own numbering
        data.pop('repeat', None)
""", """        data.pop('repeat', None)
        data['orig_source'] = data.get('source')
""")
V('C18', 'no-restart-numbering', S1, """                    data = await asyncio.wait_for(self._queue.get(), self._interval)
                    repeat = 0
""", """                    data = await asyncio.wait_for(self._queue.get(), self._interval)
""", 'R18.2')
V('C18', 'count-le', S1, "            repeating = self._count is None or repeat < self._count", "            repeating = self._count is None or repeat <= self._count", 'R18.6')
V('C18', 'count-none-stops', S1, "            repeating = self._count is None or repeat < self._count", "            repeating = self._count is not None and repeat < self._count", 'R18.6')
V('C18', 'foreign-type-forwarded', S1, """                self._warning_logged = True
            return
""", """                self._warning_logged = True
            self._repeated_event.send(self, **data, repeat=0)
            return
""", 'R18')
V('C18', 'implicit-count-dropped', BLK, "                dest=dest, etype=etype, interval=repeat, count=count)", "                dest=dest, etype=etype, interval=repeat)", 'R18.4')
V('C18', 'implicit-interval-count-swapped', BLK, "                dest=dest, etype=etype, interval=repeat, count=count)", "                dest=dest, etype=etype, interval=count, count=repeat)", 'R18.4')
V('C18', 'negative-count-ok', S1, """        if count is not None and count < 0:
            # count = 0 (no repeating) is accepted
            raise ValueError("argument 'count' must not be negative")
""", "", 'R18.4')
V('C18', 'zero-count-refused', S1, "        if count is not None and count < 0:\n", "        if count is not None and count <= 0:\n", 'R18.4')
V('C18', 'not-enqueued', S1, "        self._repeated_event.send(self, **data, repeat=0)\n        self._queue.put_nowait(data)\n", "        self._repeated_event.send(self, **data, repeat=0)\n        if self._count != 0:\n            self._queue.put_nowait(dict(data))\n", 'R18.2')
V('C18', 'resend-number-zero', S1, "            if repeat > 0:  # skip the original event\n", "            if repeat >= 0:  # skip the original event\n", 'R18.2')
V('C18', 'increment-two', S1, "                    repeat += 1\n", "                    repeat += 2\n", 'R18.2')
V('C18', 'data-not-forwarded', S1, "                self._repeated_event.send(self, **data, repeat=repeat)", "                self._repeated_event.send(self, repeat=repeat)", 'R18.2')
E('C18', 'count-flipped', S1, "            repeating = self._count is None or repeat < self._count", "            repeating = self._count is None or self._count > repeat")
E('C18', 'source-subscript', S1, "        data['orig_source'] = data.get('source')\n", "        data['orig_source'] = data.get('source')\n        self.log_debug('repeating %s', etype)\n")

# ----------------------------------------------------------------------------- C16 DataEdit semantics
V('C16', 'rename-keeps-src', FIL, "            data[dst] = data[src]\n            del data[src]\n            return data", "            data[dst] = data[src]\n            return data", 'R16.4d')
V('C16', 'delete-raises', FIL, "            for key in args:\n                data.pop(key, None)\n            return data", "            for key in args:\n                del data[key]\n            return data", 'R16.4d')
V('C16', 'permit-inverted', FIL, "                if key not in args:\n                    del data[key]", "                if key in args:\n                    del data[key]", 'R16.4d')
V('C16', 'copy-reversed', FIL, "            data[dst] = data[src]\n            return data\n        self._editlist.append(_edit)\n        return self\n\n    @_dualmethod\n    def delete", "            data[src] = data[dst]\n            return data\n        self._editlist.append(_edit)\n        return self\n\n    @_dualmethod\n    def delete", 'R16.4d')
V('C16', 'modify-delete-ignored', FIL, "            if replacement is self.DELETE:\n                del data[key]\n            else:\n                data[key] = replacement", "            if replacement is self.DELETE:\n                data[key] = None\n            else:\n                data[key] = replacement", 'R16.4')
V('C16', 'addoutput-wrong-key', FIL, "self._editlist.append(lambda data: {**data, key: src.block.output})", "self._editlist.append(lambda data: {key: src.block.output, **data})", 'R16.4d')
E('C16', 'rename-pop', FIL, "            data[dst] = data[src]\n            del data[src]\n            return data", "            value = data[src]\n            data[dst] = value\n            del data[src]\n            return data")
E('C16', 'permit-comprehension', FIL, """            for key in list(data):
                if key not in args:
                    del data[key]
            return data""", """            for key in [k for k in list(data) if k not in args]:
                del data[key]
            return data""", note='list comprehension is outside the fragment -> expect exit 2? kept to document the limit')

# ----------------------------------------------------------------------------- deepening variants
V('C01', 'xor-exactly-one', CB, "func=lambda inputs: bool(sum(1 for v in inputs if v) % 2),", "func=lambda inputs: sum(1 for v in inputs if v) == 1,", 'R01.12')
V('C01', 'override-inverted', CB, "        return self._in.input if override == self._null else override", "        return override if override == self._null else self._in.input", 'R01.12')
V('C01', 'compare-lt', CB, "        return self._in['_'][0] >= thr", "        return self._in['_'][0] > thr", 'R01.11')
V('C01', 'compare-thresholds-swapped', CB, "            thr = self._low if self._output else self._high", "            thr = self._high if self._output else self._low", 'R01.11')
V('C04', 'timer-not-restartable-start', 'edzed/blocklib/fsms.py', "        return self._restartable or self._state != 'on'", "        return self._restartable and self._state != 'on'", 'R04.10')
V('C04', 'timer-period-full', 'edzed/blocklib/fsms.py', "            kwargs['t_on'] = kwargs['t_off'] = period / 2", "            kwargs['t_on'] = kwargs['t_off'] = period", 'R04.10')
V('C04', 'inputexp-duration-default', S2, "            t_valid=duration,\n", "            t_expired=duration,\n", 'R04.10')
V('C05', 'budget-per-task', SIM, """        start_time = get_time()
        try:
            for blk, task, timeout in sorted(btt_list, key=operator.itemgetter(2), reverse=True):
                # sorted from longest timeout
                if not task.done():""", """        try:
            for blk, task, timeout in sorted(btt_list, key=operator.itemgetter(2), reverse=True):
                # sorted from longest timeout
                start_time = get_time()
                if not task.done():""", 'R05.5')
V('C07', 'bisect-right', CRON, "index = bisect.bisect_left(timetable, nowt) % tlen", "index = bisect.bisect_right(timetable, nowt) % tlen", 'R07.6')
E('C05', 'budget-elapsed-form', SIM, "await asyncio.wait_for(task, timeout - get_time() + start_time)", "await asyncio.wait_for(task, timeout - (get_time() - start_time))")

# ---- C19 R19.3b (fraction test vs separator class of the pattern; seeded change C19-1)
V('C19', 'comma-fraction-unchecked', TU, """        if (decimal_comma := ',' in value) or ('.' in value):
            if not smallest_unit:
                raise ValueError("only the smallest unit may have a fractional part")
            if decimal_comma:
                value = value.replace(',', '.', 1)
        num = float(value)
""", """        if '.' in value and not smallest_unit:
            raise ValueError("only the smallest unit may have a fractional part")
        num = float(value.replace(',', '.', 1))
""", 'R19.3')
V('C19', 'comma-not-replaced-when-smallest', TU, """            if decimal_comma:
                value = value.replace(',', '.', 1)
""", """            if decimal_comma and not smallest_unit:
                value = value.replace(',', '.', 1)
""", 'R19.3')
E('C19', 'fraction-test-two-ifs', TU, """        if (decimal_comma := ',' in value) or ('.' in value):
            if not smallest_unit:
                raise ValueError("only the smallest unit may have a fractional part")
            if decimal_comma:
                value = value.replace(',', '.', 1)
        num = float(value)
""", """        value = value.replace(',', '.')
        if '.' in value and not smallest_unit:
            raise ValueError("only the smallest unit may have a fractional part")
        num = float(value)
""")

# ---- C11 R11.1 (guard held during the dispatch) / R11.7 (refusal never swallowed); seeds C11-1, C11-2
V('C11', 'early-init-guard-not-restored', BLK, """                with self._enable_event:    # type: ignore[attr-defined]
                    try:
                        self.circuit.init_sblock(self, full=True)
                    except Exception as err:
                        # a failed initialization is fatal even if the sender of this event
                        # catches the exception
                        self.circuit.abort(err)
                        raise
""", """                self._event_active = False
                self.circuit.init_sblock(self, full=True)
""", 'R11.1')
V('C11', 'outputfunc-success-sent-inside-try', S2, """            result = self._func(*args, **kwargs)
        except Exception as err:
            self.log_error(
                "output function failed; args: %s; error: %r",
                _args_as_string(args, kwargs), err)
            for ev in self._on_error:
                ev.send(self, trigger='error', error=err)
            return ('error', err)
        self.log_debug("output function returned: %r", result)
        for ev in self._on_success:
            ev.send(self, trigger='success', value=result)
        return ('result', result)
""", """            result = self._func(*args, **kwargs)
            self.log_debug("output function returned: %r", result)
            for ev in self._on_success:
                ev.send(self, trigger='success', value=result)
        except Exception as err:
            self.log_error(
                "output function failed; args: %s; error: %r",
                _args_as_string(args, kwargs), err)
            for ev in self._on_error:
                ev.send(self, trigger='error', error=err)
            return ('error', err)
        return ('result', result)
""", 'R11.7')
V('C11', 'outputasync-success-sent-inside-try', S2, """            retval = await self._coro(*args, **kwargs)
        except asyncio.CancelledError:""", """            retval = await self._coro(*args, **kwargs)
            for ev in self._on_success:
                ev.send(self, trigger='success', value=retval, put=data)
        except asyncio.CancelledError:""", 'R11.7')
V('C11', 'setoutput-error-logged-only', BLK, """                    retval = self._event(etype, data)
            except EdzedUnknownEvent:
                raise
""", """                    try:
                        retval = self._event(etype, data)
                    except EdzedCircuitError as cerr:
                        self.log_error("event failed: %s", cerr)
                        retval = None
            except EdzedUnknownEvent:
                raise
""", 'R11.7')
E('C11', 'outputfunc-func-alias', S2, """            result = self._func(*args, **kwargs)
        except Exception as err:
            self.log_error(
                "output function failed; args: %s; error: %r",""", """            func = self._func
            result = func(*args, **kwargs)
        except Exception as err:
            self.log_error(
                "output function failed; args: %s; error: %r",""")

# ---- C12 R12.2 at most one outcome / R12.5 every started run awaited (seeds C12-1, C12-2)
V('C12', 'cancel-report-then-run-at-sentinel', S2, """                if new_data is None:
                    stop = True
                    break
                self.log_debug("Discarding: %r", data)
                for ev in self._on_cancel:
                    ev.send(self, trigger='cancel', put=data)
                data = new_data
""", """                self.log_debug("Discarding: %r", data)
                for ev in self._on_cancel:
                    ev.send(self, trigger='cancel', put=data)
                if new_data is None:
                    stop = True
                    break
                data = new_data
""", 'R12.2')
V('C12', 'start-gather-on-output-count', S2, "        if tasks:\n            await asyncio.gather(*tasks, return_exceptions=True)",
  "        if self.output > 0:\n            await asyncio.gather(*tasks, return_exceptions=True)", 'R12.5')
V('C12', 'start-gather-only-when-stop-data', S2, "        if tasks:\n            await asyncio.gather(*tasks, return_exceptions=True)",
  "        if tasks and self._stop_data is not None:\n            await asyncio.gather(*tasks, return_exceptions=True)", 'R12.5')
V('C12', 'cancel-run-twice', S2, """            task = asyncio.create_task(self._output_coro_wrapper(data))

    async def _ctrl_wait""", """            task = asyncio.create_task(self._output_coro_wrapper(data))
            if self._guard_time <= 0.0:
                await task
                task = asyncio.create_task(self._output_coro_wrapper(data))

    async def _ctrl_wait""", 'R12.2')
E('C12', 'start-gather-len-test', S2, "        if tasks:\n            await asyncio.gather(*tasks, return_exceptions=True)",
  "        if len(tasks) > 0:\n            await asyncio.gather(*tasks, return_exceptions=True)")
E('C12', 'start-gather-unconditional', S2, "        if tasks:\n            await asyncio.gather(*tasks, return_exceptions=True)",
  "        await asyncio.gather(*tasks, return_exceptions=True)")

# ---- C15 R15.1 order / R15.7 signature grid (seeds C15-1, C15-2)
V('C15', 'resolve-after-connection-pass', SIM, '''            self._resolver.resolve()
            self._finalize()
            self._finalized = True''', '''            self._finalize()
            self._resolver.resolve()
            self._finalized = True''', 'R15.1')
V('C15', 'signature-empty-group-as-single', BLK, '''                if value is not None:
                    return f"{name}: is a group, expected was a single input"''', '''                if value:
                    return f"{name}: is a group, expected was a single input"''', 'R15.7')
V('C15', 'signature-min-exclusive', BLK, "                if cmin is not None and value < cmin:", "                if cmin is not None and value <= cmin:", 'R15.7')
V('C15', 'signature-max-ignored-when-min', BLK, "                if cmax is not None and value > cmax:", "                if cmin is None and cmax is not None and value > cmax:", 'R15.7')
V('C15', 'signature-errors-not-raised', BLK, '''            if errors:
                raise ValueError(f"Not connected correctly: {'; '.join(errors)}")''', '''            if len(errors) > 1:
                raise ValueError(f"Not connected correctly: {'; '.join(errors)}")''', 'R15.7')
E('C15', 'signature-elif-chain', BLK, '''            if expected is None:
                if value is not None:
                    return f"{name}: is a group, expected was a single input"''', '''            if expected is None and value is not None:
                return f"{name}: is a group, expected was a single input"
            if expected is None:
                pass''')

# ---- C16 R16.4d statelessness between deliveries (seed C16-2)
V('C16', 'setdefault-merges-into-captured-defaults', FIL, '''        self._editlist.append(lambda data: {**kwargs, **data})
''', '''        def _edit(data: MutableMapping) -> MutableMapping:
            kwargs.update(data)
            return kwargs
        self._editlist.append(_edit)
''', 'R16.4d')
V('C16', 'add-returns-captured-dict', FIL, '''        self._editlist.append(lambda data: {**data, **kwargs})
''', '''        def _edit(data: MutableMapping) -> MutableMapping:
            for key in list(data):
                kwargs.setdefault(key, data[key])
            return kwargs
        self._editlist.append(_edit)
''', 'R16.4d')
E('C16', 'setdefault-copy-then-update', FIL, '''        self._editlist.append(lambda data: {**kwargs, **data})
''', '''        def _edit(data: MutableMapping) -> MutableMapping:
            new = dict(kwargs)
            new.update(data)
            return new
        self._editlist.append(_edit)
''')
E('C16', 'add-update-in-place', FIL, '''        self._editlist.append(lambda data: {**data, **kwargs})
''', '''        def _edit(data: MutableMapping) -> MutableMapping:
            data.update(kwargs)
            return data
        self._editlist.append(_edit)
''')

# ---- C06 R06.9 (saved expiry = pending timer only; seed C06-1 = fix 369ed13 reverted)
V('C06', 'fired-handle-kept', FSM, '''        # if the timed event gets rejected, the FSM remains in the state without a timer
        self._active_timer = None
        self.event(timed_event)''', '''        self.event(timed_event)''', 'R06.9')
V('C06', 'fired-handle-cleared-after-delivery', FSM, '''        self._active_timer = None
        self.event(timed_event)''', '''        try:
            self.event(timed_event)
        finally:
            self._active_timer = None''', 'R06.9')

# ---- C06 R06.7 expiry decision grid (mutation sweep survivors)
V('C06', 'expiry-test-negated', ADD, "            if ts is not None and ts + exp < time.time():", "            if not (ts is not None and ts + exp < time.time()):", 'R06.7')
V('C06', 'expiry-boundary-inclusive', ADD, "            if ts is not None and ts + exp < time.time():", "            if ts is not None and ts + exp <= time.time():", 'R06.7')
V('C06', 'expiry-zero-restored', ADD, "            if exp <= 0.0:\n                return", "            if exp < 0.0:\n                return", 'R06.7')
V('C06', 'expiry-none-means-never', ADD, "        if (exp := self.expiration) is not None:", "        if (exp := self.expiration or 0.0) is not None:", 'R06.7')
E('C06', 'expiry-test-rewritten', ADD, "            if ts is not None and ts + exp < time.time():", "            if ts is not None and time.time() - exp > ts:")

# ---- round-2 seeds: new obligations and their variants
V('C01', 'undef-check-after-no-change-exit', BLK, '''        if value is UNDEF:
            raise ValueError("Output value must not be <UNDEF>")
        if previous == value:
            return False
''', '''        if previous == value:
            return False
        if value is UNDEF:
            raise ValueError("Output value must not be <UNDEF>")
''', 'R01.7')
V('C05', 'undef-check-after-no-change-exit', BLK, '''        if value is UNDEF:
            raise ValueError("Output value must not be <UNDEF>")
        if previous == value:
            return False
''', '''        if previous == value:
            return False
        if value is UNDEF:
            raise ValueError("Output value must not be <UNDEF>")
''', 'R05.6')
V('C01', 'xor-arithmetic-sum', CB, "func=lambda inputs: bool(sum(1 for v in inputs if v) % 2),", "func=lambda inputs: bool(sum(inputs) % 2),", 'R01.12')
E('C01', 'xor-count-by-len', CB, "func=lambda inputs: bool(sum(1 for v in inputs if v) % 2),", "func=lambda inputs: bool(len([v for v in inputs if v]) % 2),")
V('C01', 'enqueue-after-output-events', BLK, '''            self.circuit.sblock_queue.put_nowait(self)
            for event in self._output_events:
                event.send(self, trigger='output', previous=previous, value=value)
''', '''            for event in self._output_events:
                event.send(self, trigger='output', previous=previous, value=value)
            self.circuit.sblock_queue.put_nowait(self)
''', 'R01.6')
V('C10', 'enqueue-after-output-events', BLK, '''            self.circuit.sblock_queue.put_nowait(self)
            for event in self._output_events:
                event.send(self, trigger='output', previous=previous, value=value)
''', '''            for event in self._output_events:
                event.send(self, trigger='output', previous=previous, value=value)
            self.circuit.sblock_queue.put_nowait(self)
''', 'R10.6')
V('C02', 'identity-shortcut-in-change-test', BLK, '''        if previous == value:
            return False
        self.log_debug("output: %s -> %s", previous, value)''', '''        if previous is value or previous == value:
            return False
        self.log_debug("output: %s -> %s", previous, value)''', 'R02.2')
E('C02', 'change-test-not-equal-form', BLK, '''        if previous == value:
            return False
        self.log_debug("output: %s -> %s", previous, value)''', '''        if not previous != value:
            return False
        self.log_debug("output: %s -> %s", previous, value)''')
V('C04', 'timer-for-passed-through-state', FSM, '''                if self._next_event:
                    continue
                try:
                    timed_event = self._ct_timed_event[newstate]
                except KeyError:
                    pass    # new state is not a timed state
                else:
                    with self._enable_event:    # type: ignore[attr-defined]
                        self._start_timer(data.get('duration'), timed_event)
                    if self._next_event:
                        continue
                break
''', '''                try:
                    timed_event = self._ct_timed_event[newstate]
                except KeyError:
                    pass    # new state is not a timed state
                else:
                    with self._enable_event:    # type: ignore[attr-defined]
                        self._start_timer(data.get('duration'), timed_event)
                if not self._next_event:
                    break
''', 'R04.11')
V('C04', 'timer-cond-reads-output', 'edzed/blocklib/fsms.py', "        return self._restartable or self._state != 'on'", "        return self._restartable or not self._output", 'R04.12')
E('C04', 'timer-cond-state-membership', 'edzed/blocklib/fsms.py', "        return self._restartable or self._state != 'on'", "        return self._restartable or not self._state == 'on'")
V('C06', 'purge-skipped-without-persistent-blocks', SIM, '''        if self.persistent_dict is None:
            if persistent_blocks:
                _logger.warning("No data storage, state persistence unavailable")
                for blk in persistent_blocks:
                    blk.persistent = False
            return
''', '''        if not persistent_blocks:
            return
        if self.persistent_dict is None:
            _logger.warning("No data storage, state persistence unavailable")
            for blk in persistent_blocks:
                blk.persistent = False
            return
''', 'R06.8')
V('C07', 'overhead-updated-before-jump-test', CRON, '''                    if reset.OR((step == 2 and sleeptime > 0) or diff > _TT_ERROR):
                        break
                    if step == 1 and not short_sleep and not -_TT_OK <= sleeptime <= 0:
                        overhead -= (sleeptime + _TT_OK/2) * 0.5    # average of new and old
''', '''                    if step == 1 and not short_sleep and not -_TT_OK <= sleeptime <= 0:
                        overhead -= (sleeptime + _TT_OK/2) * 0.5    # average of new and old
                    if reset.OR((step == 2 and sleeptime > 0) or diff > _TT_ERROR):
                        break
''', 'R07.7')
V('C09', 'pending-cancel-absorbed-only-after-exception', SIM, """            if self._error is None:
                self._error = err

        # Normally when a function from the try-except clause above calls abort(), the
        # abort() sets the self._error and cancels the task. The exception clause then
        # catches the cancellation.
        # But when a function calls abort() and also raises, the exception clause
        # catches the exception and the cancellation is left pending. For this
        # special edge case we must add a second except clause below.
        try:
            await asyncio.sleep(0)  # allow delivery of pending CancelledError if any
        except asyncio.CancelledError:
            pass
""", """            if self._error is None:
                self._error = err
            try:
                await asyncio.sleep(0)  # allow delivery of pending CancelledError if any
            except asyncio.CancelledError:
                pass
""", 'R09.2')
V('C08', 'pending-cancel-absorbed-only-after-exception', SIM, """            if self._error is None:
                self._error = err

        # Normally when a function from the try-except clause above calls abort(), the
        # abort() sets the self._error and cancels the task. The exception clause then
        # catches the cancellation.
        # But when a function calls abort() and also raises, the exception clause
        # catches the exception and the cancellation is left pending. For this
        # special edge case we must add a second except clause below.
        try:
            await asyncio.sleep(0)  # allow delivery of pending CancelledError if any
        except asyncio.CancelledError:
            pass
""", """            if self._error is None:
                self._error = err
            try:
                await asyncio.sleep(0)  # allow delivery of pending CancelledError if any
            except asyncio.CancelledError:
                pass
""", 'R08.2')
V('C10', 'counter-reset-in-helper-called-in-burst', SIM, '''            while not queue.empty():
                sblk = queue.get_nowait()
                eval_set |= sblk.oconnections
''', '''            while not queue.empty():
                sblk = queue.get_nowait()
                eval_cnt = 0
                eval_set |= sblk.oconnections
''', 'R10.2')

# ---- round-2 seeds C11-C20: new obligations and their variants
V('C15', 'first-pass-skips-inverters', SIM, '''            for blk in list(self.getblocks(btype)):
                all_inputs: list[block.Block|block.Const] = []''', '''            for blk in list(self.getblocks(btype)):
                if btype is block.CBlock and isinstance(blk, cblocks.Not):
                    continue
                all_inputs: list[block.Block|block.Const] = []''', 'R15.2')
V('C12', 'drain-bounded-by-size-snapshot', S2, "            while not queue.empty():\n                new_data = queue.get_nowait()", "            for _ in range(queue.qsize()):\n                new_data = queue.get_nowait()", 'R12.5')
E('C12', 'drain-test-qsize', S2, "            while not queue.empty():\n                new_data = queue.get_nowait()", "            while queue.qsize() > 0:\n                new_data = queue.get_nowait()")
VM('C12', 'stop-data-truthiness', [(S2, "        if self._stop_data is not None and self._ctrl_coro != self._ctrl_start:", "        if self._stop_data and self._ctrl_coro != self._ctrl_start:"),
                                  (S2, "        if self._stop_data is not None and self._ctrl_coro == self._ctrl_start:", "        if self._stop_data and self._ctrl_coro == self._ctrl_start:")], 'R12.6')
VM('C08', 'stop-data-truthiness', [(S2, "        if self._stop_data is not None and self._ctrl_coro != self._ctrl_start:", "        if self._stop_data and self._ctrl_coro != self._ctrl_start:"),
                                  (S2, "        if self._stop_data is not None and self._ctrl_coro == self._ctrl_start:", "        if self._stop_data and self._ctrl_coro == self._ctrl_start:")], 'R08.8')
V('C08', 'outputfunc-stop-data-truthiness', S2, "        if self._stop_data is not None:\n            self._event_put(**self._stop_data)\n        super().stop()", "        if self._stop_data:\n            self._event_put(**self._stop_data)\n        super().stop()", 'R08.8')
V('C14', 'shutdown-cancels-without-recording', SIM, "        self.abort(asyncio.CancelledError('shutdown'))\n        try:\n            await self._simtask", "        self._simtask.cancel('shutdown')\n        try:\n            await self._simtask", 'R14.1')

# ---- mutation-sweep survivors turned into variants
V('C18', 'interval-check-and', S1, "        if self._interval is None or self._interval <= 0.0:\n            raise ValueError(\"interval must be positive\")\n        if count", "        if self._interval is None and self._interval <= 0.0:\n            raise ValueError(\"interval must be positive\")\n        if count", 'R18.4')
V('C18', 'interval-zero-accepted', S1, "        if self._interval is None or self._interval <= 0.0:\n            raise ValueError(\"interval must be positive\")\n        if count", "        if self._interval is None or self._interval < 0.0:\n            raise ValueError(\"interval must be positive\")\n        if count", 'R18.4')
V('C17', 'restore-validates-only-without-input', S2, "        if len(istate) > 2 and 'input' in istate[2]:", "        if len(istate) > 2 and 'input' not in istate[2]:", 'R17.3r')
V('C17', 'restore-validation-result-dropped', S2, "            istate = [*istate[:2], sdata]\n", "            pass\n", 'R17.3r')
V('C17', 'restore-length-off-by-one', S2, "        if len(istate) > 2 and 'input' in istate[2]:", "        if len(istate) > 3 and 'input' in istate[2]:", 'R17.3r')
E('C17', 'restore-length-ge', S2, "        if len(istate) > 2 and 'input' in istate[2]:", "        if len(istate) >= 3 and 'input' in istate[2]:")

# ---- C07 R07.8 (delay formula and midnight wrap; mutation-sweep survivors)
V('C07', 'midnight-wrap-dropped', CRON, "                    sleeptime += SEC_PER_DAY\n", "                    pass\n", 'R07.8')
V('C07', 'midnight-wrap-or', CRON, "                if nowt.hour == 23 and wakeup.hour == 0:", "                if nowt.hour == 23 or wakeup.hour == 0:", 'R07.8')
V('C07', 'delay-minutes-scaled-as-hours', CRON, "                    + SEC_PER_MIN*(wakeup.minute - nowt.minute)", "                    + SEC_PER_HOUR*(wakeup.minute - nowt.minute)", 'R07.8')
V('C07', 'delay-sign-of-seconds', CRON, "                    + (wakeup.second - nowt.second)", "                    + (nowt.second - wakeup.second)", 'R07.8')
E('C07', 'delay-terms-reordered', CRON, "                sleeptime = (SEC_PER_HOUR*(wakeup.hour - nowt.hour)\n                    + SEC_PER_MIN*(wakeup.minute - nowt.minute)", "                sleeptime = (SEC_PER_MIN*(wakeup.minute - nowt.minute)\n                    + SEC_PER_HOUR*(wakeup.hour - nowt.hour)")

# ---- further mutation-sweep survivors
V('C06', 'storage-check-not-called', SIM, "            self._check_persistent_data()\n", "", 'R06.8')
V('C08', 'run-tasks-cancels-only-done-tasks', SIM, '''            for _, task, _ in btt_list:
                if not task.done():
                    task.cancel()''', '''            for _, task, _ in btt_list:
                if task.done():
                    task.cancel()''', 'R08.5')
E('C08', 'run-tasks-cancels-unconditionally', SIM, '''            for _, task, _ in btt_list:
                if not task.done():
                    task.cancel()''', '''            for _, task, _ in btt_list:
                task.cancel()''')

# ---- bugs hidden inside a refactoring: the normalisation (E12) must not undo them
V('C06', 'stale-readiness-snapshot', ADD, '''        try:
            retval = super().event(etype, **data)
        except Exception:
            if self.persistent and not self.circuit.is_ready():''', '''        was_ready = self.circuit.is_ready()
        try:
            retval = super().event(etype, **data)
        except Exception:
            if self.persistent and not was_ready:''', 'R06.1',
  note='explaining variable taken BEFORE the handler runs: the snapshot is stale after the abort')
VM('C09', 'stale-error-snapshot-raised', [(SIM, """        started_blocks = set()
        start_ok = False
        try:
            if self._error is not None:""", """        started_blocks = set()
        start_ok = False
        first_error = self._error
        try:
            if self._error is not None:"""),
    (SIM, """        assert self._error is not None
        raise self._error
""", """        assert self._error is not None
        raise first_error
""")], 'R09.2', note='snapshot of the error slot taken before the main try: stale')

# ----------------------------------------------------------------------------- R11.8 / SBlock.event run
V('C11', 'eventcond-value-required', BLK, "cond_etype = etype.etrue if data.get('value') else etype.efalse",
  "cond_etype = etype.etrue if data['value'] else etype.efalse", 'R11.8',
  note="seed C11-8: a conditional event without a 'value' item raises instead of selecting efalse")
V('C11', 'eventcond-is-true', BLK, "cond_etype = etype.etrue if data.get('value') else etype.efalse",
  "cond_etype = etype.etrue if data.get('value') is True else etype.efalse", 'R11.8')
V('C11', 'eventcond-swapped', BLK, "cond_etype = etype.etrue if data.get('value') else etype.efalse",
  "cond_etype = etype.efalse if data.get('value') else etype.etrue", 'R11.8')
V('C11', 'eventcond-not-nested', BLK, "            while isinstance(etype, EventCond):\n",
  "            if isinstance(etype, EventCond):\n", 'R11.8')
V('C11', 'noevent-after-init', BLK, """                if cond_etype is None:
                    return None
                etype = cond_etype
""", """                etype = cond_etype
                if etype is None:
                    break
""", 'R11.8', note="'no event' falls through to the initialisation and the dispatcher")
V('C11', 'early-init-outside-window', BLK, """                with self._enable_event:    # type: ignore[attr-defined]
                    try:
                        self.circuit.init_sblock(self, full=True)
                    except Exception as err:
                        # a failed initialization is fatal even if the sender of this event
                        # catches the exception
                        self.circuit.abort(err)
                        raise
""", """                self.circuit.init_sblock(self, full=True)
""", 'R11.8')
V('C11', 'early-init-only-step0', BLK, "            if 0 <= self.init_steps_completed < 2:\n",
  "            if self.init_steps_completed == 0:\n", 'R11.8')
V('C11', 'handler-gets-dict', BLK, "                    retval = handler(self, **data)\n",
  "                    retval = handler(self, data)\n", 'R11.8')
V('C11', 'result-dropped', BLK, "            return retval\n        finally:\n            self._event_active = False\n",
  "            return None\n        finally:\n            self._event_active = False\n", 'R11.8')
E('C11', 'eventcond-bool', BLK, "cond_etype = etype.etrue if data.get('value') else etype.efalse",
  "cond_etype = etype.etrue if bool(data.get('value', None)) else etype.efalse")
E('C11', 'eventcond-if-stmt', BLK, """                cond_etype = etype.etrue if data.get('value') else etype.efalse
""", """                if 'value' in data and data['value']:
                    cond_etype = etype.etrue
                else:
                    cond_etype = etype.efalse
""")
E('C11', 'early-init-in-tuple', BLK, "            if 0 <= self.init_steps_completed < 2:\n",
  "            if self.init_steps_completed in (0, 1):\n")
V('C09', 'abort-any-depth', BLK, "                if err.__traceback__.tb_next is not None:\n",
  "                if err.__traceback__ is not None:\n", 'R09.3',
  note="a call with wrong parameters (one traceback level) stops the simulation")
V('C09', 'abort-without-cause-run', BLK, "                    sim_err.__cause__ = err\n", "                    pass\n", 'R09.3')

# ----------------------------------------------------------------------------- R12.7
V('C12', 'cancel-arm-reraises', S2, """            for ev in self._on_cancel:
                ev.send(self, trigger='cancel', put=data)
        except Exception as err:
            self.log_error(
""", """            for ev in self._on_cancel:
                ev.send(self, trigger='cancel', put=data)
            if self._ctrl_coro == self._ctrl_wait:
                raise
        except Exception as err:
            self.log_error(
""", 'R12.7', note="wait mode: a cancelled run ends the control coroutine")
V('C12', 'wrapper-raises-on-cancel-outcome', S2, """        finally:
            self.set_output(self.output - 1)


    async def _ctrl_cancel""", """        finally:
            self.set_output(self.output - 1)
        if self._stop_data is data and asyncio.current_task() is self._ctrl_task:
            raise asyncio.CancelledError()


    async def _ctrl_cancel""", 'R12.7')
E('C12', 'local-raise-caught', S2, """        if tasks:
            await asyncio.gather(*tasks, return_exceptions=True)
""", """        try:
            if not tasks:
                raise LookupError
            await asyncio.gather(*tasks, return_exceptions=True)
        except LookupError:
            pass
""", note="an explicit raise absorbed by the local handler does not escape")

# ----------------------------------------------------------------------------- R15.8 (defect F15)
VM('C15', 'f15-reverted', [(BLK, "        key = (type(const), const)\n", "        key = const\n")], 'R15.8',
   note="pre-fix tree: 1 / True / 1.0 share one Const")
V('C15', 'const-key-hash', BLK, "        key = (type(const), const)\n", "        key = (type(const), hash(const))\n", 'R15.8',
  note="seed C15-10: equal hashes (-1, -2) share one Const")
E('C15', 'const-key-class', BLK, "        key = (type(const), const)\n", "        key = (const.__class__, const)\n")

# ----------------------------------------------------------------------------- R13.6 (defects F16, F17)
V('C13', 'f16-reverted', TI, "_RE_YEAR = re.compile(r'(?<!\\d)(\\d{4})(?!\\d)', flags=re.ASCII)",
  "_RE_YEAR = re.compile(r'(\\d{4})', flags=re.ASCII)", 'R13.6', note="pre-fix tree: 'July 20281 8:00' read as July 1")
V('C13', 'f17-reverted', TI, "    r'(?<!\\d)(\\d{1,2}:\\d{1,2}(:\\d{1,2})?([.,]\\d+)?)(?!\\d)', flags=re.ASCII)",
  "    r'(\\d{1,2}:\\d{1,2}(:\\d{1,2})?([.,]\\d+)?)', flags=re.ASCII)", 'R13.6',
  note="pre-fix tree: 'July 2028 108:00' read as July 1 08:00")
V('C13', 'join-without-blank', TI, "        string = ' '.join((string[:start], string[end:]))\n",
  "        string = string[:start] + string[end:]\n", 'R13.6', note="seed C13-8: '1jun5' becomes the 15th")
V('C13', 'month-two-letters', TI, "_RE_MONTH = re.compile(r'([^\\W\\d_]{3,})\\.?')", "_RE_MONTH = re.compile(r'([^\\W\\d_]{2,})\\.?')", 'R13.6')
V('C13', 'leftover-not-stripped', TI, "    string = string.strip()\n    if string:\n        raise ValueError(\n            f\"Could not convert",
  "    if string.isalpha():\n        raise ValueError(\n            f\"Could not convert", 'R13.6')
E('C13', 'join-format', TI, "        string = ' '.join((string[:start], string[end:]))\n",
  "        string = string[:start] + ' ' + string[end:]\n")

# ----------------------------------------------------------------------------- R15.9
V('C15', 'start-without-resolve', SIM, "            self._resolver.resolve()\n            self.finalize()\n", "            self.finalize()\n", 'R15.9',
  note="seed C15-11: names registered after an explicit finalize() stay unresolved")
V('C15', 'start-resolve-if-not-finalized', SIM, "            self._resolver.resolve()\n            self.finalize()\n",
  "            if not self._finalized:\n                self._resolver.resolve()\n            self.finalize()\n", 'R15.9')

# ----------------------------------------------------------------------------- defect F18 (C14)
V('C14', 'f18-reverted', BLK, "        if not self._dest.circuit.is_ready():\n", "        if not simulator.get_circuit().is_ready():\n", 'R14.1',
  note="pre-fix tree: the gate asks the current circuit, not the destination's")
V('C14', 'event-etype-not-posonly', ADD, "    def event(self, etype: str|block.EventType, /, **data) -> Any:\n",
  "    def event(self, etype: str|block.EventType, **data) -> Any:\n", 'R14.4', note="seed C14-10")

# ----------------------------------------------------------------------------- defect F19 (C08 / C18)
V('C08', 'f19-reverted', ADD, """    def stop(self) -> None:
        # the main task ends with stop() even if stop_async() is disabled (stop_timeout <= 0)
        if self._mtask is not None:
            self._mtask.cancel()
        super().stop()

""", "", 'R08.13', note="pre-fix tree: with stop_timeout=0 the main task outlives the simulation")
V('C08', 'ctrl-task-no-sentinel', S2, "        self._queue.put_nowait(None)    # stop serving\n        super().stop()\n",
  "        if self._stop_data is None:\n            self._queue.put_nowait(None)    # stop serving\n        super().stop()\n", 'R08.13')
V('C08', 'not-finalized-fast-path', SIM, """        if self._error:
            # there is an even bigger problem
            raise EdzedInvalidState("The circuit was shut down")
        if self._finalized:""", """        if not self._finalized:
            return
        if self._error:
            # there is an even bigger problem
            raise EdzedInvalidState("The circuit was shut down")
        if self._finalized:""", 'R08.12', note="seed C08-10")

# ----------------------------------------------------------------------------- defect F20 (C09)
V('C09', 'f20-reverted', BLK, """                with self._enable_event:    # type: ignore[attr-defined]
                    try:
                        self.circuit.init_sblock(self, full=True)
                    except Exception as err:
                        # a failed initialization is fatal even if the sender of this event
                        # catches the exception
                        self.circuit.abort(err)
                        raise
""", """                with self._enable_event:    # type: ignore[attr-defined]
                    self.circuit.init_sblock(self, full=True)
""", 'R09.3', note="pre-fix tree: a failed early initialisation is only passed to the sender of the event")
V('C09', 'early-init-error-swallowed', BLK, """                        self.circuit.abort(err)
                        raise
""", """                        self.circuit.abort(err)
                        return None
""", 'R09.3')
E('C09', 'early-init-abort-in-helper-order', BLK, """                    except Exception as err:
                        # a failed initialization is fatal even if the sender of this event
                        # catches the exception
                        self.circuit.abort(err)
                        raise
""", """                    except Exception as init_err:
                        self.circuit.abort(init_err)
                        raise
""")

# ----------------------------------------------------------------------------- defect F21 (C05)
VM('C05', 'f21-reverted', [(SIM, "        self._init_done = asyncio.Event()   # wait_init() needs it as soon as the task is registered\n", ""),
                           (SIM, "            self.sblock_queue = asyncio.Queue()\n", "            self.sblock_queue = asyncio.Queue()\n            self._init_done = asyncio.Event()\n")],
   'R05.7', note="pre-fix tree: the signal is created after the tests that can end the start")
E('C05', 'init-done-before-registration', SIM, """        self._simtask = asyncio.current_task()
        self._init_done = asyncio.Event()   # wait_init() needs it as soon as the task is registered
""", """        self._init_done = asyncio.Event()
        self._simtask = asyncio.current_task()
""")
