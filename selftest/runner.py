"""
Self-validation of the rules (thorough tier, item 4 of DESIGN.md section 4).

Each variant is a small edit of the CURRENT tree applied to a scratch copy (tempfile.mkdtemp,
removed afterwards): `violating` variants must make the property's check exit 1 and (when the
variant names one) report the expected rule; `equivalent` variants must leave it at exit 0.
A variant whose anchor text is not present exactly once in the current tree is `inapplicable`.
Every variant is compile()d to make sure it still is a program.

A self-validation failure is an ANALYSIS-ERROR (exit 2): it says the checker is not to be
believed, never that edzed is wrong.
"""
from __future__ import annotations

import contextlib
import io
import multiprocessing as mp
import os
import shutil
import sys
import tempfile
import time

from . import variants as V

COPY = ('edzed', 'docs', 'examples')


def _apply(repo: str, var: dict, dst: str) -> str:
    """Copy the tree and apply the edit(s). Returns '' or a reason for inapplicability."""
    for d in COPY:
        src = os.path.join(repo, d)
        if os.path.isdir(src):
            shutil.copytree(src, os.path.join(dst, d),
                            ignore=shutil.ignore_patterns('__pycache__', '_static', '*.pyc'))
    edits = var.get('edits') or [(var['file'], var['old'], var['new'])]
    for file, old, new in edits:
        path = os.path.join(dst, file)
        if not os.path.isfile(path):
            return f"{file} missing"
        with open(path, encoding='utf-8') as f:
            txt = f.read()
        cnt = txt.count(old)
        if cnt != 1:
            return f"anchor text occurs {cnt} times in {file}"
        txt = txt.replace(old, new)
        if file.endswith('.py'):
            try:
                compile(txt, path, 'exec')
            except SyntaxError as err:
                return f"variant does not compile: {err}"
        with open(path, 'w', encoding='utf-8') as f:
            f.write(txt)
    return ''


def _run_one(args):
    var, repo = args
    from sa.main import run_property
    tmp = tempfile.mkdtemp(prefix='edzed-selftest-')
    t0 = time.time()
    try:
        why = _apply(repo, var, tmp)
        if why:
            return {'id': var['id'], 'prop': var['prop'], 'status': 'inapplicable', 'why': why}
        buf = io.StringIO()
        with contextlib.redirect_stdout(buf):
            code, ck = run_property(var['prop'], 'quick', tmp, 0, quiet=True)
        fired = sorted({o['rule'] for o in ck.obligations if not o['ok']})
        known = {(e.get('rule'), e.get('construct')) for e in ck._known()
                 if e.get('status') == 'known'}
        fired_new = sorted({o['rule'] for o in ck.obligations if not o['ok']
                            and (o['rule'], o['construct']) not in known})
        cross = []
        if var.get('_cross') and var['kind'] == 'equivalent':
            # an equivalent variant must leave EVERY property's check silent
            from sa.main import PROPS
            for p in PROPS:
                if p == var['prop']:
                    continue
                with contextlib.redirect_stdout(io.StringIO()):
                    c2, ck2 = run_property(p, 'quick', tmp, 0, quiet=True)
                if c2 != 0:
                    cross.append((p, c2, [f"{o['rule']} {o['construct']}" for o in ck2.obligations
                                          if not o['ok']][:2] + [f"{r}: {w}" for r, w in ck2.analysis_errors][:2]))
        res = {'id': var['id'], 'prop': var['prop'], 'kind': var['kind'], 'code': code,
               'fired': fired_new, 'errors': [f"{r}: {w}" for r, w in ck.analysis_errors],
               'wall': round(time.time() - t0, 2)}
        if var['kind'] == 'violating':
            want = var.get('rule')
            ok = code == 1 and (want is None or any(f == want or f.startswith(want) for f in fired_new))
            res['status'] = 'ok' if ok else 'MISSED'
            if not ok:
                res['why'] = (f"expected exit 1 with rule {want}, got exit {code}, "
                              f"fired={fired_new}, errors={res['errors'][:2]}")
        else:
            ok = code == 0 and not cross
            res['status'] = 'ok' if ok else 'FALSE-ALARM'
            if not ok:
                msgs = [f"{o['rule']} {o['construct']}: {o['msg']}" for o in ck.obligations
                        if not o['ok']][:3]
                res['why'] = f"expected exit 0, got exit {code}: {msgs} {res['errors'][:2]} cross={cross}"
        return res
    except Exception as err:     # pylint: disable=broad-except
        return {'id': var['id'], 'prop': var['prop'], 'status': 'CRASH',
                'why': f"{type(err).__name__}: {err}"}
    finally:
        shutil.rmtree(tmp, ignore_errors=True)


def run_variants(vs, repo: str, jobs: int = 0):
    if not vs:
        return []
    jobs = jobs or min(16, os.cpu_count() or 4, len(vs))
    if jobs <= 1 or len(vs) == 1:
        return [_run_one((v, repo)) for v in vs]
    ctx = mp.get_context('fork')
    with ctx.Pool(jobs) as pool:
        return pool.map(_run_one, [(v, repo) for v in vs], chunksize=1)


def summarise(results):
    s = {'violating': [0, 0], 'equivalent': [0, 0], 'inapplicable': 0, 'bad': []}
    for r in results:
        if r['status'] == 'inapplicable':
            s['inapplicable'] += 1
            continue
        kind = r.get('kind', 'violating')
        s[kind][1] += 1
        if r['status'] == 'ok':
            s[kind][0] += 1
        else:
            s['bad'].append(r)
    return s


def for_property(prop: str, repo: str, jobs: int, ck=None) -> int:
    """Thorough tier: run the variants serving `prop`; amend the evidence; 0 or 2."""
    vs = [v for v in V.all_variants() if v['prop'] == prop]
    results = run_variants(vs, repo, jobs)
    s = summarise(results)
    print(f"{prop} selftest: violating {s['violating'][0]}/{s['violating'][1]} detected, "
          f"equivalent {s['equivalent'][0]}/{s['equivalent'][1]} silent, "
          f"inapplicable {s['inapplicable']}")
    for r in results:
        if r['status'] == 'inapplicable':
            print(f"  inapplicable {r['id']}: {r['why']}")
    for r in s['bad']:
        print(f"ANALYSIS-ERROR property={prop} rule=selftest reason=variant {r['id']} "
              f"{r['status']}: {r.get('why')}")
    _amend_evidence(prop, s, results)
    return 2 if s['bad'] else 0


def _amend_evidence(prop, s, results):
    import json
    from sa.report import VERIF
    path = os.path.join(VERIF, 'evidence', f"{prop}.json")
    try:
        with open(path, encoding='utf-8') as f:
            ev = json.load(f)
    except (OSError, ValueError):
        return
    cov = ev['coverage']
    cov['selftest'] = {
        'violating': f"{s['violating'][0]}/{s['violating'][1]}",
        'equivalent': f"{s['equivalent'][0]}/{s['equivalent'][1]}",
        'inapplicable': s['inapplicable'],
        'variants': [{'id': r['id'], 'status': r['status'], 'fired': r.get('fired')}
                     for r in results],
    }
    cov['evaluations'] = cov.get('evaluations', 0) + s['violating'][1] + s['equivalent'][1]
    with open(path, 'w', encoding='utf-8') as f:
        json.dump(ev, f, indent=1)
        f.write('\n')


def main(which: str, repo: str, jobs: int) -> int:
    vs = V.all_variants()
    if which != 'all':
        vs = [v for v in vs if v['prop'] == which or v['id'] == which]
    t0 = time.time()
    if which == 'all':
        vs = [dict(v, _cross=True) for v in vs]
    results = run_variants(vs, repo, jobs)
    s = summarise(results)
    for r in results:
        flag = r['status']
        extra = '' if flag == 'ok' else f" -- {r.get('why')}"
        print(f"{flag:12s} {r['prop']} {r['id']} fired={r.get('fired')}{extra}")
    print(f"selftest: {len(results)} variants, violating {s['violating'][0]}/{s['violating'][1]}, "
          f"equivalent {s['equivalent'][0]}/{s['equivalent'][1]}, "
          f"inapplicable {s['inapplicable']}, {time.time() - t0:.1f}s")
    return 2 if s['bad'] else 0
