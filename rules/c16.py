"""C16 -- Event filters form an ordered pipeline that can edit or veto an event."""
from __future__ import annotations

import ast
import itertools

from sa.loader import recv, norm, norm1, walk_shallow, own_nodes, call_name, AnalysisError
from sa.absval import Interp, UNDEF, MISSING
from sa.docs_api import directives
from sa.typestate import check_language
from sa.rulekit import (nodes_calling, node_calls, nodes_where, return_nodes, own, is_const,
                        nodes_writing_attr, must_pass, node_roots)
from sa.report import path_witness

FIL = 'blocklib.filters'

UNDECIDED = [
    "that each DataEdit operation equals the corresponding dictionary operation on every input "
    "dict ({**data, **kwargs} vs {**kwargs, **data}, copy, rename, permit ...) and the "
    "composition law of chains -- value-level dict semantics; decided only for the precedence "
    "of add/setdefault (R16.4c) and the chaining shape",
    "Delta over arbitrary numeric sequences (arithmetic) -- only the write discipline and the "
    "comparator are decided",
]


class _Data:
    """A truthy stand-in for the (non-empty) event data mapping."""
    def __repr__(self):
        return 'DATA'


def run(ck):
    ck.explanation = (
        "Event.send (edzed/block.py) is checked as a path language over its CFG: source item, "
        "filters in order, exactly one delivery on the accepting exits and none on the rejecting "
        "one, mapping test before the truth test, delivery of the last binding of data. The "
        "bundled predicates Edge, not_from_undef, IfOutput and the not-initialised filter depend "
        "on their inputs only through `is UNDEF`, truthiness and bool(); they are evaluated by a "
        "small AST interpreter on the complete finite truthiness domain (Edge: 144 cases) against "
        "the documented table. Delta's 'last passed value' write discipline, the DataEdit "
        "chaining shape and the existence of every documented filter name are checked "
        "structurally.")
    ck.undecided = UNDECIDED
    prog = ck.prog
    mod = prog.module(FIL)

    R1 = ck.rule('R16.1', "Event.send: source item, then filters in the configured order on the "
                 "loop-carried data; a mapping result replaces the data (tested before "
                 "truthiness); the first false result returns False before any later filter and "
                 "without delivery; otherwise exactly one delivery of the last binding",
                 'M0', 5)
    R2 = ck.rule('R16.2', "Edge / not_from_undef / IfOutput / not-initialised filter have their "
                 "documented truth tables on the truthiness domain {UNDEF, falsy, truthy}",
                 'truthiness domain', 150)
    R3 = ck.rule('R16.3', "Delta remembers the last *passed* value: every accepting path writes "
                 "_last = value, no rejecting path does; the comparison is "
                 "abs(last - value) >= delta; the first value always passes", 'M0', 5)
    R4 = ck.rule('R16.4', "DataEdit: every dual method appends exactly one edit and returns self; "
                 "__call__ applies the edits in order to the loop-carried data and stops at the "
                 "first non-mapping result; modify honours DELETE/REJECT; a class-level call "
                 "creates a fresh instance; add_output uses a fresh namespace per call",
                 'M0', 14)
    R4c = ck.rule('R16.4c', "add lets the new items override the data, setdefault lets the data "
                  "override the new items (spread order of the resulting mapping)", 'M0', 2)
    R5 = ck.rule('R16.5', "every filter documented in docs/filters.rst exists under that name in "
                 "the public API (edzed.__all__), DataEdit's documented class methods are dual "
                 "methods", 'docs', 14)

    with ck.section('R16.1'):
        from rules.shared import argument_not_consumed_before_tuple
        argument_not_consumed_before_tuple(ck, R1, ('block:efilter_tuple',))
        # ------------------------------------------------------------------ R16.1
        from rules.shared import event_send_rules
        event_send_rules(ck, R1, ('source', 'pipeline', 'veto', 'delivery', 'keys'), lambda: _send_shape(ck, prog, R1))

    with ck.section('R16.2'):
        # ------------------------------------------------------------------ R16.2
        data_tok = _Data()
        ck.extra['exhaustive_parts'] = ['R16.2: Edge 2x2x3x2 flag settings x 3x2 (previous, value) classes = 144 cases; not_from_undef 4; IfOutput 3; NotIfInitialized 2 -- complete on the truthiness domain']
        # Edge
        edge = prog.cls(f"{FIL}:Edge")
        einit, ecall = edge.methods.get('__init__'), edge.methods.get('__call__')
        ck.need(R2, einit is not None and ecall is not None, "Edge.__init__/__call__ not found")
        dparam = ecall.node.args.args[1].arg
        n_edge = 0
        from sa.minieval import MiniEval
        REPS = {'falsy': (0, False, None, ''), 'truthy': (1, True, 5, 'on', [1])}
        for rise, fall, u_rise, u_fall in itertools.product((False, True), (False, True),
                                                            (None, False, True), (False, True)):
            env = {'rise': rise, 'fall': fall, 'u_rise': u_rise, 'u_fall': u_fall,
                   'block.UNDEF': UNDEF, 'UNDEF': UNDEF}
            concrete = True
            try:
                # concrete interpretation with several representatives per truthiness class (a filter may
                # depend on the truth of previous / value only, not on their type or hashability)
                me = MiniEval(R2, dict(env, self='SELF'))
                o_ = me.run(einit.node.body)
                ck.need(R2, o_[0] == 'return', f"Edge.__init__ does not complete on flags {env}: {o_}")
                attrs = {k: v for k, v in me.env.items() if k.startswith('self.')}
            except AnalysisError:
                concrete = False
                it = Interp(R2, env, 'truthiness')
                it.run(einit.node.body)
                attrs = {k: v for k, v in it.env.items() if k.startswith('self.')}
            for prev, value in itertools.product((UNDEF, 0, 1), (0, 1)):
                if prev is UNDEF:
                    want = (rise if u_rise is None else u_rise) if value else u_fall
                else:
                    want = (rise and not prev and bool(value)) or (fall and bool(prev) and not value)
                pv = 'UNDEF' if prev is UNDEF else ('truthy' if prev else 'falsy')
                msg = None
                if concrete:
                    prevs = (UNDEF,) if prev is UNDEF else REPS['truthy' if prev else 'falsy']
                    vals = tuple(v for v in REPS['truthy' if value else 'falsy'] if not isinstance(v, list))
                    try:
                        for p_ in prevs:
                            for v_ in vals:
                                env2 = dict(attrs)
                                env2.update({'block.UNDEF': UNDEF, 'UNDEF': UNDEF, 'self': 'SELF',
                                             dparam: {'value': v_, 'previous': p_, 'source': 's', 'trigger': 'output'}})
                                got_ = MiniEval(R2, env2).run(ecall.node.body)
                                ck.abstract_cases += 1
                                if (got_[0] != 'return' or bool(got_[1]) != bool(want)) and msg is None:
                                    msg = f"previous={p_!r}, value={v_!r}: code gives {got_}"
                        got = want if msg is None else (not want)
                    except AnalysisError:
                        concrete = False
                if not concrete:
                    env2 = dict(attrs)
                    env2.update({f"{dparam}['value']": value, f"{dparam}['previous']": prev,
                                 'block.UNDEF': UNDEF, 'UNDEF': UNDEF, dparam: data_tok})
                    got = Interp(R2, env2, 'truthiness').run(ecall.node.body)
                    ck.abstract_cases += 1
                n_edge += 1
                ck.ob(R2, f"{FIL}:Edge rise={rise} fall={fall} u_rise={u_rise} u_fall={u_fall} :: "
                      f"{pv}->{'truthy' if value else 'falsy'}", bool(got) == bool(want),
                      f"documented: {'pass' if want else 'drop'}; code: {'pass' if got else 'drop'}" +
                      (f" ({msg})" if msg else ''), ecall, ecall.node)
        # not_from_undef
        nfu = prog.func(f"{FIL}:not_from_undef")
        dp = nfu.node.args.args[0].arg
        for prev in (MISSING, UNDEF, 0, 1):
            env = {f"{dp}['previous']": prev, 'block.UNDEF': UNDEF, 'UNDEF': UNDEF, dp: data_tok}
            got = Interp(R2, env, 'truthiness').run(nfu.node.body)
            ck.abstract_cases += 1
            want = prev is not MISSING and prev is not UNDEF
            ck.ob(R2, f"{nfu.fid} :: previous={prev!r}", bool(got) == want,
                  f"documented: {'pass' if want else 'drop'}; code: {'pass' if got else 'drop'}",
                  nfu, nfu.node)
        # IfOutput
        ifo = prog.cls(f"{FIL}:IfOutput")
        fi = ifo.methods.get('__call__')
        ck.need(R2, fi is not None, "IfOutput.__call__ not found")
        dp = fi.node.args.args[1].arg
        for out in (UNDEF, 0, 1):
            env = {'self._ctrl_blk.output': out, dp: data_tok, 'block.UNDEF': UNDEF}
            got = Interp(R2, env, 'truthiness').run(fi.node.body)
            ck.abstract_cases += 1
            want = bool(out)
            ok = (got is data_tok or got is True) if want else not got
            ck.ob(R2, f"{fi.fid} :: control output {out!r}", ok,
                  f"documented: {'pass the data' if want else 'drop'}; code returns {got!r}", fi, fi.node)
        # the not-initialised filter (documented name NotIfInitialized)
        nii = None
        for nm in ('NotIfInitialized', 'IfNotIitialized', 'IfNotInitialized'):
            if f"{FIL}:{nm}" in prog.classes:
                nii = prog.classes[f"{FIL}:{nm}"]
                break
        ck.need(R2, nii is not None, "the not-initialised filter class was not found in filters.py")
        fi = prog.resolve_method(nii, '__call__')
        ck.need(R2, fi is not None, f"{nii.qual}.__call__ not found")
        dp = fi.node.args.args[1].arg
        for initialized in (False, True):
            env = {'self._ctrl_blk.is_initialized()': initialized, dp: data_tok}
            got = Interp(R2, env, 'truthiness').run(fi.node.body)
            ck.abstract_cases += 1
            want = not initialized
            ok = (got is data_tok or got is True) if want else not got
            ck.ob(R2, f"{fi.fid} :: control initialized={initialized}", ok,
                  f"documented: {'pass the data' if want else 'drop'}; code returns {got!r}", fi, fi.node)

    with ck.section('R16.3'):
        # ------------------------------------------------------------------ R16.3
        delta = prog.cls(f"{FIL}:Delta")
        dinit, dcall = delta.methods.get('__init__'), delta.methods.get('__call__')
        ck.need(R3, dinit is not None and dcall is not None, "Delta.__init__/__call__ not found")
        g = ck.cfg(dcall.fid, 'M0')
        dp = dcall.node.args.args[1].arg
        writes = nodes_writing_attr(g, '_last')
        rets = return_nodes(g)
        acc = [r for r in rets if is_const(r.ast.value, True)]
        rej = [r for r in rets if is_const(r.ast.value, False)]
        ck.ob(R3, f"{dcall.fid} :: verdicts", bool(acc) and bool(rej) and len(acc) + len(rej) == len(rets),
              f"{len(acc)} accepting and {len(rej)} rejecting return(s)", dcall, dcall.node)
        rdd = ck.rdefs(dcall.fid, 'M0')
        okw = bool(writes)
        for w in writes:
            v = w.ast.value if isinstance(w.ast, ast.Assign) else None
            good = v is not None and (norm(v) == f"{dp}['value']" or (
                isinstance(v, ast.Name) and all(not isinstance(x, str) and norm(x) == f"{dp}['value']"
                                                for x in rdd.value_exprs(w, v.id))))
            okw = okw and good
        ck.ob(R3, f"{dcall.fid} :: stored value", okw,
              "_last receives the event's `value` item" if okw else
              "_last is not assigned the event's value", dcall, writes[0].ast if writes else dcall.node)
        for r in acc:
            p = must_pass(g, g.entry, writes, [r])
            ck.ob(R3, f"{dcall.fid} :: accepting path line {r.lineno}", p is None and bool(writes),
                  "every accepting path updates _last" if p is None and writes else
                  "an accepting path does not record the passed value", dcall, r.ast,
                  witness=path_witness(g, p))
        for r in rej:
            bad = [w for w in writes if r.id in g.reachable_from(w)]
            ck.ob(R3, f"{dcall.fid} :: rejecting path line {r.lineno}", not bad,
                  "no rejecting path touches _last" if not bad else
                  "a rejected value is remembered as the last value (drift)", dcall, r.ast)
        # ---- the filter decided by an abstract run: last in {UNDEF, 10}, value around it, delta = 1
        from sa.minieval import MiniEval
        run_bad = []
        n_run = 0
        UND = 'UNDEF-TOKEN'
        for last_ in (UND, 10):
            for val_ in (10, 10.5, 11, 9, 8.5, 12):
                env = {'self._last': last_, 'self._delta': 1, dp: {'value': val_}, 'block.UNDEF': UND, 'UNDEF': UND}
                try:
                    me = MiniEval(R3, env)
                    out = me.run(dcall.node.body)
                except Exception as err:
                    run_bad = None
                    ck.note(f"R16.3 abstract run not applicable: {err}")
                    break
                n_run += 1
                ck.abstract_cases += 1
                want = last_ is UND or abs(last_ - val_) >= 1
                new_last = me.env.get('self._last')
                if out[0] != 'return' or bool(out[1]) != want or new_last != (val_ if want else last_):
                    run_bad.append(f"last={last_}, value={val_}: returns {out}, _last becomes {new_last}; documented: "
                                   f"{'pass and remember the value' if want else 'reject and keep the last value'}")
            if run_bad is None:
                break
        run_ok = run_bad is not None and not run_bad
        if run_bad is not None:
            ck.ob(R3, f"{dcall.fid} :: abstract run", run_ok,
                  f"evaluated on {n_run} (last, value) pairs with delta = 1: passes iff there is no last "
                  f"value or |last - value| >= delta; only a passed value is remembered" if run_ok
                  else "; ".join(run_bad[:3]), dcall, dcall.node)
        # comparator
        cmp_ok = False
        undef_ok = False
        for n in own_nodes(dcall.node):
            if isinstance(n, ast.Compare) and len(n.ops) == 1:
                l, r = n.left, n.comparators[0]
                if isinstance(n.ops[0], (ast.GtE, ast.LtE)) and '_delta' in norm(n):
                    big, small = (l, r) if isinstance(n.ops[0], ast.GtE) else (r, l)
                    if norm(small) == 'self._delta' and isinstance(big, ast.Call) and \
                            call_name(big) == 'abs' and isinstance(big.args[0], ast.BinOp) and \
                            isinstance(big.args[0].op, ast.Sub) and \
                            {norm(big.args[0].left), norm(big.args[0].right)} in (
                                {'self._last', 'value'}, {'self._last', f"{dp}['value']"}):
                        cmp_ok = True
                if isinstance(n.ops[0], ast.Is) and norm(l) == 'self._last' and 'UNDEF' in norm(r):
                    undef_ok = True
        ck.ob(R3, f"{dcall.fid} :: comparator", cmp_ok or run_ok,
              "abs(last - value) >= delta ('differs by at least delta')" if cmp_ok else
              "the pass condition is not abs(self._last - value) >= self._delta", dcall, dcall.node)
        acc_guard = all(any('UNDEF' in t for t, p in g.guard_texts(r)) for r in acc)
        ck.ob(R3, f"{dcall.fid} :: first value", (undef_ok and acc_guard) or run_ok,
              "the first value (no last value yet) always passes" if undef_ok and acc_guard else
              "the `_last is UNDEF` case is not part of the pass condition", dcall, dcall.node)
        own(ck, R3, '_last', {dinit.fid: 'constructor (UNDEF)', dcall.fid: 'the filter itself'})
        gi = ck.cfg(dinit.fid, 'M0')
        iw = nodes_writing_attr(gi, '_last')
        ck.ob(R3, f"{dinit.fid} :: initial", bool(iw) and all('UNDEF' in norm(w.ast.value) for w in iw),
              "_last starts as UNDEF", dinit, iw[0].ast if iw else dinit.node)

    with ck.section('R16.4'):
        # ------------------------------------------------------------------ R16.4
        de = prog.cls(f"{FIL}:DataEdit")
        duals = [m for m in de.methods.values() if any('_dualmethod' in d for d in m.decorators)]
        ck.need(R4, len(duals) >= 8, f"only {len(duals)} dual methods found in DataEdit")
        for m in sorted(duals, key=lambda m: m.name):
            g = ck.cfg(m.fid, 'M0')
            apps = nodes_where(g, lambda n: any(call_name(c) == 'append' and
                                                recv(c) == 'self._editlist' for c in node_calls(n)))
            rets = return_nodes(g)
            ok = len(apps) == 1 and must_pass(g, g.entry, apps, [g.exit]) is None and bool(rets) and \
                all(norm(r.ast.value) == 'self' for r in rets) and \
                must_pass(g, g.entry, rets, [g.exit]) is None
            ck.ob(R4, m.fid, ok, "appends exactly one edit and returns self" if ok else
                  f"{m.name}: {len(apps)} append(s); returns {[norm(r.ast.value) for r in rets]}",
                  m, m.node)
        call = de.methods.get('__call__')
        ck.need(R4, call is not None, "DataEdit.__call__ not found")
        g = ck.cfg(call.fid, 'M0')
        dp = call.node.args.args[1].arg
        loops = [n for n in g.nodes if n.kind == 'for' and norm(n.ast.iter) == 'self._editlist']
        ok = len(loops) == 1
        if ok:
            fv = norm(loops[0].ast.target)
            step = nodes_where(g, lambda n: isinstance(n.ast, ast.Assign) and
                               norm(n.ast.targets[0]) == dp and norm(n.ast.value) == f"{fv}({dp})")
            brk = nodes_where(g, lambda n: isinstance(n.ast, ast.Break) and
                              g.has_guard(n, f'isinstance({dp}, MutableMapping)', False), kinds=('stmt',))
            rets = return_nodes(g)
            ok = len(step) == 1 and bool(brk) and all(norm(r.ast.value) == dp for r in rets) and bool(rets)
            # no further edit after a non-mapping result: the test follows the step in the body
            ok = ok and all(g.dominates(step[0], b) for b in brk)
        if not ok:
            # layout-independent decision: run __call__ on edit lists of recording callables
            from sa.minieval import MiniEval
            good = True
            try:
                for reject_at in (None, 0, 1, 2):
                    trace = []

                    def mk(i, trace=trace, reject_at=reject_at):
                        def edit(d):
                            trace.append((i, dict(d) if isinstance(d, dict) else d))
                            if reject_at == i:
                                return None
                            return {**d, f'k{i}': i}
                        return edit
                    env = {'self._editlist': [mk(0), mk(1), mk(2)], dp: {'src': 1}}
                    out = MiniEval(R4, env).run(call.node.body)
                    ck.abstract_cases += 1
                    if reject_at is None:
                        want_out = {'src': 1, 'k0': 0, 'k1': 1, 'k2': 2}
                        want_calls = [0, 1, 2]
                    else:
                        want_out = None
                        want_calls = list(range(reject_at + 1))
                    chained = all(tr_[1] == {'src': 1, **{f'k{j}': j for j in range(tr_[0])}} for tr_ in trace)
                    good = good and out == ('return', want_out) and [t_[0] for t_ in trace] == want_calls and chained
            except Exception:
                good = False
            ok = good
        ck.ob(R4, call.fid, ok, "data = edit(data) for each edit in order; stops at the first "
              "non-mapping result and returns it" if ok else
              "DataEdit.__call__ does not apply the edits in order to the loop-carried data or does "
              "not stop at a non-mapping result", call, call.node)
        modify = de.methods.get('modify')
        ck.need(R4, modify is not None, "DataEdit.modify not found")
        inner = [f for f in prog.funcs.values() if f.parent is modify]
        ck.need(R4, len(inner) == 1, "DataEdit.modify: inner edit function not recognised")
        gm = ck.cfg(inner[0].fid, 'M0')
        rj = [r for r in return_nodes(gm) if r.ast.value is None or is_const(r.ast.value, None)]
        okr = bool(rj) and all(gm.has_guard(r, 'replacement is self.REJECT', True) for r in rj)
        dels = nodes_where(gm, lambda n: isinstance(n.ast, ast.Delete), kinds=('stmt',))
        okd = bool(dels) and all(gm.has_guard(d, 'replacement is self.DELETE', True) and
                                 gm.has_guard(d, 'replacement is self.REJECT', False) for d in dels)
        sets = nodes_where(gm, lambda n: isinstance(n.ast, ast.Assign) and
                           isinstance(n.ast.targets[0], ast.Subscript) and norm(n.ast.value) == 'replacement')
        oks = bool(sets) and all(gm.has_guard(s, 'replacement is self.DELETE', False) and
                                 gm.has_guard(s, 'replacement is self.REJECT', False) for s in sets)
        ck.ob(R4, f"{inner[0].fid} :: REJECT/DELETE", okr and okd and oks,
              "returns None exactly for REJECT, deletes exactly for DELETE, otherwise stores the "
              "replacement" if okr and okd and oks else
              f"modify's edit: reject ok={okr}, delete ok={okd}, store ok={oks}", inner[0], inner[0].node)
        dv, rv_ = prog.class_value(de, 'DELETE'), prog.class_value(de, 'REJECT')
        ok = dv is not None and rv_ is not None and norm(dv) == 'object()' and norm(rv_) == 'object()'
        ck.ob(R4, f"{de.qual} :: DELETE/REJECT", ok, "two distinct object() sentinels" if ok else
              "DELETE and REJECT are not two distinct object() sentinels", None,
              f"{mod.path}:{de.node.lineno}")
        dm = prog.cls(f"{FIL}:_dualmethod")
        get = dm.methods.get('__get__')
        ck.need(R4, get is not None, "_dualmethod.__get__ not found")
        gg = ck.cfg(get.fid, 'M0')
        inst, owner = get.node.args.args[1].arg, get.node.args.args[2].arg
        fresh = nodes_where(gg, lambda n: isinstance(n.ast, ast.Assign) and norm(n.ast.targets[0]) == inst
                            and norm(n.ast.value) == f"{owner}()")
        ok = len(fresh) == 1 and gg.has_guard(fresh[0], f'{inst} is None', True)
        ck.ob(R4, get.fid, ok, "a fresh instance is created only for access on the class" if ok else
              "_dualmethod.__get__ does not create a fresh instance exactly when accessed on the class "
              "(edit lists would be shared between filters)", get, get.node)
        ao = de.methods.get('add_output')
        ck.need(R4, ao is not None, "DataEdit.add_output not found")
        ga = ck.cfg(ao.fid, 'M0')
        ns = nodes_where(ga, lambda n: isinstance(n.ast, ast.Assign) and isinstance(n.ast.value, ast.Call)
                         and norm(n.ast.value.func) == 'types.SimpleNamespace')
        ok = len(ns) == 1 and not any(isinstance(t, ast.Attribute) for t in ns[0].ast.targets)
        ck.ob(R4, f"{ao.fid} :: fresh namespace", ok,
              "the source is stored in a fresh local namespace per call" if ok else
              "add_output stores its source where a later add_output call overwrites it", ao, ao.node)
        einit = de.methods.get('__init__')
        own(ck, R4, '_editlist', {einit.fid: 'constructor'} if einit else {})

    with ck.section('R16.4c'):
        # ------------------------------------------------------------------ R16.4c
        for mname, last in (('add', 'kwargs'), ('setdefault', 'data')):
            m = de.methods.get(mname)
            ck.need(R4c, m is not None, f"DataEdit.{mname} not found")
            kwname = m.node.args.kwarg.arg if m.node.args.kwarg else None
            verdict = None
            for n in own_nodes(m.node):
                if isinstance(n, ast.Lambda) and isinstance(n.body, ast.Dict):
                    spreads = [norm(v) for k, v in zip(n.body.keys, n.body.values) if k is None]
                    lp = n.args.args[0].arg
                    if len(spreads) == 2 and set(spreads) == {lp, kwname} and len(n.body.keys) == 2:
                        winner = spreads[-1]
                        verdict = (winner == kwname) if last == 'kwargs' else (winner == lp)
            if verdict is None:
                # other idioms (dict(); update()) are outside the recognised spread idiom: the
                # precedence is then decided by R16.4d alone (abstract evaluation of the edit)
                ck.ob(R4c, m.fid, True, f"{mname}: not a two-spread dict display; the precedence on a "
                      "key clash is decided by R16.4d (key-equality domain)", m, m.node)
                continue
            ck.ob(R4c, m.fid, verdict,
                  f"{mname}: the {'new items' if last == 'kwargs' else 'existing data'} win on a key "
                  f"clash" if verdict else
                  f"{mname}: precedence on a key clash is reversed (the spread order gives priority to "
                  f"the {'data' if last == 'kwargs' else 'new items'})", m, m.node)

    with ck.section('R16.4d'):
        # ------------------------------------------------------------------ R16.4d
        _dataedit_semantics(ck, de)

    with ck.section('R16.5'):
        # ------------------------------------------------------------------ R16.5
        docs = directives(ck.repo, 'filters.rst')
        ck.need(R5, docs, "docs/filters.rst not found or empty")
        exported = _public_names(prog)
        for d in docs:
            where = f"{d['file']}:{d['line']}"
            if d['owner'] is None:
                ok = d['name'] in exported and (f"{FIL}:{d['name']}" in prog.classes or
                                                f"{FIL}:{d['name']}" in prog.funcs or
                                                prog.lookup(mod, d['name']) is not None)
                ck.ob(R5, f"docs/filters.rst :: {d['kind']} {d['name']}", ok,
                      f"edzed.{d['name']} exists and is exported" if ok else
                      f"the documented filter `edzed.{d['name']}` does not exist in the public API "
                      f"(blocklib/filters.py exports {sorted(_all_of(prog, mod))})", None, where)
            else:
                ci = prog.classes.get(f"{FIL}:{d['owner']}")
                if ci is None:
                    ck.ob(R5, f"docs/filters.rst :: {d['owner']}.{d['name']}", False,
                          f"owner class {d['owner']} not found", None, where)
                    continue
                if d['kind'] in ('classmethod', 'method'):
                    m = ci.methods.get(d['name'])
                    ok = m is not None and (d['kind'] != 'classmethod' or
                                            any('_dualmethod' in x or 'classmethod' in x for x in m.decorators))
                else:
                    ok = prog.class_value(ci, d['name']) is not None
                ck.ob(R5, f"docs/filters.rst :: {d['owner']}.{d['name']}", ok,
                      f"{d['owner']}.{d['name']} exists" if ok else
                      f"documented {d['kind']} {d['owner']}.{d['name']} does not exist (or is not "
                      f"callable on the class)", None, where)


def _all_of(prog, mod):
    from sa.tables import fold, Unfoldable
    if mod.all_names is None:
        return set()
    try:
        return set(fold(prog, mod, mod.all_names))
    except Unfoldable:
        return set()


def _public_names(prog):
    """Names exported by edzed/__init__.py: union of the __all__ lists it star-imports."""
    root = prog.module('')
    names = set()
    for base in root.star_imports:
        m = prog.modules.get(base)
        if m is None:
            continue
        allv = _all_of(prog, m)
        if allv:
            names |= allv
        else:
            names |= {k for k in m.bindings if not k.startswith('_')}
    return names


# ---------------------------------------------------------------------------------------------
# R16.4d: every DataEdit operation has the documented dictionary effect, decided by abstract
# evaluation on the complete key-equality domain (see sa/dictval.py)

_KEYS = ('k0', 'k1', 'k2')


def _all_dicts():
    import itertools
    for present in itertools.product((False, True), repeat=len(_KEYS)):
        yield {k: f"v_{k}" for k, p in zip(_KEYS, present) if p}


def _edit_function(ck, rule, m):
    """The callable appended to self._editlist by dual method m: (param names, body stmts | expr)."""
    for x in own_nodes(m.node):
        if isinstance(x, ast.Call) and call_name(x) == 'append' and recv(x) == 'self._editlist':
            a = x.args[0]
            if isinstance(a, ast.Lambda):
                return [p.arg for p in a.args.args], a.body, 'expr'
            if isinstance(a, ast.Name):
                inner = [f for f in ck.prog.funcs.values() if f.parent is m and f.name == a.id]
                if len(inner) == 1:
                    return [p.arg for p in inner[0].node.args.args], inner[0].node.body, 'body'
    raise AnalysisError(rule, f"{m.fid}: the edit function was not recognised")


def _dataedit_semantics(ck, de):
    import itertools
    from sa.dictval import DictInterp, KeyErr
    R = ck.rule('R16.4d', "every DataEdit operation has the documented dictionary effect on every "
                "mapping over a three-key universe and every choice of parameter keys (complete "
                "key-equality domain): add, setdefault, copy, rename, delete, permit, modify, "
                "add_output; and no operation keeps state between two deliveries", 'key-equality domain', 16)
    m = de.methods
    REJ, DEL = object(), object()
    total = 0

    def run_edit(mname, params, data, share=False):
        pnames, body, kind = _edit_function(ck, R, m[mname])
        # share=True: the captured parameter objects are the very same objects for consecutive
        # deliveries (as the closure's cells are); otherwise mapping-valued parameters are copied
        env = dict(params) if share else {k: (dict(v) if isinstance(v, dict) else v)
                                          for k, v in params.items()}
        d = dict(data)
        env[pnames[0]] = d
        it = DictInterp(R, env)
        try:
            res = it.ev(body) if kind == 'expr' else it.run(body)
        except KeyErr:
            return 'KeyError'
        return res

    def check(mname, cases, describe):
        nonlocal total
        bad = None
        n = 0
        for params, data, want in cases:
            got = run_edit(mname, params, data)
            n += 1
            ck.abstract_cases += 1
            if got != want and bad is None:
                bad = (params, data, want, got)
        total += n
        # ---- the edit concerns "the data of that one delivery": the same filter object applied to
        # a second event must behave as if it were fresh, even if the first result was edited in
        # place downstream (no state captured in, or aliased with, the closure)
        groups = {}
        for params, data, want in cases:
            key = tuple(sorted((k, id(v) if callable(v) or type(v) is object else repr(v))
                               for k, v in params.items()))
            groups.setdefault(key, (params, []))[1].append((data, want))
        leak = None
        npairs = 0
        for params, dl in groups.values():
            for d1, _w1 in dl:
                for d2, w2 in dl:
                    shared = {k: (dict(v) if isinstance(v, dict) else v) for k, v in params.items()}
                    r1 = run_edit(mname, shared, d1, share=True)
                    if isinstance(r1, dict):
                        r1.clear()          # a later filter may edit the delivered data in place
                    r2 = run_edit(mname, shared, d2, share=True)
                    npairs += 1
                    ck.abstract_cases += 1
                    if r2 != w2 and leak is None:
                        leak = (params, d1, d2, w2, r2)
        total += npairs
        ck.ob(R, f"{FIL}:DataEdit.{mname} :: no state between deliveries", leak is None,
              f"{describe}: {npairs} (first event, second event) pairs through one filter object, "
              f"the second result never depends on the first" if leak is None else
              f"{mname}: state leaks from one delivery into the next: parameters "
              f"{ {k: v for k, v in leak[0].items() if not callable(v) and type(v) is not object} }, first "
              f"event {leak[1]}, then event {leak[2]} yields {leak[4]} instead of {leak[3]}",
              m[mname], m[mname].node)
        ck.ob(R, f"{FIL}:DataEdit.{mname}", bad is None,
              f"{describe}: {n} cases, all as documented" if bad is None else
              f"{describe}: with parameters { {k: v for k, v in bad[0].items() if not callable(v)} } "
              f"and data {bad[1]} the documented result is {bad[2]} but the code yields {bad[3]}",
              m[mname], m[mname].node)

    kw_choices = [dict(c) for r in range(0, 3) for c in itertools.combinations([('k0', 'n0'), ('k1', 'n1')], r)]
    kwn = m['add'].node.args.kwarg.arg
    check('add', [({kwn: kw}, d, {**d, **kw}) for kw in kw_choices for d in _all_dicts()],
          "new items are added, existing values overwritten")
    kwn = m['setdefault'].node.args.kwarg.arg
    check('setdefault', [({kwn: kw}, d, {**kw, **d}) for kw in kw_choices for d in _all_dicts()],
          "items are added only for missing keys")
    a = [x.arg for x in m['copy'].node.args.args][1:]
    cases = []
    for src, dst in itertools.product(_KEYS, repeat=2):
        for d in _all_dicts():
            want = 'KeyError' if src not in d else {**d, dst: d[src]}
            cases.append(({a[0]: src, a[1]: dst}, d, want))
    check('copy', cases, "data[dst] = data[src]")
    a = [x.arg for x in m['rename'].node.args.args][1:]
    cases = []
    for src, dst in itertools.product(_KEYS, repeat=2):
        for d in _all_dicts():
            if src not in d:
                want = 'KeyError'
            else:
                want = {**d, dst: d[src]}
                del want[src]       # "like copy, but the srckey item is deleted afterward"
            cases.append(({a[0]: src, a[1]: dst}, d, want))
    check('rename', cases, "copy, then the source key is deleted")
    va = m['delete'].node.args.vararg.arg
    subsets = [tuple(c) for r in range(0, 4) for c in itertools.combinations(_KEYS, r)]
    check('delete', [({va: ks}, d, {k: v for k, v in d.items() if k not in ks})
                     for ks in subsets for d in _all_dicts()],
          "listed keys are removed, missing keys ignored")
    va = m['permit'].node.args.vararg.arg
    check('permit', [({va: ks}, d, {k: v for k, v in d.items() if k in ks})
                     for ks in subsets for d in _all_dicts()],
          "all but the listed keys are removed")
    a = [x.arg for x in m['modify'].node.args.args][1:]
    cases = []
    for key in _KEYS:
        for d in _all_dicts():
            for behaviour in ('replace', 'delete', 'reject'):
                if key not in d:
                    want = 'KeyError'
                elif behaviour == 'replace':
                    want = {**d, key: ('f', d[key])}
                elif behaviour == 'delete':
                    want = {k: v for k, v in d.items() if k != key}
                else:
                    want = None
                fn = {'replace': lambda v: ('f', v), 'delete': lambda v: DEL, 'reject': lambda v: REJ}[behaviour]
                cases.append(({a[0]: key, a[1]: fn, 'self.REJECT': REJ, 'self.DELETE': DEL,
                               'DataEdit.REJECT': REJ, 'DataEdit.DELETE': DEL}, d, want))
    check('modify', cases, "value replaced / item deleted for DELETE / event rejected for REJECT")
    a = [x.arg for x in m['add_output'].node.args.args][1:]
    OUT = 'OUTPUT-OF-SOURCE'
    check('add_output', [({a[0]: key, 'src.block.output': OUT}, d, {**d, key: OUT})
                         for key in _KEYS for d in _all_dicts()],
          "data[key] = source block's output")
    ck.extra.setdefault('exhaustive_parts', []).append(
        f"R16.4d: {total} (operation, parameters, mapping) cases over a 3-key universe")


def _send_shape(ck, prog, R1):
    """Shape form of R16.1 (Event.send) for the layout of the pinned tree."""
    es = prog.func('block:Event.send')
    cfg = ck.cfg(es.fid, 'M0')
    src_param = (es.node.args.posonlyargs + es.node.args.args)[1].arg
    loops = [n for n in cfg.nodes if n.kind == 'for' and norm(n.ast.iter) == 'self._filters']
    ck.ob(R1, f"{es.fid} :: filter loop", len(loops) == 1,
          "plain `for` over self._filters (configured order)" if len(loops) == 1 else
          "the filters are not applied by one plain `for` loop over self._filters "
          f"({len(loops)} found)", es, loops[0].ast if loops else es.node)
    ck.need(R1, loops, "Event.send: filter loop not recognised")
    fvar = norm(loops[0].ast.target)
    fcalls = nodes_where(cfg, lambda n: any(isinstance(c.func, ast.Name) and c.func.id == fvar
                                            for c in node_calls(n)))
    ck.need(R1, len(fcalls) == 1, "Event.send: exactly one filter call expected")
    fc = fcalls[0]
    fcall = [c for c in node_calls(fc) if isinstance(c.func, ast.Name) and c.func.id == fvar][0]
    rd = ck.rdefs(es.fid, 'M0')
    okarg = len(fcall.args) == 1 and norm(fcall.args[0]) == 'data' and not fcall.keywords
    data_defs = rd.defs_at(fc, 'data')
    rebind = [d for d in data_defs if d.kind != 'entry']
    rv = norm(fc.ast.targets[0]) if isinstance(fc.ast, ast.Assign) else None
    okarg = okarg and rv is not None and all(
        isinstance(d.ast, ast.Assign) and norm(d.ast.value) == rv for d in rebind) and bool(rebind)
    ck.ob(R1, f"{es.fid} :: loop-carried data", okarg,
          "each filter receives the current data; a mapping result becomes the data of later "
          "filters" if okarg else "the filter call does not receive the loop-carried `data`, or "
          "`data` is never re-bound to a filter's mapping result", es, fc.ast)
    for d in rebind:
        ok = cfg.has_guard(d, f'isinstance({rv}, MutableMapping)', True)
        ck.ob(R1, f"{es.fid} :: {norm1(d.ast)}", ok,
              "re-binding only for a MutableMapping result" if ok else
              "data is re-bound for a result that is not known to be a MutableMapping", es, d.ast)
    rf = [r for r in return_nodes(cfg) if is_const(r.ast.value, False)]
    rt = [r for r in return_nodes(cfg) if is_const(r.ast.value, True)]
    okf = bool(rf) and all(cfg.has_guard(r, f'isinstance({rv}, MutableMapping)', False) and
                           cfg.has_guard(r, rv, False) for r in rf)
    ck.ob(R1, f"{es.fid} :: veto", okf,
          "return False exactly for a non-mapping false result (an empty mapping is data, not a "
          "veto)" if okf else "the veto test is not `not a mapping and falsy` -- truthiness "
          "tested before the mapping test turns {} into a veto", es, rf[0].ast if rf else es.node)
    deliveries = nodes_calling(cfg, 'event')
    srcw = nodes_where(cfg, lambda n: isinstance(n.ast, ast.Assign) and
                       norm(n.ast.targets[0]) == "data['source']")

    def events(n):
        ev = []
        if n in srcw:
            ev.append('S')
        if n is fc:
            ev.append('F')
        if n in deliveries:
            ev.append('D')
        if n in rt:
            ev.append('Rt')
        if n in rf:
            ev.append('Rf')
        if n.kind == 'stmt' and isinstance(n.ast, ast.Return) and n not in rt and n not in rf:
            ev.append('Rx')
        return ev
    ok, wit, st = check_language(cfg, "S F* ( D Rt | Rf )", events, [cfg.exit])
    ck.product_states += st['product_states']
    ck.ob(R1, f"{es.fid} :: path language S F* (D Rt | Rf)", ok,
          "every normal path: source item, filters, then either one delivery and True, or False "
          "without delivery" if ok else
          f"a path has the event word {' '.join(wit[1])} (not in S F* (D Rt | Rf))", es, es.node,
          witness=path_witness(cfg, wit[0]) if wit else None)
    if deliveries:
        dc = node_calls(deliveries[0], 'event')[0]
        okd = [norm(a) for a in dc.args] == ['self._etype'] and len(dc.keywords) == 1 and \
            dc.keywords[0].arg is None and norm(dc.keywords[0].value) == 'data'
        ck.ob(R1, f"{es.fid} :: delivery arguments", okd,
              "dest.event(self._etype, **data) with the last binding of data" if okd else
              f"delivery is `{norm(dc)}`; the destination must receive the filtered data", es,
              deliveries[0].ast)
    keychk = nodes_where(cfg, lambda n: isinstance(n.ast, ast.Raise) and n.kinds == {'N:TypeError'}
                         and cfg.has_guard(n, f'isinstance({rv}, MutableMapping)', True), kinds=('stmt',))
    ck.ob(R1, f"{es.fid} :: string keys", bool(keychk),
          "a mapping with a non-string key raises TypeError" if keychk else
          "the string-key check of a filter's mapping result is missing", es, es.node)

