"""C18 -- Repeat re-sends the latest event at the configured pace and count (structural)."""
from __future__ import annotations

import ast

from sa.loader import recv, norm, norm1, walk_shallow, own_nodes, call_name, is_super_call, AnalysisError
from sa.absval import Interp
from sa.dataflow import node_defs
from sa.rulekit import (nodes_where, node_calls, node_roots, nodes_calling, return_nodes, own,
                        nodes_writing_attr, must_pass, is_const, written_value, expr_is, kw,
                        effect_nodes, effect_free_to, superchain)
from sa.report import path_witness

RP = 'blocklib.sblocks1:Repeat'

UNDECIDED = [
    "the pace (`interval` seconds between repetitions), arrival patterns relative to it, chains "
    "of two Repeat blocks in time -- timing; NOT decided",
]


def run(ck):
    ck.explanation = (
        "Repeat (edzed/blocklib/sblocks1.py): at both send sites the output is set to the very "
        "number that is sent as `repeat`; the original sender is saved as orig_source before the "
        "send overwrites `source`; the same data object is enqueued; the main task re-sends the "
        "most recently dequeued data, restarts the numbering on both dequeue arms and increments "
        "by one on the time-out arm only; events of other types have no effect; the continuation "
        "test compares the number just sent with count by strict < (evaluated on a small integer "
        "grid); Event(..., repeat=, count=) maps its parameters to the Repeat block's keywords.")
    ck.undecided = UNDECIDED
    prog = ck.prog
    rp = prog.cls(RP)
    m = rp.methods
    ev, mt, ini = m.get('_event'), m.get('_maintask'), m.get('__init__')
    ck.need('R18.1', ev and mt and ini, "Repeat._event/_maintask/__init__ not found")

    R1 = ck.rule('R18.1', "output = repeat number = event item: every send of the repeated event "
                 "is immediately preceded by set_output(X) with the same X passed as repeat=X; "
                 "init sets 0; no other set_output", 'M0', 4)
    R2 = ck.rule('R18.2', "data and provenance: orig_source saved before the send; self and "
                 "**data sent; the same data enqueued; the main task re-sends the latest dequeued "
                 "data, resets the number on both dequeue arms and increments by 1 on time-out "
                 "only", 'M1', 6)
    R3 = ck.rule('R18.3', "events of other types are ignored without effect", 'M0', 1)
    R4 = ck.rule('R18.4', "implicit Repeat: Event(dest, etype, repeat=r, count=c) creates "
                 "Repeat(dest=dest, etype=etype, interval=r, count=c) and sends to it; count "
                 "without repeat raises; Repeat refuses EventCond, non-positive intervals and "
                 "negative counts", 'M0', 6)
    R5 = ck.rule('R18.5', "nothing after stop: Repeat's only senders are _event and the main "
                 "task, which AddonMainTask cancels and awaits; the queue is created in start()",
                 'M0', 3)
    R7 = ck.rule('R18.7', "chains of Repeat blocks: wherever the received data is spread next to an "
                 "explicit keyword (send(self, **data, repeat=N)), that key has been removed from "
                 "the data on every path (an incoming `repeat` item of an upstream Repeat must not "
                 "collide); queued data is collision-free too", 'M0', 3)
    R6 = ck.rule('R18.6', "continuation test: after sending number k the loop continues iff "
                 "count is None or k < count (exactly `count` repetitions)", 'ordering domain', 2)

    R8 = ck.rule('R18.8', "the most recent event is the one repeated: no event taken from Repeat's queue is thrown "
                 "away unseen - every get() / get_nowait() on the queue delivers its value to an assignment", 'M0', 2)
    with ck.section('R18.8'):
        mt8 = prog.func('blocklib.sblocks1:Repeat._maintask')
        n8 = 0
        parents8 = {}
        for x in ast.walk(mt8.node):
            for ch in ast.iter_child_nodes(x):
                parents8[ch] = x
        for x in own_nodes(mt8.node):
            if isinstance(x, ast.Call) and call_name(x) in ('get', 'get_nowait') and recv(x).endswith('_queue'):
                n8 += 1
                up = parents8.get(x)
                while isinstance(up, (ast.Await, ast.Call)) and not isinstance(up, ast.stmt):
                    up = parents8.get(up)
                ok = isinstance(up, (ast.Assign, ast.NamedExpr, ast.AnnAssign, ast.Return))
                ck.ob(R8, f"{mt8.fid} :: {norm1(x)}", ok, "the dequeued event is bound to a variable" if ok else
                      f"`{norm1(x)}` discards the event it takes from the queue: when events arrive in a burst the "
                      "discarded one is the most recent, and the repetitions carry an older event's data", mt8, x)
        ck.need(R8, n8 >= 2, f"only {n8} dequeue sites in Repeat._maintask (2 confirmed by hand)")
    with ck.section('R18.1'):
        # ------------------------------------------------------------------ R18.1
        n_send = 0
        for fi in (ev, mt):
            g = ck.cfg(fi.fid, 'M0')
            for s in nodes_where(g, lambda n: any(call_name(c) == 'send' and recv(c) == 'self._repeated_event'
                                                  for c in node_calls(n))):
                n_send += 1
                c = [c for c in node_calls(s, 'send')][0]
                rep = kw(c, 'repeat')
                preds = [g.nodes[p] for p, lab in g.pred[s.id]]
                ok = rep is not None and len(preds) == 1 and preds[0].kind == 'stmt' and \
                    any(call_name(x) == 'set_output' and recv(x) == 'self' and
                        [norm(a) for a in x.args] == [norm(rep)] for x in node_calls(preds[0]))
                ck.ob(R1, f"{fi.fid} :: {norm1(s.ast)}", ok,
                      f"set_output({norm(rep)}) immediately precedes the send with repeat={norm(rep)}"
                      if ok else
                      "the output is not set to the repeat number that is sent (or not immediately "
                      "before the send)", fi, s.ast)
                okd = [norm(a) for a in c.args] == ['self'] and \
                    any(k.arg is None and norm(k.value) == 'data' for k in c.keywords) and \
                    {k.arg for k in c.keywords} == {None, 'repeat'}
                ck.ob(R2, f"{fi.fid} :: send arguments", okd,
                      "send(self, **data, repeat=...)" if okd else
                      f"the repeated event is sent as `{norm(c)}`: the original data items are not "
                      f"forwarded unchanged with the Repeat block as source", fi, s.ast)
        ck.need(R1, n_send == 2, f"expected two send sites of the repeated event, found {n_send}")
        first = [c for c in own_nodes(ev.node) if isinstance(c, ast.Call) and call_name(c) == 'send']
        ok = bool(first) and is_const(kw(first[0], 'repeat'), 0)
        ck.ob(R1, f"{ev.fid} :: original event is number 0", ok,
              "the immediately forwarded event carries repeat=0" if ok else
              "the immediately forwarded event does not carry repeat=0", ev, first[0] if first else ev.node)
        sites = sorted({f.fid for f in rp.methods.values() for x in own_nodes(f.node)
                        if isinstance(x, ast.Call) and call_name(x) == 'set_output'})
        ir = m.get('init_regular')
        ok = sites == sorted([ev.fid, mt.fid, ir.fid]) and any(
            isinstance(x, ast.Call) and call_name(x) == 'set_output' and is_const(x.args[0], 0)
            for x in own_nodes(ir.node))
        ck.ob(R1, f"{RP} :: set_output sites", ok, f"set_output sites: {sites}; init sets 0" if ok
              else f"unexpected set_output sites {sites}", ir, ir.node)

    with ck.section('R18.2'):
        # ------------------------------------------------------------------ R18.2
        g = ck.cfg(ev.fid, 'M0')
        dpar = ev.node.args.args[2].arg
        osrc = nodes_where(g, lambda n: isinstance(n.ast, ast.Assign) and
                           norm(n.ast.targets[0]) == f"{dpar}['orig_source']")
        sends = nodes_calling(g, 'send')
        enq = nodes_where(g, lambda n: any(call_name(c) == 'put_nowait' and recv(c) == 'self._queue'
                                           for c in node_calls(n)))
        ok = len(osrc) == 1 and len(sends) == 1 and len(enq) == 1 and \
            norm(osrc[0].ast.value) in (f"{dpar}.get('source')", f"{dpar}['source']") and \
            g.dominates(osrc[0], sends[0]) and g.dominates(sends[0], enq[0]) and \
            [norm(a) for a in node_calls(enq[0], 'put_nowait')[0].args] == [dpar]
        ck.ob(R2, f"{ev.fid} :: orig_source, send, enqueue", ok,
              "orig_source = the sender's source, then the synchronous send, then the same data "
              "object is queued for repetition" if ok else
              "the original sender is not saved before the send, or the data is not queued for "
              "repetition after it", ev, osrc[0].ast if osrc else ev.node)
        gm = ck.cfg(mt.fid, 'M1')
        deq = nodes_where(gm, lambda n: isinstance(n.ast, ast.Assign) and any(
            isinstance(a, ast.Await) and 'self._queue.get()' in norm(a.value) for a in walk_shallow(n.ast)))
        ok = len(deq) == 2 and all(norm(d.ast.targets[0]) == 'data' for d in deq)
        msend = nodes_calling(gm, 'send')
        rd = ck.rdefs(mt.fid, 'M1')
        if ok and msend:
            defs = rd.defs_at(msend[0], 'data')
            ok = bool(defs) and all(d in deq for d in defs)
        ck.ob(R2, f"{mt.fid} :: latest data", ok,
              "the re-sent data is always the most recently dequeued event" if ok else
              "the main task may re-send something else than the most recently dequeued data", mt,
              msend[0].ast if msend else mt.node)
        rvar = None
        if msend:
            rep = kw(node_calls(msend[0], 'send')[0], 'repeat')
            rvar = norm(rep) if rep is not None else None
        resets = nodes_where(gm, lambda n: isinstance(n.ast, ast.Assign) and norm(n.ast.targets[0]) == rvar
                             and is_const(n.ast.value, 0))
        okr = rvar is not None and len(deq) == 2
        wit = None
        for d in deq:
            # after a successful dequeue (normal continuation) the number is reset before it is used
            for v, lab in gm.succ[d.id]:
                if lab == 'exc':
                    continue
                nxt = gm.nodes[v]
                if nxt in resets:
                    continue
                p = gm.path_avoiding(nxt, msend + [gm.exit], avoid=resets)
                if p is not None:
                    okr = False
                    wit = p
        ck.ob(R2, f"{mt.fid} :: numbering restarts", okr and bool(resets),
              f"after each dequeue `{rvar} = 0` before the next send: a newer event restarts the "
              f"numbering" if okr and resets else
              "a newly arrived event does not restart the repeat numbering on every dequeue path",
              mt, deq[0].ast if deq else mt.node, witness=path_witness(gm, wit))
        incs = nodes_where(gm, lambda n: isinstance(n.ast, ast.AugAssign) and norm(n.ast.target) == rvar)
        hto = [n for n in gm.nodes if n.kind == 'handler' and gm.pred[n.id] and 'TimeoutError' in norm(n.ast.type)]
        ok = len(incs) == 1 and isinstance(incs[0].ast.op, ast.Add) and is_const(incs[0].ast.value, 1) and \
            len(hto) == 1 and gm.dominates(hto[0], incs[0])
        ck.ob(R2, f"{mt.fid} :: increment on time-out only", ok,
              f"`{rvar} += 1` happens exactly in the TimeoutError arm of the interval wait" if ok else
              "the repeat number is not incremented by one exactly when the interval elapsed", mt,
              incs[0].ast if incs else mt.node)
        wf = [a for a in own_nodes(mt.node) if isinstance(a, ast.Await) and isinstance(a.value, ast.Call)
              and norm(a.value.func) == 'asyncio.wait_for']
        ok = len(wf) == 1 and [norm(x) for x in wf[0].value.args] == ['self._queue.get()', 'self._interval']
        ck.ob(R2, f"{mt.fid} :: interval wait", ok,
              "while repeating, the wait for a newer event is bounded by self._interval" if ok else
              "the repetition wait is not wait_for(self._queue.get(), self._interval)", mt,
              wf[0] if wf else mt.node)
        skip = nodes_where(gm, lambda n: n.kind == 'test' and norm(n.ast) in (f'{rvar} > 0', f'0 < {rvar}',
                                                                             f'{rvar} >= 1', f'{rvar} != 0'))
        ok = len(skip) == 1 and bool(msend) and gm.has_guard(msend[0], norm(skip[0].ast), True)
        ck.ob(R2, f"{mt.fid} :: original not re-sent", ok,
              "number 0 (already forwarded by _event) is not sent again by the task" if ok else
              "the main task also sends repeat number 0 (the original would be delivered twice)", mt,
              skip[0].ast if skip else mt.node)

    with ck.section('R18.3'):
        # ------------------------------------------------------------------ R18.3
        foreign = [r for r in return_nodes(g) if any('etype' in t and p for t, p in g.guard_texts(r))]
        test_ok = any(g.has_guard(r, 'etype != self._repeated_event.etype', True) for r in foreign)
        forb = effect_nodes(g, calls=('set_output', 'send', 'put_nowait'))
        if foreign and test_ok:
            effect_free_to(ck, R3, f"{ev.fid} :: other types", ev, g, foreign, forb,
                           "an event of another type has no effect (one-time log only)")
        else:
            ck.ob(R3, f"{ev.fid} :: other types", False,
                  "no effect-free return under `etype != self._repeated_event.etype`", ev, ev.node)

    with ck.section('R18.4'):
        # ------------------------------------------------------------------ R18.4
        ei = prog.func('block:Event.__init__')
        ge = ck.cfg(ei.fid, 'M0')
        mk = nodes_where(ge, lambda n: any(norm(c.func) in ('sblocks1.Repeat', 'Repeat') for c in node_calls(n)))
        ok = len(mk) == 1 and ge.has_guard(mk[0], 'repeat is not None', True)
        if ok:
            c = [c for c in node_calls(mk[0]) if norm(c.func) in ('sblocks1.Repeat', 'Repeat')][0]
            kws = {k.arg: norm(k.value) for k in c.keywords}
            ok = kws.get('dest') == 'dest' and kws.get('etype') == 'etype' and kws.get('interval') == 'repeat' \
                and kws.get('count') == 'count' and isinstance(mk[0].ast, ast.Assign) and \
                norm(mk[0].ast.targets[0]) == 'dest'
            dw = nodes_writing_attr(ge, '_dest')
            ew = nodes_writing_attr(ge, '_etype')
            ok = ok and all(norm(written_value(w, '_dest')) == 'dest' and mk[0].id not in ge.reachable_from(w)
                            for w in dw) and all(norm(written_value(w, '_etype')) == 'etype' for w in ew) and \
                bool(dw) and bool(ew)
        ck.ob(R4, f"{ei.fid} :: implicit Repeat", ok,
              "Repeat(dest=dest, etype=etype, interval=repeat, count=count) becomes the Event's "
              "destination; the event type is kept" if ok else
              "Event(..., repeat=) does not create Repeat(dest=dest, etype=etype, interval=repeat, "
              "count=count) as its destination", ei, mk[0].ast if mk else ei.node)
        cr = nodes_where(ge, lambda n: isinstance(n.ast, ast.Raise) and ge.has_guard(n, 'repeat is not None', False)
                         and ge.has_guard(n, 'count is not None', True), kinds=('stmt',))
        ck.ob(R4, f"{ei.fid} :: count without repeat", bool(cr),
              "count without repeat raises" if cr else "count without repeat is silently accepted", ei, ei.node)
        gi = ck.cfg(ini.fid, 'M0')
        rs = nodes_where(gi, lambda n: isinstance(n.ast, ast.Raise), kinds=('stmt',))

        def raised_under(text, pol=True):
            return any(gi.has_guard(r, text, pol) for r in rs)
        ck.ob(R4, f"{ini.fid} :: EventCond refused", raised_under('isinstance(etype, block.EventCond)'),
              "a conditional event cannot be repeated", ini, ini.node)
        # the two argument checks, decided by evaluating "is a raise reached?" on a value grid
        from sa.minieval import MiniEval

        def raises_for(env_):
            """Does __init__ reach one of its raise statements for these argument values?  Only the
            `if <test>: raise` statements whose test can be evaluated from env_ take part."""
            # first choice: run the whole constructor (any layout) with stand-ins for what it calls
            a_ = ini.node.args
            env = {'dest': 'DEST', 'etype': 'put', 'interval': 5, 'count': None,
                   'isinstance(etype, block.EventCond)': False, 'block.Event': lambda *a, **k: 'EVENT',
                   'utils.time_period': lambda x: x, 'super().__init__': lambda *a, **k: None}
            if a_.vararg:
                env[a_.vararg.arg] = ()
            if a_.kwarg:
                env[a_.kwarg.arg] = {}
            for k_, v_ in env_.items():
                env['interval' if k_ == 'self._interval' else k_] = v_
            try:
                res = MiniEval(R4, env).run(ini.node.body)
                return res[0] in ('raise', 'fault')
            except AnalysisError:
                pass
            hit = False
            for st_ in ini.node.body:
                if isinstance(st_, ast.If) and st_.body and isinstance(st_.body[-1], ast.Raise) and not st_.orelse:
                    try:
                        v_ = MiniEval(R4, env_).ev(st_.test)
                    except AnalysisError:
                        continue
                    except Exception:       # a fault of the evaluated test (e.g. None <= 0)
                        v_ = 'fault'
                    hit = hit or bool(v_)
            return hit
        badi = [v_ for v_ in (None, -1, 0, 0.0, 0.5, 5) if
                raises_for({'self._interval': v_}) != (v_ is None or v_ <= 0)]
        ck.abstract_cases += 6
        ck.ob(R4, f"{ini.fid} :: positive interval", not badi,
              "interval None / <= 0 raises, a positive interval is accepted (6 values)" if not badi else
              f"for interval = {badi} the constructor {'does not raise' if (badi[0] is None or badi[0] <= 0) else 'raises'}"
              f" (documented: the interval must be positive)", ini, ini.node)
        badc = [v_ for v_ in (None, -2, -1, 0, 1, 3) if
                raises_for({'count': v_}) != (v_ is not None and v_ < 0)]
        ck.abstract_cases += 6
        ck.ob(R4, f"{ini.fid} :: count", not badc,
              "a negative count raises; None and count=0 (no repetition) are accepted (6 values)" if not badc else
              f"for count = {badc} the constructor decides wrongly (negative counts must raise, None / 0 / "
              f"positive counts must be accepted)", ini, ini.node)
        re_w = nodes_writing_attr(gi, '_repeated_event')
        ok = len(re_w) == 1 and norm(written_value(re_w[0], '_repeated_event')) == 'block.Event(dest, etype)'
        cw = nodes_writing_attr(gi, '_count')
        iw = nodes_writing_attr(gi, '_interval')
        ok = ok and len(cw) == 1 and norm(written_value(cw[0], '_count')) == 'count' and len(iw) == 1 and \
            norm(written_value(iw[0], '_interval')) == 'utils.time_period(interval)'
        ck.ob(R4, f"{ini.fid} :: configuration stored", ok,
              "the repeated event is Event(dest, etype); interval and count are stored as given" if ok
              else "Repeat does not store Event(dest, etype), time_period(interval) and count", ini, ini.node)

    with ck.section('R18.5'):
        # ------------------------------------------------------------------ R18.5
        names = [cname_.name if hasattr(cname_, 'name') else str(cname_) for cname_ in rp.mro]
        ok = 'AddonMainTask' in names and names.index('AddonMainTask') < names.index('SBlock')
        ck.ob(R5, f"{RP} :: main-task add-on", ok,
              "Repeat's task is started/cancelled/awaited by AddonMainTask (C08 R08.7)" if ok else
              "Repeat is not an AddonMainTask block: its task is not cancelled at stop", None,
              f"{rp.module.path}:{rp.node.lineno}")
        senders = sorted({f.fid for f in rp.methods.values() for x in own_nodes(f.node)
                          if isinstance(x, ast.Call) and call_name(x) == 'send'})
        ck.ob(R5, f"{RP} :: senders", senders == sorted([ev.fid, mt.fid]),
              f"events are sent by {senders} only", None, f"{rp.module.path}:{rp.node.lineno}")
        st = m.get('start')
        gs = ck.cfg(st.fid, 'M0')
        qn = nodes_writing_attr(gs, '_queue')
        ok = len(qn) == 1 and norm(written_value(qn[0], '_queue')) == 'asyncio.Queue()' and \
            must_pass(gs, gs.entry, qn, [gs.exit]) is None and not st.is_async
        ck.ob(R5, st.fid, ok, "start() creates the (FIFO) queue synchronously, before the task's "
              "first step can run" if ok else "Repeat.start does not create its queue", st, st.node)
        superchain(ck, R5, 'start', classes={RP})

    with ck.section('R18.7'):
        # ------------------------------------------------------------------ R18.7
        _r18_7(ck, R7, rp, ev, mt)

    with ck.section('R18.6'):
        # ------------------------------------------------------------------ R18.6
        g0 = ck.cfg(mt.fid, 'M0')
        cont = nodes_where(g0, lambda n: isinstance(n.ast, ast.Assign) and norm(n.ast.targets[0]) == 'repeating'
                           and not isinstance(n.ast.value, ast.Constant))
        ck.need(R6, len(cont) == 1 and rvar is not None, "Repeat._maintask: continuation assignment "
                "`repeating = ...` not recognised (unknown structure)")
        expr = cont[0].ast.value
        good = True
        cases = 0
        for cnt in (None, 0, 1, 3):
            for k in range(0, 5):
                env = {'self._count': cnt, rvar: k}
                try:
                    it = Interp(R6, env, 'ordering')
                    # `is None` tests are needed here: evaluate manually
                    val = _eval_cont(expr, env)
                except Exception:
                    good = False
                    break
                cases += 1
                ck.abstract_cases += 1
                want = cnt is None or k < cnt
                good = good and (bool(val) == want)
        ck.ob(R6, f"{mt.fid} :: continue iff count is None or k < count", good,
              f"evaluated on {cases} (count, k) pairs: exactly `count` repetitions are sent" if good
              else f"`{norm(expr)}` is not equivalent to `count is None or k < count` on the grid "
              f"count in {{None,0,1,3}} x k in 0..4", mt, cont[0].ast)
        # the test uses the number just sent: it follows the send in the loop body
        after = bool(msend) and cont[0].id in g0.reachable_from(g0.node_of(node_calls(msend[0], 'send')[0])[0]) \
            if msend else False
        whl = [n for n in g0.nodes if n.kind == 'test' and isinstance(n.stmt, ast.While)]
        used = nodes_where(g0, lambda n: n.kind == 'test' and norm(n.ast) in ('not repeating', 'repeating'))
        ck.ob(R6, f"{mt.fid} :: test position", bool(after) and bool(used),
              "the continuation is decided after the send and consulted at the top of the next "
              "iteration" if after and used else
              "the continuation test does not follow the send / is not consulted", mt, cont[0].ast)


def _key_removed(g, var, key):
    """Nodes after which mapping `var` certainly lacks `key`: `var.pop('key', default)` (two
    arguments: cannot raise), or `del var['key']` under the guard `'key' in var`."""
    res = []
    for n in nodes_where(g, lambda n: True, kinds=('stmt',)):
        for c in node_calls(n, 'pop'):
            if recv(c) == var and len(c.args) == 2 and is_const(c.args[0], key):
                res.append(n)
        a = n.ast
        if isinstance(a, ast.Delete) and any(norm(t) == f"{var}[{key!r}]" for t in a.targets) \
                and g.has_guard(n, f"{key!r} in {var}", True):
            res.append(n)
    # the outcome of a membership test that says "absent" is as good as a removal
    from sa.cfg import decompose, canon_fact
    want = canon_fact(ast.parse(f"{key!r} in {var}", mode='eval').body, False)
    for n in g.nodes:
        if n.kind == 'branch' and any(canon_fact(e, p) == want for e, p in decompose(n.test.ast, n.polarity)):
            res.append(n)
    return res


def _key_may_be_added(n, var, key):
    """Node n may (re-)insert `key` into mapping `var` (or re-bind var)."""
    a = n.ast
    if a is None or n.kind not in ('stmt', 'for', 'with'):
        return False
    for x in ast.walk(a):
        if isinstance(x, (ast.Assign, ast.AugAssign, ast.AnnAssign)):
            tgts = x.targets if isinstance(x, ast.Assign) else [x.target]
            for t in tgts:
                for e in ast.walk(t):
                    if isinstance(e, ast.Name) and e.id == var and not isinstance(t, ast.Subscript):
                        return True         # re-binding
                    if isinstance(e, ast.Subscript) and norm(e.value) == var and \
                            not (isinstance(e.slice, ast.Constant) and e.slice.value != key):
                        return True
        if isinstance(x, ast.Call) and recv(x) == var and call_name(x) in ('update', 'setdefault', '__setitem__'):
            if call_name(x) == 'setdefault' and x.args and isinstance(x.args[0], ast.Constant) \
                    and x.args[0].value != key:
                continue
            return True
    return False


def _r18_7(ck, R7, rp, ev, mt):
    """A mapping spread next to an explicit keyword raises TypeError when the mapping holds that
    key.  Event data is application/upstream controlled (another Repeat adds `repeat`), hence the
    key must be provably absent at each such call."""
    g = ck.cfg(ev.fid, 'M0')
    dpar = ev.node.args.args[2].arg

    def spread_sites(cfg):
        out = []
        for n in nodes_where(cfg, lambda n: True):
            for c in node_calls(n):
                sp = [norm(k.value) for k in c.keywords if k.arg is None]
                ex = [k.arg for k in c.keywords if k.arg is not None]
                if sp and ex:
                    out.append((n, c, sp, ex))
        return out

    def free_at(cfg, node, var, key):
        """key certainly absent from var at node: every entry->node path passes a removal and no
        later node on the way may add the key again."""
        rem = _key_removed(cfg, var, key)
        if not rem:
            return False, None
        p = cfg.path_avoiding(cfg.entry, [node], avoid=rem)
        if p is not None:
            return False, p
        adders = [n for n in cfg.nodes if _key_may_be_added(n, var, key) and n not in rem]
        for r in rem:
            for a in adders:
                if a.id in cfg.reachable_from(r) and node.id in cfg.reachable_from(a) and a is not node:
                    # an adder between a removal and the use: only harmless if another removal follows
                    q = cfg.path_avoiding(a, [node], avoid=rem)
                    if q is not None:
                        return False, q
        return True, None

    n_inst = 0
    for n, c, sp, ex in spread_sites(g):
        for var in sp:
            for key in ex:
                n_inst += 1
                ok, wit = (False, None)
                if var == dpar:
                    ok, wit = free_at(g, n, var, key)
                ck.ob(R7, f"{ev.fid} :: {norm(c.func)}(**{var}, {key}=)", ok,
                      f"`{key}` is removed from `{var}` on every path before it is spread next to "
                      f"the explicit keyword `{key}=`" if ok else
                      f"`{var}` may still contain the key `{key}` (e.g. the event comes from another "
                      f"Repeat block): `{norm1(c)}` then raises TypeError (multiple values for "
                      f"keyword argument) and the simulation is aborted", ev, n.ast,
                      witness=path_witness(g, wit))
    # queued data: every put_nowait into the block's queue passes collision-free data
    gm = ck.cfg(mt.fid, 'M0')
    msites = spread_sites(gm)
    keys = sorted({k for _, _, _, ex in msites for k in ex})
    puts = []
    for f in rp.methods.values():
        gf = ck.cfg(f.fid, 'M0')
        for n in nodes_where(gf, lambda n: True):
            for c in node_calls(n):
                if call_name(c) in ('put_nowait', 'put') and recv(c) == 'self._queue':
                    puts.append((f, gf, n, c))
    okq = bool(puts)
    witq = None
    for f, gf, n, c in puts:
        arg = norm(c.args[0]) if c.args else None
        for key in keys:
            if f.fid != ev.fid or arg != dpar:
                okq = False
                continue
            ok1, w1 = free_at(gf, n, arg, key)
            if not ok1:
                okq, witq = False, (gf, w1)
    ck.ob(R7, f"{RP} :: queued data free of {keys}", okq,
          f"all {len(puts)} enqueue site(s) put data from which {keys} was removed" if okq else
          f"data may be queued with one of the keys {keys} still present; the main task spreads it "
          f"next to the same explicit keyword", ev, puts[0][2].ast if puts else ev.node,
          witness=path_witness(witq[0], witq[1]) if witq and witq[1] else None)
    rd = ck.rdefs(mt.fid, 'M1')
    g1 = ck.cfg(mt.fid, 'M1')
    for n, c, sp, ex in msites:
        for var in sp:
            n1 = g1.node_of(c)
            defs = rd.defs_at(n1[0], var) if n1 else []
            okd = bool(defs) and all(
                isinstance(d.ast, ast.Assign) and any(
                    isinstance(a, ast.Await) and 'self._queue.get()' in norm(a.value)
                    for a in walk_shallow(d.ast)) for d in defs)
            n_inst += 1
            ck.ob(R7, f"{mt.fid} :: {norm(c.func)}(**{var}, {','.join(ex)}=)", okd and okq,
                  f"`{var}` always comes from the block's queue, whose items are free of {ex}"
                  if okd and okq else
                  f"`{var}` spread next to {ex} is not provably free of that key", mt, n.ast)
    ck.need(R7, n_inst >= 2, f"expected the two spread-and-keyword send sites of Repeat, found {n_inst}")


def _eval_cont(e, env):
    """Tiny evaluator for the continuation expression: names bound in env, `is None`, `<`-family
    comparisons, and/or/not."""
    t = norm(e)
    if t in env:
        return env[t]
    if isinstance(e, ast.Constant):
        return e.value
    if isinstance(e, ast.BoolOp):
        if isinstance(e.op, ast.And):
            v = True
            for x in e.values:
                v = _eval_cont(x, env)
                if not v:
                    return v
            return v
        v = False
        for x in e.values:
            v = _eval_cont(x, env)
            if v:
                return v
        return v
    if isinstance(e, ast.UnaryOp) and isinstance(e.op, ast.Not):
        return not _eval_cont(e.operand, env)
    if isinstance(e, ast.Compare) and len(e.ops) == 1:
        l, r = _eval_cont(e.left, env), _eval_cont(e.comparators[0], env)
        op = e.ops[0]
        if isinstance(op, ast.Is):
            return l is r
        if isinstance(op, ast.IsNot):
            return l is not r
        return {ast.Lt: lambda: l < r, ast.LtE: lambda: l <= r, ast.Gt: lambda: l > r,
                ast.GtE: lambda: l >= r, ast.Eq: lambda: l == r, ast.NotEq: lambda: l != r}[type(op)]()
    raise ValueError(f"outside the fragment: {t}")
