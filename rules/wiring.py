"""Wiring rules of Circuit._finalize (shared by C01 R01.8 and C15 R15.2)."""
from __future__ import annotations

import ast

from sa.loader import recv, norm, norm1, walk_shallow, own_nodes, call_name
from sa.rulekit import nodes_where, node_calls, own

CONN_MUTATORS = ('add', 'update', 'discard', 'remove', 'clear', 'pop', 'difference_update',
                 'intersection_update', 'symmetric_difference_update')


def wiring_rules(ck, R8):
    prog = ck.prog
    fz = prog.func('simulator:Circuit._finalize')
    gf = ck.cfg(fz.fid, 'M0')
    ic = nodes_where(gf, lambda n: any(call_name(c) == 'add' and recv(c).endswith('.iconnections')
                                       for c in node_calls(n)))
    oc = nodes_where(gf, lambda n: any(call_name(c) == 'add' and recv(c).endswith('.oconnections')
                                       for c in node_calls(n)))
    ok = len(ic) == 1 and len(oc) == 1
    if ok:
        i_c = node_calls(ic[0], 'add')[0]
        o_c = node_calls(oc[0], 'add')[0]
        x = recv(i_c)[:-len('.iconnections')]      # blk
        y = norm(i_c.args[0])                                  # inp
        o_recv = recv(o_c)[:-len('.oconnections')]
        ok = norm(o_c.args[0]) == x and o_recv in (y, f"self._blocks[{y}.name]") and \
            gf.guard_texts(ic[0]) == gf.guard_texts(oc[0]) and \
            gf.has_guard(ic[0], f'isinstance({y}, block.Const)', False)
        # same basic block: each is reached iff the other is
        first, second = (ic[0], oc[0]) if gf.dominates(ic[0], oc[0]) else (oc[0], ic[0])
        ok = ok and gf.dominates(first, second) and \
            gf.path_avoiding(first, [gf.exit] + [n for n in gf.nodes if n.kind == 'for'],
                             avoid=[second], start_successors_only=True) is None
    ck.ob(R8, f"{fz.fid} :: iconnections/oconnections pair", ok,
          "B.iconnections.add(A) and A.oconnections.add(B) are executed together for every "
          "non-Const input" if ok else
          "the two connection sets are not updated as a pair (A feeds B must imply both "
          "B in A.oconnections and A in B.iconnections)", fz, ic[0].ast if ic else fz.node)
    # iteration over all collected inputs
    if ic:
        loops = [n for n in gf.nodes if n.kind == 'for' and gf.dominates(n, ic[0])]
        inner = max(loops, key=lambda n: n.id) if loops else None
        coll = norm(inner.ast.iter) if inner is not None else None
        ext = nodes_where(gf, lambda n: any(call_name(c) in ('extend', 'append') and
                                            recv(c) == coll for c in node_calls(n)))
        tup_true = [n for n in ext if any('tuple' in t and p for t, p in gf.guard_texts(n))]
        tup_false = [n for n in ext if any('tuple' in t and not p for t, p in gf.guard_texts(n))]
        wb = nodes_where(gf, lambda n: isinstance(n.ast, ast.Assign) and
                         isinstance(n.ast.targets[0], ast.Subscript) and
                         norm(n.ast.targets[0].value).endswith('.inputs'))
        ok = len(tup_true) == 1 and len(tup_false) == 1 and len(wb) == 2
        if ok:
            for e in (tup_true[0], tup_false[0]):
                c = [c for c in node_calls(e) if call_name(c) in ('extend', 'append')][0]
                same_guard = [w for w in wb if gf.guard_texts(w) == gf.guard_texts(e)]
                ok = ok and len(same_guard) == 1 and norm(same_guard[0].ast.value) == norm(c.args[0])
                # the collected value is the validated one
                vals2 = ck.rdefs(fz.fid, 'M0').value_exprs(e, norm(c.args[0]))
                ok = ok and bool(vals2) and all(not isinstance(x2, str) and 'validate_output' in norm(x2)
                                               for x2 in vals2)
        ck.ob(R8, f"{fz.fid} :: single and group branch agree", ok,
              "both input shapes are resolved, collected for wiring and written back to "
              "blk.inputs" if ok else
              "the group branch and the single-input branch do not perform the same three steps "
              "(resolve, collect, write back)", fz, ext[0].ast if ext else fz.node)
        # the wiring loop runs for every processed block: it is inside the per-block loop
        blk_loops = [n for n in gf.nodes if n.kind == 'for' and 'getblocks' in norm(n.ast.iter)]
        ok = bool(blk_loops) and gf.dominates(blk_loops[0], ic[0]) and \
            'list(' in norm(blk_loops[0].ast.iter)
        ck.ob(R8, f"{fz.fid} :: per-block wiring over a copy", ok,
              "every block of the pass is wired; the pass iterates over a copy (new inverter "
              "blocks may be created)" if ok else
              "the wiring is not performed for each processed block over a stable copy", fz,
              blk_loops[0].ast if blk_loops else fz.node)
        # ... and for EVERY block of the pass: no iteration of the per-block loop goes round
        # without reaching the wiring loop (a `continue` for some block type leaves inverters that
        # are created during the last pass unwired for good)
        if blk_loops and inner is not None:
            body = [gf.nodes[v] for v, lab in gf.succ[blk_loops[0].id] if lab == 'iter']
            wit = gf.path_avoiding(body[0], [blk_loops[0]], avoid=[inner]) if body else [blk_loops[0]]
            ck.ob(R8, f"{fz.fid} :: no block of a pass is skipped", wit is None,
                  "every iteration of the per-block loop reaches the wiring loop" if wit is None else
                  "an iteration of the per-block loop can go round without wiring the block: blocks "
                  "skipped in one pass and created only during the last one are never wired", fz,
                  blk_loops[0].ast, witness=__import__('sa.report', fromlist=['path_witness']).path_witness(gf, wit))
        passes = [n for n in gf.nodes if n.kind == 'for' and isinstance(n.ast.iter, ast.Tuple)]
        ok = len(passes) == 1 and [norm(e) for e in passes[0].ast.iter.elts] == ['block.CBlock', 'cblocks.Not']
        ck.ob(R8, f"{fz.fid} :: second pass for new inverters", ok,
              "a second pass processes the inverter blocks created by the first" if ok else
              "inverter blocks created during the first pass are not processed", fz,
              passes[0].ast if passes else fz.node)
    # who mutates connection sets
    n_mut = 0
    for f2 in prog.pkg_funcs(include_demo=True):
        for c in [x for x in own_nodes(f2.node) if isinstance(x, ast.Call)]:
            if isinstance(c.func, ast.Attribute) and c.func.attr in CONN_MUTATORS and \
                    isinstance(c.func.value, ast.Attribute) and \
                    c.func.value.attr in ('oconnections', 'iconnections'):
                n_mut += 1
                ok = f2.fid == fz.fid
                ck.ob(R8, f"{f2.fid} :: {norm(c.func)}", ok,
                      "connection sets are filled by _finalize" if ok else
                      "connection data is modified outside Circuit._finalize", f2, c)
    own(ck, R8, 'oconnections', {'block:Block.__init__': 'fresh empty set'})
    own(ck, R8, 'iconnections', {'block:CBlock.__init__': 'fresh empty set'})

