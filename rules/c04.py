"""C04 -- A timed state yields its timed event exactly once, on time, unless left earlier."""
from __future__ import annotations

import ast

from sa.loader import recv, norm, norm1, walk_shallow, own_nodes, call_name, subscript_writes
from sa.tables import fold, Unfoldable
from sa.rulekit import (nodes_where, node_calls, node_roots, nodes_calling, return_nodes, own,
                        nodes_writing_attr, must_pass, is_const, written_value, expr_is, kw,
                        effect_nodes, effect_free_to, superchain, call_sites, check_must_pass)
from sa.report import path_witness

FSM = 'fsm:FSM'

UNDECIDED = [
    "that the timed event fires *after the effective duration* (wall / loop time) and all "
    "interleavings of external events with expirations on a clock -- timing; NOT decided",
    "the behaviour of Timer (bistable/monostable/astable) and InputExp as such: their tables are "
    "validated by _build_tables at import and their cond_*/calc_output are value level; decided "
    "only: table agreement of timed events with defined transitions (R04.9)",
]


def run(ck):
    ck.explanation = (
        "FSM timer (edzed/fsm.py): one owned handle -- _active_timer has exactly four writers and "
        "the only call_later of the package stores into it; _stop_timer cancels and forgets; "
        "leaving a state stops the timer before the state changes (typestate, shared with C03); "
        "_set_timer is called from _start_timer and _restore_state only, never together with an "
        "immediate delivery; FSM.stop cancels; the duration case split None / INF / <=0 / positive "
        "is classified by branch effects; per-instance durations are copy-on-write; the callback "
        "scheduled by the timer forgets the fired handle before delivering the event through "
        "event().")
    ck.undecided = UNDECIDED
    prog = ck.prog
    fsm = prog.cls(FSM)
    m = fsm.methods

    R1 = ck.rule('R04.1', "one owned handle: _active_timer is written by __init__, _set_timer, "
                 "_stop_timer and the expiry callback only; the only call_later/call_at of the "
                 "package is in _set_timer and its handle is stored; no fire-and-forget timers",
                 'M0', 6)
    R2 = ck.rule('R04.2', "_stop_timer cancels a live handle and forgets it on every path", 'M0', 2)
    R3 = ck.rule('R04.3', "leaving cancels: on every accepted path of an initialised FSM the "
                 "timer is stopped before the state is written and no timer is started before "
                 "that", 'M0', 2)
    R4 = ck.rule('R04.4', "at most one pending: _set_timer is called by _start_timer and "
                 "_restore_state only; _start_timer never both delivers immediately and sets a "
                 "timer; _restore_state sets the timer before it installs the state", 'M0', 3)
    R5 = ck.rule('R04.5', "FSM.stop() cancels the timer on every path and continues the stop "
                 "chain", 'M0', 2)
    R6 = ck.rule('R04.6', "duration case split: none at all -> error; INF_TIME -> nothing; <= 0 "
                 "-> immediate event, no timer; otherwise timer; the event's 'duration' item "
                 "overrides the instance's t_STATE which overrides the class default "
                 "(copy-on-write)", 'M0', 8)
    R8 = ck.rule('R04.8', "a fired handle is forgotten: the callable given to call_later clears "
                 "_active_timer on all paths before delivering the timed event through event() "
                 "(or every reader compares when() with the loop clock)", 'M0', 2)
    R9 = ck.rule('R04.9', "Timer / InputExp tables: every timed event of a timed state is a Goto "
                 "or has a transition defined from that state", 'tables', 2)

    with ck.section('R04.1'):
        st, sp, stt, init = m.get('_set_timer'), m.get('_stop_timer'), m.get('_start_timer'), m.get('__init__')
        ck.need(R1, st and sp and stt and init, "FSM timer methods not found")

        # ------------------------------------------------------------------ R04.1 / R04.8
        g = ck.cfg(st.fid, 'M0')
        cl = nodes_where(g, lambda n: any(call_name(c) in ('call_later', 'call_at') for c in node_calls(n)))
        ck.need(R1, len(cl) == 1, "_set_timer: call_later site not recognised")
        stored = isinstance(cl[0].ast, ast.Assign) and norm(cl[0].ast.targets[0]) == 'self._active_timer'
        ck.ob(R1, f"{st.fid} :: handle stored", stored,
              "self._active_timer = <loop>.call_later(...)" if stored else
              "the TimerHandle is not stored (it could never be cancelled)", st, cl[0].ast)
        call = [c for c in node_calls(cl[0]) if call_name(c) in ('call_later', 'call_at')][0]
        cb = call.args[1] if len(call.args) >= 2 else None
        cbname = cb.attr if isinstance(cb, ast.Attribute) and norm(cb.value) == 'self' else None
        dur_ok = norm(call.args[0]) == st.node.args.args[1].arg and \
            [norm(a) for a in call.args[2:]] == [st.node.args.args[2].arg]
        ck.ob(R1, f"{st.fid} :: scheduled with the given duration and event", dur_ok,
              "call_later(duration, <callback>, timed_event)" if dur_ok else
              "the timer is not scheduled with _set_timer's duration / timed event", st, cl[0].ast)
        writers = {init.fid: 'None', st.fid: 'the handle', sp.fid: 'None after cancelling'}
        expiry = None
        if cbname and cbname != 'event':
            expiry = prog.resolve_method(fsm, cbname)
            if expiry is not None:
                writers[expiry.fid] = 'None when the timer has fired'
        own(ck, R1, '_active_timer', writers)
        n_sched = 0
        for fi in prog.pkg_funcs(include_demo=False):     # demo.py: interactive CLI tool, out of scope
            for c in [x for x in own_nodes(fi.node) if isinstance(x, ast.Call)]:
                if call_name(c) in ('call_later', 'call_at'):
                    n_sched += 1
                    ok = fi.fid == st.fid
                    ck.ob(R1, f"{fi.fid} :: {call_name(c)}", ok,
                          "the FSM timer" if ok else
                          "a timer is scheduled outside FSM._set_timer: nothing cancels it when the "
                          "simulation stops", fi, c)
                if call_name(c) in ('call_soon', 'call_soon_threadsafe') or \
                        (isinstance(c.func, ast.Name) and c.func.id == 'call_soon'):
                    ok = fi.fid == 'simulator:_TerminatingSignal._handler'
                    ck.ob(R1, f"{fi.fid} :: {norm1(c)}", ok,
                          "signal hand-over to abort()" if ok else
                          "an undocumented call_soon: work scheduled outside the simulator's control",
                          fi, c)
        # R04.8
        if cbname == 'event':
            gs = prog.resolve_method(fsm, 'get_state')
            reads_when = any(isinstance(x, ast.Call) and call_name(x) == 'time' for x in own_nodes(gs.node)) \
                and any(isinstance(x, ast.Compare) and 'when()' in norm(x) for x in own_nodes(gs.node))
            ck.ob(R8, f"{st.fid} :: fired handle forgotten", reads_when,
                  "get_state() compares when() with the loop clock" if reads_when else
                  "the timer calls self.event directly and nothing clears _active_timer when it "
                  "fires: after a rejected timed event get_state() reports a past expiry as pending",
                  st, cl[0].ast)
        else:
            ck.need(R8, expiry is not None, f"timer callback self.{cbname} not found")
            ge = ck.cfg(expiry.fid, 'M0')
            clears = [w for w in nodes_writing_attr(ge, '_active_timer')
                      if is_const(written_value(w, '_active_timer'), None)]
            deliver = nodes_where(ge, lambda n: any(call_name(c) == 'event' and recv(c) == 'self'
                                                    for c in node_calls(n)))
            ok = bool(clears) and bool(deliver) and \
                all(ge.path_avoiding(ge.entry, [d], avoid=clears) is None for d in deliver) and \
                must_pass(ge, ge.entry, deliver, [ge.exit]) is None
            ck.ob(R8, f"{st.fid} :: fired handle forgotten", ok,
                  f"{expiry.fid} clears _active_timer, then delivers the event through self.event()"
                  if ok else f"{expiry.fid} does not clear the handle before (or does not) deliver "
                  "the timed event through self.event()", expiry, expiry.node)
            if deliver:
                c = [c for c in node_calls(deliver[0]) if call_name(c) == 'event'][0]
                ok = [norm(a) for a in c.args] == [expiry.node.args.args[1].arg] and not c.keywords
                ck.ob(R8, f"{expiry.fid} :: delivers the timed event", ok,
                      "self.event(timed_event): the normal guarded entry point" if ok else
                      "the expiry callback does not deliver exactly the scheduled timed event",
                      expiry, deliver[0].ast)

    with ck.section('R04.2'):
        # ------------------------------------------------------------------ R04.2
        g = ck.cfg(sp.fid, 'M0')
        cancels = nodes_calling(g, 'cancel')
        forgets = [w for w in nodes_writing_attr(g, '_active_timer')
                   if is_const(written_value(w, '_active_timer'), None)]
        live = [n for n in g.nodes if n.kind == 'branch' and n.polarity and
                'is not None' in norm(n.test.ast) and '_active_timer' in norm(n.test.ast)]
        ck.need(R2, live, "_stop_timer: the 'timer exists' test was not recognised")
        p = must_pass(g, live[0], forgets, [g.exit])
        ck.ob(R2, f"{sp.fid} :: handle forgotten", p is None and bool(forgets),
              "_active_timer = None on every path with a live handle" if p is None and forgets else
              "a live handle can survive _stop_timer", sp, sp.node, witness=path_witness(g, p))
        skip = [n for n in g.nodes if n.kind == 'branch' and 'cancelled()' in norm(n.test.ast) and
                ((n.polarity and 'not' not in norm(n.test.ast)) or
                 (not n.polarity and norm(n.test.ast).startswith('not ')))]
        p = g.path_avoiding(live[0], [g.exit], avoid=cancels + skip)
        ck.ob(R2, f"{sp.fid} :: cancel", p is None and bool(cancels),
              "a handle that is not yet cancelled is cancelled" if p is None and cancels else
              "a pending timer is forgotten without being cancelled (a stale timed event would fire)",
              sp, cancels[0].ast if cancels else sp.node, witness=path_witness(g, p))

    with ck.section('R04.0'):
        from rules.fsmrun import fsm_run_obligations
        fsm_run_obligations(ck, R3, ('timer',))

    with ck.section('R04.3', backed_by='FSM._ctx_event', prefix='fsm:FSM._ctx_event'):
        # ------------------------------------------------------------------ R04.3
        ctx = m['_ctx_event']
        g = ck.cfg(ctx.fid, 'M0')
        acq = [w for w in nodes_writing_attr(g, '_fsm_event_active')
               if is_const(written_value(w, '_fsm_event_active'), True)]
        ck.need(R3, acq, "_ctx_event: acquire not recognised")
        state_w = nodes_writing_attr(g, '_state')
        stops = nodes_calling(g, '_stop_timer')
        starts = nodes_calling(g, '_start_timer')
        init_branch = [n for n in g.nodes if n.kind == 'branch' and n.polarity and
                       norm(n.test.ast) == 'self.is_initialized()' and g.dominates(acq[0], n)]
        ck.need(R3, init_branch, "_ctx_event: the is_initialized() branch was not recognised")
        p = g.path_avoiding(init_branch[0], state_w, avoid=stops)
        ck.ob(R3, f"{ctx.fid} :: stop before the state changes", p is None and bool(stops),
              "an initialised FSM stops its timer before any state write" if p is None and stops else
              "the state can change while the old state's timer keeps running (a stale timed event "
              "would be delivered)", ctx, stops[0].ast if stops else ctx.node, witness=path_witness(g, p))
        p = g.path_avoiding(acq[0], starts, avoid=state_w)
        ck.ob(R3, f"{ctx.fid} :: start only after the state write", p is None,
              "a timer is started only for the newly entered state" if p is None else
              "a timer can be started before the new state is entered", ctx,
              starts[0].ast if starts else ctx.node, witness=path_witness(g, p))

    with ck.section('R04.4'):
        # ------------------------------------------------------------------ R04.4
        callers = sorted({f.fid for f, c in call_sites(ck, '_set_timer')})
        ok = callers == sorted([stt.fid, m['_restore_state'].fid])
        ck.ob(R4, "who calls _set_timer", ok, f"_set_timer is called by {callers}", st, st.node)
        g = ck.cfg(stt.fid, 'M0')
        imm = nodes_where(g, lambda n: any(call_name(c) == 'event' and recv(c) == 'self'
                                           for c in node_calls(n)))
        sets = nodes_calling(g, '_set_timer')
        both = None
        for a in imm:
            for b in sets:
                both = both or g.path_avoiding(a, [b]) or g.path_avoiding(b, [a])
        ck.ob(R4, f"{stt.fid} :: immediate delivery xor timer", both is None and bool(imm) and bool(sets),
              "no path both delivers the timed event at once and sets a timer" if both is None else
              "a path delivers the timed event immediately AND sets a timer (the event would fire "
              "twice)", stt, stt.node, witness=path_witness(g, both))
        rs = m['_restore_state']
        g = ck.cfg(rs.fid, 'M0')
        sets = nodes_calling(g, '_set_timer')
        sw = nodes_writing_attr(g, '_state')
        ok = bool(sets) and bool(sw) and all(s.id not in g.reachable_from(w) for s in sets for w in sw)
        ck.ob(R4, f"{rs.fid} :: timer before state", ok,
              "the restored timer is set before the state is installed (the block is uninitialised, "
              "so no earlier timer exists)" if ok else
              "_restore_state sets a timer after installing the state", rs, sets[0].ast if sets else rs.node)

    with ck.section('R04.5'):
        # ------------------------------------------------------------------ R04.5
        stop = m.get('stop')
        ck.need(R5, stop is not None, "FSM.stop not found")
        g = ck.cfg(stop.fid, 'M0')
        check_must_pass(ck, R5, f"{stop.fid} :: cancels the timer", stop, g, g.entry,
                        nodes_calling(g, '_stop_timer'), [g.exit], "FSM.stop() stops the timer")
        superchain(ck, R5, 'stop', classes={FSM})

    with ck.section('R04.6'):
        # ------------------------------------------------------------------ R04.6
        g = ck.cfg(stt.fid, 'M0')
        dparam, eparam = stt.node.args.args[1].arg, stt.node.args.args[2].arg
        raises = nodes_where(g, lambda n: isinstance(n.ast, ast.Raise) and n.kinds == {'N:EdzedCircuitError'},
                             kinds=('stmt',))
        ok = bool(raises) and all(g.has_guard(r, f'{dparam} is None', True) for r in raises)
        fallback = nodes_where(g, lambda n: isinstance(n.ast, ast.Assign) and
                               norm(n.ast.value) in ('self._duration.get(self._state)',
                                                     'self._duration[self._state]'))
        ok = ok and bool(fallback) and all(g.dominates(fallback[0], r) for r in raises)
        ck.ob(R6, f"{stt.fid} :: no duration at all", ok,
              "neither an event duration nor a configured one: EdzedCircuitError" if ok else
              "a timed state without any duration does not raise", stt, stt.node)
        conv = nodes_where(g, lambda n: isinstance(n.ast, ast.Assign) and
                           norm(n.ast.value) == f'utils.time_period({dparam})' and
                           g.has_guard(n, f'{dparam} is None', False))
        ok = bool(conv) and bool(fallback) and all(g.has_guard(f, f'{dparam} is None', True) for f in fallback)
        ck.ob(R6, f"{stt.fid} :: per-event value wins", ok,
              "a given duration is used (time_period); the configured one only when none is given"
              if ok else "the event's duration does not take precedence over the configured one",
              stt, conv[0].ast if conv else stt.node)
        inf = [r for r in return_nodes(g) if g.has_guard(r, f'{dparam} == INF_TIME', True)]
        forb = effect_nodes(g, calls=('event', '_set_timer', 'call_later'))
        if inf:
            effect_free_to(ck, R6, f"{stt.fid} :: INF_TIME", stt, g, inf, forb,
                           "an infinite duration neither fires nor sets a timer")
        else:
            ck.ob(R6, f"{stt.fid} :: INF_TIME", False, "no `return` under `duration == INF_TIME`", stt, stt.node)
        imm = nodes_where(g, lambda n: any(call_name(c) == 'event' and recv(c) == 'self'
                                           for c in node_calls(n)))
        okz = bool(imm)
        for i in imm:
            le = g.has_guard(i, f'{dparam} <= 0.0', True) or g.has_guard(i, f'{dparam} <= 0', True) or \
                g.has_guard(i, f'{dparam} > 0.0', False) or g.has_guard(i, f'{dparam} > 0', False)
            c = [c for c in node_calls(i) if call_name(c) == 'event'][0]
            okz = okz and le and [norm(a) for a in c.args] == [eparam]
        ck.ob(R6, f"{stt.fid} :: zero or negative", okz,
              "duration <= 0 (equality included) delivers the timed event immediately (chained)"
              if okz else "a zero duration is not delivered immediately (comparator must include "
              "equality) or delivers a different event", stt, imm[0].ast if imm else stt.node)
        sets = nodes_calling(g, '_set_timer')
        okp = len(sets) == 1
        if okp:
            c = node_calls(sets[0], '_set_timer')[0]
            okp = [norm(a) for a in c.args] == [dparam, eparam] and \
                (g.has_guard(sets[0], f'{dparam} <= 0.0', False) or g.has_guard(sets[0], f'{dparam} > 0.0', True)
                 or g.has_guard(sets[0], f'{dparam} <= 0', False)) and \
                g.has_guard(sets[0], f'{dparam} == INF_TIME', False)
        ck.ob(R6, f"{stt.fid} :: positive finite", okp,
              "a positive finite duration sets the timer for that duration and event" if okp else
              "the timer is not set exactly for positive finite durations", stt,
              sets[0].ast if sets else stt.node)
        # copy-on-write of the class defaults
        gi = ck.cfg(init.fid, 'M0')
        cp = nodes_where(gi, lambda n: isinstance(n.ast, ast.Assign) and norm(n.ast.targets[0]) == 'self._duration'
                         and norm(n.ast.value) == 'self._ct_default_duration.copy()')
        sh = nodes_where(gi, lambda n: isinstance(n.ast, ast.Assign) and norm(n.ast.targets[0]) == 'self._duration'
                         and norm(n.ast.value) == 'self._ct_default_duration')
        sub = nodes_where(gi, lambda n: n.kind == 'stmt' and any(norm(t.value) == 'self._duration'
                                                                for t, k, s in subscript_writes(n.ast)))
        ok = len(cp) == 1 and bool(sub) and all(gi.dominates(cp[0], s) for s in sub) and \
            all(s.id not in gi.reachable_from(x) for s in sub for x in sh)
        ck.ob(R6, f"{init.fid} :: copy on write", ok,
              "t_STATE overrides are written into a private copy of the class defaults" if ok else
              "an instance's t_STATE override is written into the shared class table (it would "
              "change all instances)", init, sub[0].ast if sub else init.node)
        ok = bool(sub) and all(gi.has_guard(s, 'duration is not None', True) for s in sub)
        ck.ob(R6, f"{init.fid} :: None keeps the default", ok,
              "t_STATE=None leaves the class default in place" if ok else
              "a None override replaces the default duration", init, sub[0].ast if sub else init.node)
        for n_, f_ in own_nodes_writes(prog, '_ct_default_duration'):
            ok = f_.fid == 'fsm:FSM._build_tables'
            ck.ob(R6, f"{f_.fid} :: writes _ct_default_duration", ok,
                  "class defaults are built by _build_tables" if ok else
                  "the class default durations are modified at run time", f_, n_)
        # the duration handed to _start_timer is the current event's item
        g = ck.cfg(ctx.fid, 'M0')
        for s in nodes_calling(g, '_start_timer'):
            c = node_calls(s, '_start_timer')[0]
            ok = [norm(a) for a in c.args] == ["data.get('duration')", 'timed_event']
            te = ck.rdefs(ctx.fid, 'MK').value_exprs(ck.cfg(ctx.fid, 'MK').node_of(c)[0], 'timed_event') \
                if ok else []
            ok = ok and bool(te) and all(not isinstance(v, str) and
                                         norm(v) in ('self._ct_timed_event[newstate]',
                                                     'self._ct_timed_event[self._state]') for v in te)
            ck.ob(R6, f"{ctx.fid} :: {norm1(s.ast)}", ok,
                  "the timer of the entered state gets the current event's 'duration' item and the "
                  "state's timed event" if ok else
                  "_start_timer is not called with the current event's duration and the entered "
                  "state's timed event", ctx, s.ast)

        _passed_through_and_stale(ck, prog, fsm)
        _derived_blocks(ck, prog)

    with ck.section('R04.9'):
        # ------------------------------------------------------------------ R04.9
        from sa.tables import fold as _fold
        for q in ('blocklib.fsms:Timer', 'blocklib.sblocks2:InputExp'):
            ci = prog.cls(q)
            mod = ci.module
            try:
                timers = _timers(prog, ci)
                events = _fold(prog, mod, prog.class_value(ci, 'EVENTS'))
            except Unfoldable as err:
                ck.need(R9, False, f"{q}: tables not foldable ({err})")
            problems = []
            for state, ev in timers.items():
                if ev is None:          # Goto
                    continue
                if not any(e[0] == ev and (e[1] is None or state in (e[1] if isinstance(e[1], (list, tuple))
                                                                   else str(e[1]).split('|')))
                           for e in events):
                    problems.append(f"timed event {ev!r} of state {state!r} has no transition from it")
                if any(e[0] == ev and e[2] == state and (e[1] is None) for e in events) and \
                        not any(e[0] == ev and e[2] != state for e in events):
                    problems.append(f"timed event {ev!r} keeps the FSM in {state!r}")
            ck.ob(R9, q, not problems, f"timers {timers} agree with the transitions" if not problems
                  else '; '.join(problems), None, f"{mod.path}:{ci.node.lineno}")


def _passed_through_and_stale(ck, prog, fsm):
    """R04.11 / R04.12"""
    from sa.cfg import canon_fact, decompose
    R11 = ck.rule('R04.11', "no timer for a state that is only passed through: in the transition loop "
                  "the timer of the new state is started only after the pending-chained-event slot "
                  "was found empty (a chained request of the entry action leaves the state at once; "
                  "a timer started for it would never be cancelled)", 'M0', 1)
    R12 = ck.rule('R04.12', "conditions, actions and calc_output of the library's FSM blocks decide on "
                  "the state, never on the block's output: the output is updated only at the end "
                  "of a transition chain, so a zero-length timed event is judged before the update",
                  'M0', 4)
    ctx = fsm.methods.get('_ctx_event')
    g = ck.cfg(ctx.fid, 'M0')
    enter = nodes_where(g, lambda n: any(call_name(c) == '_run_cb' and c.args and is_const(c.args[0], 'enter')
                                         for c in node_calls(n)))
    start = nodes_where(g, lambda n: any(call_name(c) == '_start_timer' for c in node_calls(n)))
    ck.need(R11, enter and start, "_ctx_event: entry action / _start_timer call not recognised")
    want = [canon_fact(ast.parse(t, mode='eval').body, pol) for t, pol in
            (('self._next_event', False), ('self._next_event is None', True),
             ('self._next_event is not None', False))]
    empty = [n for n in g.nodes if n.kind == 'branch' and any(
        canon_fact(e, p_) in want for e, p_ in decompose(n.test.ast, n.polarity))]
    wit = None
    for e in enter:
        for s_ in start:
            wit = wit or g.path_avoiding(e, [s_], avoid=empty, start_successors_only=True)
    ck.ob(R11, f"{ctx.fid} :: timer only for a state that is stayed in", wit is None and bool(empty),
          "between the entry action and _start_timer the chained-event slot is tested and found "
          "empty on every path" if wit is None and empty else
          "the timer of the new state can be started although the entry action has already "
          "requested a chained transition: the state is left at once and its timer stays pending "
          "(a stale timed event fires later; two timers for one FSM)", ctx, start[0].ast,
          witness=path_witness(g, wit))
    n = 0
    for ci in prog.subclasses(fsm, strict=True):
        if ci.module.name == 'demo' or '/' in ci.module.name:
            continue
        for name, fi in sorted(ci.methods.items()):
            if not (name.startswith(('cond_', 'enter_', 'exit_')) or name == 'calc_output'):
                continue
            n += 1
            bad = [x for x in own_nodes(fi.node) if isinstance(x, ast.Attribute) and
                   isinstance(x.ctx, ast.Load) and x.attr in ('_output', 'output') and norm(x.value) == 'self']
            ck.ob(R12, fi.fid, not bad,
                  "decides on the state / own data, not on the (possibly stale) output" if not bad else
                  f"`{norm(bad[0])}` is read in an FSM callback: during a transition chain (e.g. a "
                  f"zero-length timed event) the output still shows the previous state", fi,
                  bad[0] if bad else fi.node)
    ck.need(R12, n >= 4, f"only {n} FSM callbacks of library blocks found")


def _derived_blocks(ck, prog):
    """R04.10: Timer and InputExp as documented, on finite domains."""
    from sa.absval import Interp
    from sa.tables import fold
    R = ck.rule('R04.10', "derived blocks: Timer's start/stop conditions, output and t_period split; "
                "InputExp's tables, duration mapping and initial state", 'truthiness domain', 8)
    tm = prog.cls('blocklib.fsms:Timer')
    for cond, blocked_state in (('cond_start', 'on'), ('cond_stop', 'off')):
        fi = tm.methods.get(cond)
        ck.need(R, fi is not None, f"Timer.{cond} not found")
        for restartable in (False, True):
            for in_state in (False, True):
                env = {'self._restartable': restartable,
                       f"self._state != '{blocked_state}'": not in_state,
                       f"self._state == '{blocked_state}'": in_state}
                got = Interp(R, env, 'truthiness').run(fi.node.body)
                ck.abstract_cases += 1
                want = restartable or not in_state
                ck.ob(R, f"{fi.fid} :: restartable={restartable}, already {blocked_state}={in_state}",
                      bool(got) == want,
                      f"documented: the event is {'accepted' if want else 'ignored'}; code "
                      f"{'accepts' if got else 'ignores'}", fi, fi.node)
    co = tm.methods.get('calc_output')
    rets = [r for r in own_nodes(co.node) if isinstance(r, ast.Return)]
    ok = len(rets) == 1 and norm(rets[0].value) in ("self._state == 'on'", "'on' == self._state")
    ck.ob(R, co.fid, ok, "output is True exactly in state 'on'" if ok else
          f"Timer output is `{norm(rets[0].value) if rets else None}`", co, co.node)
    ini = tm.methods.get('__init__')
    half = [x for x in own_nodes(ini.node) if isinstance(x, ast.Assign) and len(x.targets) == 2 and
            {norm(t) for t in x.targets} == {"kwargs['t_on']", "kwargs['t_off']"}]
    ok = len(half) == 1 and norm(half[0].value) in ('period / 2', 'period / 2.0', '0.5 * period', 'period * 0.5')
    excl = any(isinstance(x, ast.Raise) for x in own_nodes(ini.node))
    ck.ob(R, f"{ini.fid} :: t_period", ok and excl,
          "t_period sets t_on = t_off = period / 2 and excludes t_on/t_off" if ok and excl else
          "t_period is not split into two equal halves (or may be combined with t_on/t_off)",
          ini, half[0] if half else ini.node)
    ie = prog.cls('blocklib.sblocks2:InputExp')
    mod = ie.module
    try:
        states = list(fold(prog, mod, prog.class_value(ie, 'STATES')))
        events = [tuple(e) for e in fold(prog, mod, prog.class_value(ie, 'EVENTS'))]
        timers = _timers(prog, ie)
    except Exception as err:
        ck.need(R, False, f"InputExp tables not foldable: {err}")
    tv = prog.class_value(ie, 'TIMERS')
    goto_ok = isinstance(tv, ast.Dict) and any(
        isinstance(v, (ast.Tuple, ast.List)) and isinstance(v.elts[1], ast.Call) and
        call_name(v.elts[1]) == 'Goto' and ast.literal_eval(v.elts[1].args[0]) == 'expired' and
        is_const(v.elts[0], None) for v in tv.values)
    ok = set(states) == {'expired', 'valid'} and events == [('put', None, 'valid')] and \
        list(timers) == ['valid'] and goto_ok
    ck.ob(R, f"{ie.qual} :: tables", ok,
          "put -> valid from any state; valid is timed (no class default) and expires with "
          "Goto('expired')" if ok else
          f"InputExp tables: STATES={states} EVENTS={events} TIMERS={timers}", None,
          f"{mod.path}:{ie.node.lineno}")
    ii = ie.methods.get('__init__')
    sup = [c for c in own_nodes(ii.node) if is_super_call_(c)]
    ok = len(sup) == 1
    if ok:
        kws = {k.arg: norm(k.value) for k in sup[0].keywords if k.arg}
        ok = kws.get('t_valid') == 'duration' and \
            kws.get('initdef', '').replace(' ', '') == "'valid'ifhas_init_valueelse'expired'"
        hv = [x for x in own_nodes(ii.node) if isinstance(x, ast.Assign) and norm(x.targets[0]) == 'has_init_value']
        ok = ok and len(hv) == 1 and norm(hv[0].value) in ('initdef is not block.UNDEF',)
    if not ok:
        # layout-independent decision: abstract run of the constructor with a recording parent
        try:
            from sa.minieval import MiniEval
            good = True
            a_ = ii.node.args
            for given in (False, True):
                rec = []
                sd = {}
                env = {'duration': 'DUR', 'expired': 'EXP', 'initdef': 'INIT' if given else 'UNDEF',
                       'block.UNDEF': 'UNDEF', 'UNDEF': 'UNDEF', 'self.sdata': sd,
                       'self._validate': lambda v: ('VALIDATED', v),
                       'super().__init__': lambda *aa, rec=rec, **kk: rec.append(kk)}
                if a_.vararg:
                    env[a_.vararg.arg] = ()
                if a_.kwarg:
                    env[a_.kwarg.arg] = {}
                res = MiniEval(R, env).run(ii.node.body)
                ck.abstract_cases += 1
                good = good and res[0] == 'return' and len(rec) == 1 and rec[0].get('t_valid') == 'DUR' and \
                    rec[0].get('initdef') == ('valid' if given else 'expired') and \
                    sd == ({'input': ('VALIDATED', 'INIT')} if given else {})
            ok = good
        except Exception:
            ok = False
    ck.ob(R, f"{ii.fid} :: duration and initial state", ok,
          "duration becomes t_valid; the FSM starts 'valid' iff an initial value is given" if ok
          else "InputExp does not map duration to t_valid / does not start in 'valid' exactly when "
          "an initial value is given", ii, ii.node)


def is_super_call_(c):
    from sa.loader import is_super_call
    return is_super_call(c, '__init__')


def own_nodes_writes(prog, attr):
    """(node, FuncInfo) for each subscript/attribute write on `<x>.attr[...]` / `<x>.attr`."""
    res = []
    for fi in prog.pkg_funcs():
        for x in own_nodes(fi.node):
            if isinstance(x, (ast.Assign, ast.AugAssign, ast.Delete)):
                for tgt, kind, stmt in subscript_writes(x):
                    if isinstance(tgt.value, ast.Attribute) and tgt.value.attr == attr:
                        res.append((stmt, fi))
                tg = x.targets if isinstance(x, (ast.Assign, ast.Delete)) else [x.target]
                for t in tg:
                    if isinstance(t, ast.Attribute) and t.attr == attr:
                        res.append((x, fi))
    return res


def _timers(prog, ci):
    """{state: timed event name or None for Goto} from the TIMERS literal."""
    v = prog.class_value(ci, 'TIMERS')
    out = {}
    if not isinstance(v, ast.Dict):
        raise Unfoldable("TIMERS is not a dict display")
    for k, val in zip(v.keys, v.values):
        state = ast.literal_eval(k)
        if not isinstance(val, (ast.Tuple, ast.List)) or len(val.elts) != 2:
            raise Unfoldable("TIMERS entry shape")
        ev = val.elts[1]
        if isinstance(ev, ast.Call) and call_name(ev) == 'Goto':
            out[state] = None
        else:
            out[state] = ast.literal_eval(ev)
    return out
