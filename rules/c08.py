"""C08 -- Every started block is stopped exactly once and nothing outlives the simulation."""
from __future__ import annotations

import ast

from sa.loader import recv, norm, norm1, walk_shallow, own_nodes, call_name, is_super_call, cname
from sa.cfg import handler_types, canon_fact, decompose
from sa.docs_api import directives, description
from sa.rulekit import (nodes_where, node_calls, node_roots, nodes_calling, return_nodes, own,
                        nodes_writing_attr, must_pass, is_const, written_value, expr_is, kw,
                        call_sites, handlers_in, handler_reraises, catches_broad, superchain,
                        check_must_pass)
from sa.report import path_witness

CIRC = 'simulator:Circuit'

UNDECIDED = [
    "the concrete content of asyncio.all_tasks() / pending handles after a run (run-time state)",
    "faults of the storage mapping during the final save (fault-model limit of M1)",
    "user coroutines that ignore cancellation; abandonment after stop_timeout is the documented "
    "bounded behaviour and outside the rules",
    "a second cancellation of the API coroutines while they are already unwinding (assumption A5)",
]

TASK_CREATORS = ('create_task', 'ensure_future', '_create_monitored_task')


def run(ck):
    ck.explanation = (
        "simulator.py / addons.py / sblocks*.py: on the CFG of run_forever under fault model M1 "
        "(awaits incl. cancellation, hook calls) every path from the start of the main try to an "
        "exit passes the clean-up `await _stop_sblocks(started_blocks)` unless nothing was "
        "started; a block is recorded as started immediately after its start() returned; the "
        "simulation task is cancelled at exactly one site, guarded by the empty error slot; "
        "_stop_sblocks partitions the blocks, isolates each stop() and stops the async group "
        "first; every task creation site of the package is on a frozen table and its ownership "
        "pattern (awaited / cancelled / handed to an owner on all exits) is verified; start/stop/"
        "stop_async overrides call super() exactly once; stop data is enqueued before the "
        "sentinel; the simulation cannot be restarted; documented control-event constructors "
        "exist.")
    ck.undecided = UNDECIDED
    prog = ck.prog
    circ = prog.cls(CIRC)
    rf = circ.methods['run_forever']

    R1 = ck.rule('R08.1', "started <=> start() returned: started_blocks.add(blk) is the immediate "
                 "successor of blk.start() and the set has no other mutation", 'M1', 2)
    R2 = ck.rule('R08.2', "clean-up is reached from everywhere: every path (M1) from the start of "
                 "the main try to an exit passes `await self._stop_sblocks(started_blocks)` or the "
                 "'nothing was started' branch", 'M1', 2)
    R3 = ck.rule('R08.3', "at most one cancellation is ever requested: self._simtask.cancel() has "
                 "one site (abort), behind the empty-slot test; run() cancels only supporting "
                 "tasks", 'M0', 3)
    R4 = ck.rule('R08.4', "exactly once, isolated, async first: _stop_sblocks partitions the "
                 "started blocks, calls stop() once per block inside a swallowing try, and "
                 "completes the async group (stop, yield, stop_async tasks, bounded wait) before "
                 "the sync group", 'M1', 6)
    R5 = ck.rule('R08.5', "task ownership on all exits: every task creation site is on the frozen "
                 "table and its result is awaited, cancelled or handed to an owner on every path",
                 'M1', 11)
    R7 = ck.rule('R08.7', "cooperative chains: every start/stop/stop_async override calls super() "
                 "exactly once; add-ons precede SBlock in every MRO; AddonMainTask.stop_async "
                 "cancels, awaits (absorbing the cancellation) and resets its task", 'M0', 16)
    R8 = ck.rule('R08.8', "stop_data last: OutputFunc.stop delivers stop_data before "
                 "super().stop(); OutputAsync.stop enqueues stop_data before the sentinel; the "
                 "mode tests in stop/stop_async are complementary", 'M0', 4)
    R9 = ck.rule('R08.9', "no restart: the 'already started' test dominates everything else in "
                 "run_forever; _simtask is written by __init__ and run_forever only", 'M0', 3)
    R10 = ck.rule('R08.10', "signal handler: installed in __enter__, restored in __exit__ on all "
                  "paths; the handler reaches the circuit only through call_soon_threadsafe(abort)",
                  'M0', 3)
    R11 = ck.rule('R08.11', "documented control-event constructors exist: every Event.NAME() "
                  "documented as a shortcut for Event('_ctrl', 'X') is a classmethod returning "
                  "cls('_ctrl', 'X') and ControlBlock handles 'X'", 'docs', 2)

    R12 = ck.rule('R08.12', "a circuit that has ended can no longer be modified: abstract run of "
                  "Circuit.check_not_finalized - it raises EdzedInvalidState whenever an error (also a normal "
                  "stop) is recorded or the circuit is finalized, and only then; addblock, connect and "
                  "set_persistent_data pass through it", 'M0', 2)
    with ck.section('R08.12'):
        from sa.minieval import MiniEval as _ME12
        cnf = prog.func('simulator:Circuit.check_not_finalized')
        bad12 = []
        for err12 in (None, 'ERROR'):
            for fin12 in (False, True):
                out12 = _ME12(R12, {'self._error': err12, 'self._finalized': fin12, 'self.error': err12}).run(cnf.node.body)
                ck.abstract_cases += 1
                want12 = err12 is not None or fin12
                got12 = out12[0] == 'raise' and 'EdzedInvalidState' in str(out12[1])
                if got12 != want12 or (not want12 and out12 != ('return', None)):
                    bad12.append(f"recorded error {err12!r}, finalized {fin12}: ends with {out12}")
        ck.ob(R12, f"{cnf.fid} :: abstract run", not bad12,
              "raises EdzedInvalidState iff the simulation has ended or the circuit is finalized (4 cases)"
              if not bad12 else '; '.join(bad12) + ": blocks can be added, inputs connected or the storage replaced "
              "after the simulation has ended", cnf, cnf.node)
        gated12 = []
        for fid12 in ('simulator:Circuit.addblock', 'simulator:Circuit.set_persistent_data', 'block:CBlock.connect'):
            f12 = prog.func(fid12)
            g12 = ck.cfg(f12.fid, 'M0')
            chk12 = nodes_calling(g12, 'check_not_finalized')
            okk = bool(chk12) and all(g12.dominates(chk12[0], r_) for r_ in return_nodes(g12) + [g12.exit]
                                      if r_.id in g12.reachable())
            gated12.append(okk)
            ck.ob(R12, f"{f12.fid} :: gated", okk, "check_not_finalized() dominates every normal exit" if okk else
                  "this mutator can complete without consulting check_not_finalized()", f12, f12.node)
    R13 = ck.rule('R08.13', "a block's long-lived task ends with the synchronous stop(): every task a start() method "
                  "stores on the block is cancelled - or sent its stop sentinel - on every path of that class's "
                  "stop(), so that it does not outlive the simulation when the asynchronous clean-up is disabled "
                  "(stop_timeout <= 0 skips stop_async)", 'M0', 2)
    with ck.section('R08.13'):
        n13 = 0
        for c13 in prog.pkg_classes():
            st13 = c13.methods.get('start')
            if st13 is None or c13.module.name == 'demo':
                continue
            for x in own_nodes(st13.node):
                if isinstance(x, ast.Assign) and len(x.targets) == 1 and isinstance(x.targets[0], ast.Attribute) \
                        and norm(x.targets[0].value) == 'self' and isinstance(x.value, ast.Call) and \
                        call_name(x.value) in ('_create_monitored_task', 'create_task'):
                    attr = x.targets[0].attr
                    n13 += 1
                    sp13 = c13.methods.get('stop')
                    if sp13 is None:
                        ck.ob(R13, f"{c13.qual} :: self.{attr} ended by stop()", False,
                              f"{c13.qual}.start() stores a task in self.{attr} but the class has no stop(): the task "
                              "is ended by stop_async() only, which is skipped when stop_timeout <= 0 - it goes on "
                              "running (re-sending, polling) after the simulation has stopped", st13, x)
                        continue
                    g13 = ck.cfg(sp13.fid, 'M0')
                    enders = nodes_where(g13, lambda n: any(
                        (call_name(c) == 'cancel' and recv(c) == f'self.{attr}') or
                        (call_name(c) == 'put_nowait' and c.args and is_const(c.args[0], None))
                        for c in node_calls(n)))
                    # a path on which the handle is known to be None has no task to end
                    none13 = [n for n in g13.nodes if n.kind == 'branch' and (
                        (norm(n.test.ast) in (f'self.{attr} is not None', f'self.{attr}') and not n.polarity) or
                        (norm(n.test.ast) == f'self.{attr} is None' and n.polarity))]
                    wit13 = g13.path_avoiding(g13.entry, [g13.exit], avoid=enders + none13) if enders else [g13.entry]
                    ck.ob(R13, f"{c13.qual} :: self.{attr} ended by stop()", bool(enders) and wit13 is None,
                          f"every path of stop() cancels self.{attr} or sends the stop sentinel" if enders and wit13 is None
                          else f"stop() can return without ending the task in self.{attr}: with stop_timeout <= 0 it "
                          "outlives the simulation", sp13, sp13.node, witness=path_witness(g13, wit13 if enders else None))
        ck.need(R13, n13 >= 2, f"only {n13} stored task(s) found in start() methods (2 confirmed by hand)")
    with ck.section('R08.1'):
        g = ck.cfg(rf.fid, 'M1')
        # ------------------------------------------------------------------ R08.1
        starts = nodes_calling(g, 'start')
        ck.need(R1, len(starts) == 1, "run_forever: the blk.start() call was not recognised")
        s = starts[0]
        sc = node_calls(s, 'start')[0]
        succ = [g.nodes[v] for v, lab in g.succ[s.id] if lab != 'exc']
        adds = nodes_where(g, lambda n: any(call_name(c) == 'add' and recv(c) == 'started_blocks'
                                            for c in node_calls(n)))
        ok = len(succ) == 1 and succ[0] in adds and \
            [norm(a) for a in node_calls(succ[0], 'add')[0].args] == [recv(sc)]
        ck.ob(R1, f"{rf.fid} :: add follows start", ok,
              "started_blocks.add(blk) is the immediate successor of blk.start()" if ok else
              "a block is recorded as started before its start() returned, or not immediately after "
              "(a failing start() would still be 'stopped', or a started block would be missed)",
              rf, s.ast)
        muts = [x for x in own_nodes(rf.node) if isinstance(x, ast.Call) and isinstance(x.func, ast.Attribute)
                and recv(x) == 'started_blocks' and x.func.attr in ('add', 'discard', 'remove', 'clear', 'pop',
                                                                    'update', 'difference_update')]
        assigns = [x for x in own_nodes(rf.node) if isinstance(x, (ast.Assign, ast.AugAssign)) and
                   any(isinstance(t, ast.Name) and t.id == 'started_blocks'
                       for t in (x.targets if isinstance(x, ast.Assign) else [x.target]))]
        ok = len(muts) == 1 and len(assigns) == 1 and norm(assigns[0].value) == 'set()'
        ck.ob(R1, f"{rf.fid} :: started_blocks mutations", ok,
              "one initialisation (empty set) and one add" if ok else
              f"started_blocks has other mutations: {[norm1(m) for m in muts]} {[norm1(a) for a in assigns]}",
              rf, rf.node)

    with ck.section('R08.2'):
        # ------------------------------------------------------------------ R08.2
        stop = [n for n in nodes_calling(g, '_stop_sblocks')
                if any(isinstance(x, ast.Await) for x in walk_shallow(n.ast))]
        ck.need(R2, len(stop) == 1, "run_forever: awaited _stop_sblocks call not recognised")
        okarg = [norm(a) for a in node_calls(stop[0], '_stop_sblocks')[0].args] == ['started_blocks']
        nothing = [n for n in g.nodes if n.kind == 'branch' and not n.polarity and
                   norm(n.test.ast) == 'started_blocks']
        simw = nodes_writing_attr(g, '_simtask')
        ck.need(R2, simw, "run_forever does not record the simulation task")
        p = g.path_avoiding(simw[0], [g.exit, g.raise_exit], avoid=stop + nothing, start_successors_only=True)
        ck.ob(R2, f"{rf.fid} :: clean-up on all paths", p is None and okarg,
              "once the simulation task is recorded, every path to an exit stops the started blocks"
              if p is None and okarg else
              "a path leaves run_forever without stopping the blocks that were started", rf, stop[0].ast,
              witness=path_witness(g, p))
        # the pending-cancellation absorber precedes the clean-up
        hs = [n for n in g.nodes if n.kind == 'handler' and g.pred[n.id] and
              handler_types(n.ast) == ['CancelledError']]
        ok = any(g.dominates(h, stop[0]) or stop[0].id in g.reachable_from(h) for h in hs)
        main = [n for n in g.nodes if n.kind == 'handler' and g.pred[n.id] and
                set(handler_types(n.ast)) >= {'Exception', 'CancelledError'}]
        absorb = nodes_where(g, lambda n: any(isinstance(x, ast.Await) and call_name(x.value) == 'sleep'
                                              for x in walk_shallow(n.ast)) and main and
                             n.id in g.reachable_from(main[0]) and stop[0].id in g.reachable_from(n))
        okabs = bool(absorb) and any(
            any(g.nodes[v].kind == 'dispatch' and any(g.nodes[h].kind == 'handler' and
                                                      handler_types(g.nodes[h].ast) == ['CancelledError']
                                                      for h, _ in g.succ[v])
                for v, lab in g.succ[a.id] if lab == 'exc') for a in absorb)
        ck.ob(R2, f"{rf.fid} :: pending cancellation absorbed", okabs,
              "a cancellation left pending by abort()+raise is absorbed before the clean-up awaits"
              if okabs else "a pending cancellation could interrupt the clean-up", rf,
              absorb[0].ast if absorb else rf.node)

        from rules.shared import pending_cancel_absorbed
        pending_cancel_absorbed(ck, R2)

    with ck.section('R08.3'):
        # ------------------------------------------------------------------ R08.3
        sites = []
        for fi in prog.pkg_funcs():
            for x in own_nodes(fi.node):
                if isinstance(x, ast.Call) and call_name(x) == 'cancel' and '_simtask' in recv(x):
                    sites.append((fi, x))
        ok = len(sites) == 1 and sites[0][0].fid == f'{CIRC}.abort'
        ck.ob(R3, "who cancels the simulation task", ok,
              f"self._simtask.cancel() sites: {[f.fid for f, _ in sites]}" +
              ('' if ok else " -- a second cancellation could interrupt the clean-up"), None,
              'edzed/simulator.py:1')
        if sites:
            fi, x = sites[0]
            ga = ck.cfg(fi.fid, 'M0')
            n = ga.node_of(x)[0]
            ok = ga.has_guard(n, 'self._error is None', True)
            ck.ob(R3, f"{fi.fid} :: cancel only for the first error", ok,
                  "the cancellation is requested only while the error slot was empty" if ok else
                  "abort() can cancel the task again after an error was recorded", fi, x)
        run = prog.func('simulator:run')
        cancels = [x for x in own_nodes(run.node) if isinstance(x, ast.Call) and call_name(x) == 'cancel']
        gr = ck.cfg(run.fid, 'M0')
        okc = len(cancels) == 1
        if okc:
            n = gr.node_of(cancels[0])[0]
            loop = [l for l in gr.nodes if l.kind == 'for' and gr.dominates(l, n)][-1]
            okc = norm(loop.ast.iter) == 'all_tasks[1:]' and recv(cancels[0]) == norm(loop.ast.target)
        ck.ob(R3, f"{run.fid} :: cancels supporting tasks only", okc,
              "run() cancels all_tasks[1:] (never the simulation task; that goes through abort())"
              if okc else "run() may cancel the simulation task directly", run,
              cancels[0] if cancels else run.node)

    with ck.section('R08.4'):
        # ------------------------------------------------------------------ R08.4
        ss = circ.methods['_stop_sblocks']
        gs = ck.cfg(ss.fid, 'M1')
        bparam = ss.node.args.args[1].arg
        asyncd = nodes_where(gs, lambda n: isinstance(n.ast, ast.Assign) and isinstance(n.ast.value, ast.SetComp))
        ok = len(asyncd) == 1
        an = sn = None
        if ok:
            comp = asyncd[0].ast.value
            gen = comp.generators[0]
            an = norm(asyncd[0].ast.targets[0])
            facts = {canon_fact(e, p) for c in gen.ifs for e, p in decompose(c, True)}
            v = norm(gen.target)
            ok = norm(comp.elt) == v and f'{bparam}.intersection(self.getblocks(addons.AddonAsync))' == norm(gen.iter) \
                and canon_fact(ast.parse(f"{v}.has_method('stop_async')", mode='eval').body, True) in facts \
                and canon_fact(ast.parse(f"{v}.stop_timeout > 0.0", mode='eval').body, True) in facts
            syncd = nodes_where(gs, lambda n: isinstance(n.ast, ast.Assign) and
                                norm(n.ast.value) == f'{bparam}.difference({an})')
            ok = ok and len(syncd) == 1
            sn = norm(syncd[0].ast.targets[0]) if syncd else None
        ck.ob(R4, f"{ss.fid} :: partition", ok,
              f"{an} = started blocks with stop_async and a positive stop_timeout; {sn} = the rest "
              f"(set difference): every started block is in exactly one group" if ok else
              "the started blocks are not partitioned into an async and a sync group", ss,
              asyncd[0].ast if asyncd else ss.node)
        stops = nodes_calling(gs, 'stop')
        loops = {}
        for st in stops:
            l = [x for x in gs.nodes if x.kind == 'for' and gs.dominates(x, st)]
            if l:
                loops.setdefault(norm(l[-1].ast.iter), []).append(st)
        ok = an is not None and set(loops) == {an, sn} and all(len(v) == 1 for v in loops.values())
        ck.ob(R4, f"{ss.fid} :: one stop() per group member", ok,
              "each group is iterated once with one blk.stop() call" if ok else
              f"stop() is called in loops over {sorted(loops)}; expected exactly one per group", ss, ss.node)
        for st in stops:
            isolated = False
            for v, lab in gs.succ[st.id]:
                if lab == 'exc':
                    d = gs.nodes[v]
                    hn = [gs.nodes[h] for h, _ in gs.succ[d.id] if gs.nodes[h].kind == 'handler']
                    isolated = bool(hn) and all('Exception' in handler_types(h.ast) or
                                                'BaseException' in handler_types(h.ast) for h in hn[:1]) \
                        and not any(gs.nodes[u].kind == 'raise' for h in hn for u in gs.reachable_from(h)
                                    if False)
                    if isolated:
                        isolated = not handler_reraises(ss, hn[0].ast) and not any(
                            isinstance(x, ast.Call) and call_name(x) == 'abort'
                            for b in hn[0].ast.body for x in walk_shallow(b))
            ck.ob(R4, f"{ss.fid} :: stop() isolated (loop over "
                  f"{[k for k, v in loops.items() if st in v]})", isolated,
                  "an error in one block's stop() is logged and does not prevent the others" if isolated
                  else "an exception from stop() escapes the loop (the remaining blocks would not be "
                  "stopped) or escalates", ss, st.ast)
        if an is not None and an in loops and sn in loops:
            a_stop, s_stop = loops[an][0], loops[sn][0]
            rt = nodes_calling(gs, '_run_tasks')
            ok = len(rt) == 1 and rt[0].id in gs.reachable_from(a_stop) and \
                a_stop.id not in gs.reachable_from(s_stop) and rt[0].id not in gs.reachable_from(s_stop) and \
                any(isinstance(x, ast.Await) for x in walk_shallow(rt[0].ast))
            # whenever the async group is non-empty the sync loop comes after the bounded wait
            nonempty = [n for n in gs.nodes if n.kind == 'branch' and n.polarity and norm(n.test.ast) == an]
            ok = ok and bool(nonempty) and gs.path_avoiding(nonempty[0], [s_stop], avoid=rt) is None
            ck.ob(R4, f"{ss.fid} :: async group first", ok,
                  "the async group is stopped and its stop_async tasks awaited before any block of "
                  "the sync group is stopped" if ok else
                  "a sync block can be stopped before the async clean-up completed", ss, s_stop.ast)
            wt = nodes_where(gs, lambda n: isinstance(n.ast, ast.Assign) and isinstance(n.ast.value, ast.ListComp)
                             and any(call_name(c) in ('create_task', 'ensure_future')
                                     for c in [x for x in walk_shallow(n.ast.value) if isinstance(x, ast.Call)]))
            ok = len(wt) == 1
            if ok:
                comp = wt[0].ast.value
                v = norm(comp.generators[0].target)
                elt = comp.elt
                ok = norm(comp.generators[0].iter) == an and not comp.generators[0].ifs and \
                    isinstance(elt, ast.Tuple) and len(elt.elts) == 3 and norm(elt.elts[0]) == v and \
                    norm(elt.elts[2]) == f'{v}.stop_timeout' and \
                    norm(elt.elts[1].args[0]) == f'{v}.stop_async()' and \
                    norm(node_calls(rt[0], '_run_tasks')[0].args[1]) == norm(wt[0].ast.targets[0]) and \
                    wt[0].id in gs.reachable_from(a_stop)
                ys = [n for n in nodes_calling(gs, 'sleep') if n.id in gs.reachable_from(a_stop)
                      and wt[0].id in gs.reachable_from(n)]
                ok = ok and bool(ys)
            ck.ob(R4, f"{ss.fid} :: stop_async tasks", ok,
                  "after stop() and a yield, every async block's stop_async() runs as a task handed to "
                  "_run_tasks with the block's stop_timeout" if ok else
                  "stop_async() is not awaited (bounded by stop_timeout) for every block of the async "
                  "group after its stop()", ss, wt[0].ast if wt else ss.node)

    with ck.section('R08.5'):
        # ------------------------------------------------------------------ R08.5
        _task_ownership(ck, R5)

    with ck.section('R08.7'):
        # ------------------------------------------------------------------ R08.7
        n7 = 0
        for meth in ('start', 'stop', 'stop_async'):
            n7 += superchain(ck, R7, meth)
        ck.need(R7, n7 >= 12, f"only {n7} start/stop/stop_async overrides found")
        for ci in prog.classes.values():
            if ci.module.name == 'demo':
                continue
            names = [cname(c) for c in ci.mro]
            if 'SBlock' not in names:
                continue
            idx = names.index('SBlock')
            late = [c for c in ci.mro[idx + 1:] if not isinstance(c, str) and
                    any(cname(b) == 'Addon' for b in c.mro) and cname(c) != 'Addon']
            late += [c for c in ci.mro[idx + 1:] if cname(c) == 'Addon']
            if any(cname(c) == 'Addon' for c in ci.mro) or late:
                ck.ob(R7, f"{ci.qual} :: add-ons before SBlock", not late,
                      "all add-ons precede SBlock in the MRO" if not late else
                      f"add-on(s) {[cname(c) for c in late]} follow SBlock in the MRO of {ci.name}: "
                      f"their start/stop/event overrides are bypassed", None,
                      f"{ci.module.path}:{ci.node.lineno}")
        amt = prog.func('addons:AddonMainTask.stop_async')
        ga = ck.cfg(amt.fid, 'M1')
        rda = ck.rdefs(amt.fid, 'M1')

        def _is_mtask(node_, text):
            if text == 'self._mtask':
                return True
            if text.isidentifier():
                vals_ = rda.value_exprs(node_, text)
                return bool(vals_) and all(not isinstance(v_, str) and norm(v_) == 'self._mtask' for v_ in vals_)
            return False
        cn = [n for n in nodes_calling(ga, 'cancel') if _is_mtask(n, recv(node_calls(n, 'cancel')[0]))]
        aw = nodes_where(ga, lambda n: any(isinstance(x, ast.Await) and _is_mtask(n, norm(x.value))
                                           for x in walk_shallow(n.ast)))
        ok = len(cn) == 1 and len(aw) == 1 and ga.dominates(cn[0], aw[0])
        hs = [n for n in ga.nodes if n.kind == 'handler' and ga.pred[n.id]]
        ok = ok and any(handler_types(h.ast) == ['CancelledError'] for h in hs)
        resets = [w for w in nodes_writing_attr(ga, '_mtask') if is_const(written_value(w, '_mtask'), None)]
        ok = ok and bool(resets) and bool(aw) and \
            ga.path_avoiding(aw[0], [ga.exit, ga.raise_exit], avoid=resets, start_successors_only=True) is None
        ck.ob(R7, amt.fid, ok, "the main task is cancelled, awaited (cancellation absorbed) and the "
              "attribute reset on all paths" if ok else
              "AddonMainTask.stop_async does not cancel-and-await its task on all paths", amt, amt.node)

    with ck.section('R08.8'):
        # ------------------------------------------------------------------ R08.8
        of = prog.func('blocklib.sblocks2:OutputFunc.stop')
        go = ck.cfg(of.fid, 'M0')
        put = nodes_calling(go, '_event_put')
        sup = nodes_where(go, lambda n: any(is_super_call(c, 'stop') for c in node_calls(n)))
        ok = len(put) == 1 and len(sup) == 1 and go.has_guard(put[0], 'self._stop_data is not None', True) and \
            sup[0].id in go.reachable_from(put[0]) and put[0].id not in go.reachable_from(sup[0])
        if ok:
            c = node_calls(put[0], '_event_put')[0]
            ok = len(c.keywords) == 1 and c.keywords[0].arg is None and norm(c.keywords[0].value) == 'self._stop_data'
            skip = go.path_avoiding(go.entry, [go.exit], avoid=put)
            ok = ok and (skip is None or any(n.kind == 'branch' and not n.polarity and
                                             '_stop_data' in norm(n.test.ast) for n in skip))
        ck.ob(R8, of.fid, ok, "stop_data (if any) is delivered as the block's last action, before "
              "super().stop()" if ok else "OutputFunc.stop does not deliver stop_data before "
              "super().stop()", of, of.node)
        oa = prog.func('blocklib.sblocks2:OutputAsync.stop')
        gq = ck.cfg(oa.fid, 'M0')
        put = nodes_calling(gq, '_event_put')
        sent = nodes_where(gq, lambda n: any(call_name(c) == 'put_nowait' and recv(c) == 'self._queue' and
                                             c.args and is_const(c.args[0], None) for c in node_calls(n)))
        sup = nodes_where(gq, lambda n: any(is_super_call(c, 'stop') for c in node_calls(n)))
        ok = len(put) == 1 and len(sent) == 1 and len(sup) == 1 and \
            sent[0].id in gq.reachable_from(put[0]) and put[0].id not in gq.reachable_from(sent[0]) and \
            must_pass(gq, gq.entry, sent, [gq.exit]) is None and sup[0].id in gq.reachable_from(sent[0])
        ck.ob(R8, oa.fid, ok, "stop_data is enqueued before the sentinel; the sentinel is always "
              "enqueued; then super().stop()" if ok else
              "OutputAsync.stop enqueues the sentinel before the stop data, or not on every path", oa, oa.node)
        osa = prog.func('blocklib.sblocks2:OutputAsync.stop_async')
        t1 = [norm(n.ast) for n in gq.nodes if n.kind == 'test' and '_stop_data' in norm(n.ast)]
        gz = ck.cfg(osa.fid, 'M0')
        t2 = [norm(n.ast) for n in gz.nodes if n.kind == 'test' and '_stop_data' in norm(n.ast)]
        def _mode_fact(g_):
            """canonical (text, polarity) of the conjunct that compares the control coroutine"""
            from sa.cfg import canon_fact as _cf, decompose as _dc
            for n_ in g_.nodes:
                if n_.kind == 'test' and '_stop_data' in norm(n_.ast):
                    for e_, p_ in _dc(n_.ast, True):
                        if '_ctrl_coro' in norm(e_) and not isinstance(e_, ast.BoolOp):
                            return _cf(e_, p_)
            return None
        f1, f2 = _mode_fact(gq), _mode_fact(gz)
        ok = len(t1) == 1 and len(t2) == 1 and f1 is not None and f2 is not None and \
            f1[0] == f2[0] and f1[1] != f2[1] and f2[1] is True and '_ctrl_start' in f2[0]
        ck.ob(R8, "OutputAsync stop / stop_async mode tests", ok,
              f"`{t1[0] if t1 else None}` and `{t2[0] if t2 else None}` are complementary: stop_data "
              f"is processed exactly once" if ok else
              f"the mode tests of stop ({t1}) and stop_async ({t2}) are not complementary: stop_data "
              f"may be processed twice or never", oa, oa.node)
        aw = nodes_where(gz, lambda n: any(isinstance(x, ast.Await) and norm(x.value) == 'self._ctrl_task'
                                           for x in walk_shallow(n.ast)))
        late = nodes_where(gz, lambda n: any(call_name(c) == '_output_coro_wrapper' for c in node_calls(n)))
        ok = len(aw) == 1 and len(late) == 1 and late[0].id in gz.reachable_from(aw[0]) and \
            aw[0].id not in gz.reachable_from(late[0])
        ck.ob(R8, osa.fid, ok, "the control task is awaited first; start-mode stop_data runs after "
              "all other work" if ok else
              "start-mode stop_data is not processed after the control task finished", osa, osa.node)

        from rules.shared import stop_data_condition
        stop_data_condition(ck, R8)

    with ck.section('R08.9'):
        # ------------------------------------------------------------------ R08.9
        g0 = ck.cfg(rf.fid, 'M0')
        guard = [n for n in g0.nodes if n.kind == 'test' and norm(n.ast) == 'self._simtask is not None']
        ok = len(guard) >= 1 and all(g0.dominates(guard[0], n) for n in g0.nodes
                                     if n.kind in ('stmt', 'test', 'for', 'with') and n is not guard[0]
                                     and n.id in g0.reachable() and not (isinstance(n.ast, ast.Expr)
                                                                         and isinstance(n.ast.value, ast.Constant)))
        rs = nodes_where(g0, lambda n: isinstance(n.ast, ast.Raise) and
                         g0.has_guard(n, 'self._simtask is not None', True), kinds=('stmt',))
        wr = nodes_writing_attr(g0, '_simtask')
        ok = ok and bool(rs) and all(g0.has_guard(w, 'self._simtask is not None', False) for w in wr)
        ck.ob(R9, f"{rf.fid} :: single use", ok,
              "a second run_forever() raises before anything else happens" if ok else
              "run_forever can be entered again after it was started", rf, guard[0].ast if guard else rf.node)
        own(ck, R9, '_simtask', {f'{CIRC}.__init__': 'None', rf.fid: 'the current task'})
        okv = bool(wr) and all(norm(written_value(w, '_simtask')) == 'asyncio.current_task()' for w in wr)
        ck.ob(R9, f"{rf.fid} :: recorded task", okv, "_simtask = asyncio.current_task()" if okv else
              "_simtask is not the task running run_forever", rf, wr[0].ast if wr else rf.node)

    with ck.section('R08.10'):
        # ------------------------------------------------------------------ R08.10
        ts = prog.cls('simulator:_TerminatingSignal')
        en, ex, hd = ts.methods.get('__enter__'), ts.methods.get('__exit__'), ts.methods.get('_handler')
        ck.need(R10, en and ex and hd, "_TerminatingSignal methods not found")
        ge = ck.cfg(en.fid, 'M0')
        sv = nodes_where(ge, lambda n: isinstance(n.ast, ast.Assign) and
                         norm(n.ast.value) == 'signal.getsignal(self._signo)')
        inst = nodes_where(ge, lambda n: any(norm(c.func) == 'signal.signal' for c in node_calls(n)))
        ok = len(sv) == 1 and len(inst) == 1 and ge.dominates(sv[0], inst[0]) and \
            [norm(a) for a in node_calls(inst[0])[0].args] == ['self._signo', 'self._handler']
        ck.ob(R10, en.fid, ok, "the previous handler is saved, then ours installed" if ok else
              "__enter__ does not save the previous handler before installing", en, en.node)
        gx = ck.cfg(ex.fid, 'M0')
        rest = nodes_where(gx, lambda n: any(norm(c.func) == 'signal.signal' and
                                             [norm(a) for a in c.args] == ['self._signo', norm(sv[0].ast.targets[0])]
                                             for c in node_calls(n))) if sv else []
        skip = gx.path_avoiding(gx.entry, [gx.exit], avoid=rest)
        ok = bool(rest) and (skip is None or any(n.kind == 'branch' and n.polarity and
                                                 norm(n.test.ast) == 'self._signo is None' for n in skip))
        rets = return_nodes(gx)
        ok = ok and all(r.ast.value is None or is_const(r.ast.value, False) or is_const(r.ast.value, None)
                        for r in rets)
        ck.ob(R10, ex.fid, ok, "__exit__ restores the saved handler whenever one was installed and "
              "does not suppress exceptions" if ok else
              "the signal handler is not restored on every path (or exceptions are suppressed)", ex, ex.node)
        calls = [x for x in own_nodes(hd.node) if isinstance(x, ast.Call)]
        ab = [x for x in calls if any('abort' in norm(a) for a in x.args)]
        ok = len(ab) == 1 and (norm(ab[0].func) == 'call_soon' or call_name(ab[0]) == 'call_soon_threadsafe') \
            and 'CancelledError' in norm(ab[0].args[1]) if ab and len(ab[0].args) > 1 else False
        cs = [x for x in own_nodes(hd.node) if isinstance(x, ast.Assign) and norm(x.targets[0]) == 'call_soon']
        ok = ok and (call_name(ab[0]) == 'call_soon_threadsafe' or
                     (cs and norm(cs[0].value).endswith('call_soon_threadsafe')))
        direct = [x for x in calls if call_name(x) == 'abort']
        ck.ob(R10, hd.fid, bool(ok) and not direct,
              "the handler only schedules abort(CancelledError) with call_soon_threadsafe" if ok and
              not direct else "the signal handler touches the circuit directly", hd, hd.node)

    with ck.section('R08.11'):
        # ------------------------------------------------------------------ R08.11
        docs = directives(ck.repo, 'events.rst')
        ck.need(R11, docs, "docs/events.rst not found")
        evc = prog.cls('block:Event')
        cb = prog.cls('blocklib.sblocks1:ControlBlock')
        import re
        n11 = 0
        for d in docs:
            if d['owner'] != 'Event' or d['kind'] != 'method':
                continue
            text = description(ck.repo, d)
            m = re.search(r"shortcut for ``edzed\.Event\('_ctrl', '(\w+)'\)``", text)
            if not m:
                continue
            n11 += 1
            x = m.group(1)
            meth = evc.methods.get(d['name'])
            ok = meth is not None and 'classmethod' in meth.decorators
            why = f"Event.{d['name']}() does not exist as a classmethod"
            if ok:
                rets = [r for r in own_nodes(meth.node) if isinstance(r, ast.Return)]
                ok = len(rets) == 1 and isinstance(rets[0].value, ast.Call) and \
                    norm(rets[0].value.func) == meth.node.args.args[0].arg and \
                    [ast.literal_eval(a) for a in rets[0].value.args if isinstance(a, ast.Constant)] == ['_ctrl', x]
                why = f"Event.{d['name']}() does not return cls('_ctrl', {x!r})"
            ok2 = f'_event_{x}' in cb.methods
            ck.ob(R11, f"docs/events.rst :: Event.{d['name']}()", ok and ok2,
                  f"Event.{d['name']}() = cls('_ctrl', {x!r}) and ControlBlock handles {x!r}"
                  if ok and ok2 else (why if not ok else f"ControlBlock has no handler _event_{x}") +
                  f" (documented at {d['file']}:{d['line']})", meth, f"{d['file']}:{d['line']}")
        ck.need(R11, n11 >= 2, "fewer documented control-event constructors than confirmed by hand")


def _task_ownership(ck, R5):
    prog = ck.prog
    sites = []
    for fi in prog.pkg_funcs():
        for x in own_nodes(fi.node):
            if isinstance(x, ast.Call) and call_name(x) in TASK_CREATORS:
                sites.append((fi, x))
    table = {
        'simulator:_test_eager_tasks': _own_eager,
        'simulator:Circuit.wait_init': _own_local_cancel,
        'simulator:Circuit._init_sblocks_async': _own_list_to_run_tasks,
        'simulator:Circuit._stop_sblocks': _own_list_to_run_tasks,
        'simulator:run': _own_run,
        'addons:AddonAsync._create_monitored_task': _own_returned,
        'addons:AddonMainTask.start': lambda ck, R, fi, x: _own_attr(ck, R, fi, x, '_mtask', 'stop_async', True),
        'blocklib.sblocks2:OutputAsync.start': lambda ck, R, fi, x: _own_attr(ck, R, fi, x, '_ctrl_task', 'stop_async', False),
        'blocklib.sblocks2:OutputAsync._ctrl_cancel': _own_ctrl_cancel,
        'blocklib.sblocks2:OutputAsync._ctrl_start': _own_ctrl_start,
        'utils.shield_cancel:shield_cancel': _own_shield,
    }
    for fi, x in sites:
        fn = table.get(fi.fid)
        if fn is None:
            ck.ob(R5, f"{fi.fid} :: {norm1(x)}", False,
                  "a task is created at a site that is not on the ownership table: nothing "
                  "guarantees that it is awaited or cancelled when the simulation ends", fi, x)
            continue
        fn(ck, R5, fi, x)
    # _run_tasks takes ownership: it must cancel what is not done on every exit
    rt = prog.func('simulator:Circuit._run_tasks')
    g = ck.cfg(rt.fid, 'M1')
    lp = rt.node.args.args[-1].arg
    waits = nodes_where(g, lambda n: any(isinstance(x, ast.Await) for x in walk_shallow(n.ast)))
    cancels = nodes_calling(g, 'cancel')
    ok = bool(waits) and bool(cancels)
    wit = None
    if ok:
        cancel_loops = [l for l in g.nodes if l.kind == 'for' and
                        any(g.dominates(l, c) and c.id in g.reachable_from(
                            g.nodes[[v for v, lb in g.succ[l.id] if lb == 'iter'][0]], avoid=[l])
                            for c in cancels)]
        for w in waits:
            for v, lab in g.succ[w.id]:
                d = g.nodes[v]
                if lab == 'exc' and d.kind == 'dispatch' and d.kinds == {'C'}:
                    # the loop header counts: iterating an empty list cancels nothing to cancel
                    wit = wit or g.path_avoiding(d, [g.raise_exit], avoid=cancel_loops)
        ok = wit is None and bool(cancel_loops)
        # inside that loop the cancel is unconditional or guarded by "not done" only
        from sa.cfg import canon_fact as _cf5
        for c in cancels:
            rc = recv(node_calls(c, 'cancel')[0])
            extra = {_cf5(e_, p_) for e_, p_ in g.guards(c)} - {_cf5(e_, p_) for l in cancel_loops
                                                                 for e_, p_ in g.guards(l)}
            allowed = {_cf5(ast.parse(f'{rc}.done()', mode='eval').body, False), ('True', True)}
            if any(g.dominates(l, c) for l in cancel_loops) and not extra <= allowed:
                ok = False
        for c in cancels:
            loops = [l for l in g.nodes if l.kind == 'for' and g.dominates(l, c)]
            ok = ok and bool(loops) and lp in norm(loops[-1].ast.iter) and 'sorted' not in norm(loops[-1].ast.iter)
    ck.ob(R5, f"{rt.fid} :: owner cancels on cancellation", ok,
          "when _run_tasks is cancelled, every task of its list that is not done is cancelled"
          if ok else
          "when _run_tasks is cancelled only the task being awaited is cancelled (by wait_for); "
          "the other tasks outlive the simulation", rt, waits[0].ast if waits else rt.node,
          witness=path_witness(g, wit))


def _bound_name(fi, x):
    for st in own_nodes(fi.node):
        if isinstance(st, ast.Assign) and st.value is x and isinstance(st.targets[0], ast.Name):
            return st.targets[0].id
    return None


def _own_eager(ck, R, fi, x):
    co = [f for f in ck.prog.funcs.values() if f.parent is fi]
    ok = len(co) == 1 and not any(isinstance(n, ast.Await) for n in own_nodes(co[0].node))
    ck.ob(R, f"{fi.fid} :: probe task", ok,
          "table exception: the probe coroutine contains no await and finishes in the next loop "
          "iteration" if ok else "the eager-task probe is not a trivially finishing coroutine", fi, x)


def _own_local_cancel(ck, R, fi, x):
    v = _bound_name(fi, x)
    g = ck.cfg(fi.fid, 'M1')
    ok = v is not None
    wit = None
    if ok:
        cr = g.node_of(x)[0]
        cons = nodes_where(g, lambda n: any(call_name(c) == 'cancel' and recv(c) == v for c in node_calls(n)) or
                           any(isinstance(a, ast.Await) and norm(a.value) == v for a in walk_shallow(n.ast)),
                           kinds=('stmt',))
        wit = g.path_avoiding(cr, [g.exit, g.raise_exit], avoid=cons, start_successors_only=True)
        ok = wit is None and bool(cons)
    ck.ob(R, f"{fi.fid} :: {norm1(x)}", ok,
          f"the helper task `{v}` is cancelled (or awaited) on every path incl. cancellation" if ok
          else "the helper task is created inline / not cancelled on every exit: it stays pending "
          "when the other awaited task finishes first", fi, x, witness=path_witness(g, wit))


def _own_list_to_run_tasks(ck, R, fi, x):
    g = ck.cfg(fi.fid, 'M1')
    st = [n for n in g.nodes if n.kind == 'stmt' and isinstance(n.ast, ast.Assign) and
          any(y is x for y in walk_shallow(n.ast.value))]
    ok = len(st) == 1 and isinstance(st[0].ast.value, ast.ListComp)
    wit = None
    if ok:
        lst = norm(st[0].ast.targets[0])
        rt = nodes_where(g, lambda n: any(call_name(c) == '_run_tasks' and len(c.args) > 1 and
                                          norm(c.args[1]) == lst for c in node_calls(n)))
        empty = [n for n in g.nodes if n.kind == 'branch' and not n.polarity and norm(n.test.ast) == lst]
        # the creating statement itself is taken as atomic (calling an async function only
        # creates a coroutine object)
        wit = None
        for v_, lab in g.succ[st[0].id]:
            if lab == 'exc':
                continue
            nxt = g.nodes[v_]
            if nxt in rt or nxt in empty:
                continue
            wit = wit or g.path_avoiding(nxt, [g.exit, g.raise_exit], avoid=rt + empty)
        ok = wit is None and bool(rt)
        # no await between creation and hand-over
        between = [n for n in g.nodes if n.id in g.reachable_from(st[0]) and rt and
                   rt[0].id in g.reachable_from(n) and n is not rt[0] and n is not st[0] and
                   n.ast is not None and any(isinstance(a, ast.Await) for r in node_roots(n)
                                             for a in walk_shallow(r))]
        ok = ok and not between
    ck.ob(R, f"{fi.fid} :: {norm1(x)}", ok,
          "the created tasks are handed to `await self._run_tasks(...)` on every path without an "
          "intermediate await" if ok else
          "created tasks are not handed to _run_tasks on every path", fi, x,
          witness=path_witness(g, wit))


def _own_run(ck, R, fi, x):
    g = ck.cfg(fi.fid, 'M1')
    coll = [n for n in g.nodes if n.kind == 'for' and 'all_tasks' in norm(n.ast.iter)
            and 'enumerate' in norm(n.ast.iter)]
    awaited = coll and any(isinstance(a, ast.Await) and norm(a.value) == norm(coll[0].ast.target.elts[1])
                           for s in coll[0].ast.body for a in walk_shallow(s))
    in_all = False
    v = _bound_name(fi, x)
    if v is not None:
        in_all = any(isinstance(n, ast.Assign) and norm(n.targets[0]) == 'all_tasks' and
                     v in [norm(e) for e in getattr(n.value, 'elts', [])] for n in own_nodes(fi.node))
    else:
        in_all = any(isinstance(c, ast.Call) and call_name(c) == 'extend' and recv(c) == 'all_tasks' and
                     any(y is x for y in walk_shallow(c)) for c in own_nodes(fi.node))
    ck.ob(R, f"{fi.fid} :: {norm1(x)}", bool(awaited) and in_all,
          "the task is a member of all_tasks, every member of which is awaited in the collection "
          "loop" if awaited and in_all else
          "a task created by run() is not collected in all_tasks / not awaited at the end", fi, x)


def _own_returned(ck, R, fi, x):
    rets = [r for r in own_nodes(fi.node) if isinstance(r, ast.Return)]
    ok = len(rets) == 1 and rets[0].value is x
    ck.ob(R, f"{fi.fid} :: {norm1(x)}", ok, "the task is returned: ownership moves to the caller"
          if ok else "the created task is not returned to the caller", fi, x)


def _own_attr(ck, R, fi, x, attr, stopper, cancelled):
    ok = any(isinstance(st, ast.Assign) and st.value is x and norm(st.targets[0]) == f'self.{attr}'
             for st in own_nodes(fi.node))
    cls = ck.prog.enclosing_class(fi)
    sf = ck.prog.resolve_method(cls, stopper) if cls else None
    why = f"the task is not stored in self.{attr}"
    if ok:
        # the attribute itself, or a local of the stopper that is only ever bound to it
        aliases = {f'self.{attr}'}
        if sf is not None:
            for st_ in own_nodes(sf.node):
                if isinstance(st_, ast.Assign) and len(st_.targets) == 1 and isinstance(st_.targets[0], ast.Name) \
                        and norm(st_.value) == f'self.{attr}':
                    nm_ = st_.targets[0].id
                    if sum(1 for z in own_nodes(sf.node) if isinstance(z, ast.Name) and z.id == nm_
                           and isinstance(z.ctx, ast.Store)) == 1:
                        aliases.add(nm_)
        ok = sf is not None and any(isinstance(a, ast.Await) and norm(a.value) in aliases
                                    for a in own_nodes(sf.node))
        if cancelled:
            ok = ok and any(isinstance(c, ast.Call) and call_name(c) == 'cancel' and recv(c) in aliases
                            for c in own_nodes(sf.node))
        why = f"{stopper} of {cls.name} does not {'cancel and ' if cancelled else ''}await self.{attr}"
    ck.ob(R, f"{fi.fid} :: {norm1(x)}", ok,
          f"stored in self.{attr}; {sf.fid if sf else stopper} "
          f"{'cancels and ' if cancelled else ''}awaits it" if ok else why, fi, x)


def _own_ctrl_cancel(ck, R, fi, x):
    v = _bound_name(fi, x)
    g = ck.cfg(fi.fid, 'M0')
    ok = v is not None
    wit = None
    if ok:
        cr = g.node_of(x)[0]
        aw = nodes_where(g, lambda n: any(isinstance(a, ast.Await) and norm(a.value) == v
                                          for a in walk_shallow(n.ast)))
        # from the creation, every path to the exit or to the next creation awaits the task,
        # except through the branch where the task is known to be done
        from sa.cfg import canon_fact as _cfc

        def _nothing_to_await(t):
            """false outcome of this test => the task is absent or done"""
            parts = t.values if isinstance(t, ast.BoolOp) and isinstance(t.op, ast.And) else [t]
            live = {_cfc(ast.parse(x, mode='eval').body, True) for x in (v, f'{v} is not None')}
            notdone = _cfc(ast.parse(f'{v}.done()', mode='eval').body, False)
            cf = [_cfc(p_, True) for p_ in parts]
            return notdone in cf and all(c_ == notdone or c_ in live for c_ in cf)
        done = [n for n in g.nodes if n.kind == 'branch' and not n.polarity and _nothing_to_await(n.test.ast)]
        wit = g.path_avoiding(cr, [g.exit, cr], avoid=aw + done, start_successors_only=True)
        ok = wit is None and bool(aw)
    ck.ob(R, f"{fi.fid} :: {norm1(x)}", ok,
          "the output task is awaited (unless done) before the next one is created and before the "
          "control task ends" if ok else
          "an output task can be abandoned: a new one is created or the control task ends without "
          "awaiting it", fi, x, witness=path_witness(g, wit))


def _own_ctrl_start(ck, R, fi, x):
    g = ck.cfg(fi.fid, 'M0')
    addn = [n for n in g.nodes if n.kind == 'stmt' and any(y is x for y in walk_shallow(n.ast))]
    ok = len(addn) == 1 and any(call_name(c) == 'add' for c in node_calls(addn[0]))
    if ok:
        coll = recv([c for c in node_calls(addn[0]) if call_name(c) == 'add'][0])
        ga = nodes_where(g, lambda n: any(isinstance(a, ast.Await) and isinstance(a.value, ast.Call)
                                          and call_name(a.value) == 'gather' and
                                          any(isinstance(s, ast.Starred) and norm(s.value) == coll
                                              for s in a.value.args) for a in walk_shallow(n.ast)))
        from sa.cfg import decompose, canon_fact
        empties = {canon_fact(ast.parse(t_, mode='eval').body, False) for t_ in
                   (coll, f'len({coll}) > 0', f'len({coll})', f'len({coll}) != 0', f'len({coll}) >= 1')}
        empties.add(canon_fact(ast.parse(f'len({coll}) == 0', mode='eval').body, True))
        empty = [n for n in g.nodes if n.kind == 'branch' and
                 any(canon_fact(e, p_) in empties for e, p_ in decompose(n.test.ast, n.polarity))]
        ok = bool(ga) and g.path_avoiding(addn[0], [g.exit], avoid=ga + empty,
                                          start_successors_only=True) is None
        # gather() without return_exceptions=True stops waiting at the first task that fails (an output
        # task can fail: its result events are sent outside its try) and leaves the others running
        waits_all = all(is_const_true(kwarg(a.value, 'return_exceptions'))
                        for n in ga for a in walk_shallow(n.ast)
                        if isinstance(a, ast.Await) and isinstance(a.value, ast.Call) and call_name(a.value) == 'gather')
        if ok and not waits_all:
            ck.ob(R, f"{fi.fid} :: {norm1(x)}", False,
                  "the final gather() of 'start' mode lacks return_exceptions=True: the first failing output task "
                  "ends the wait, the control task fails, the remaining output tasks outlive the block's stop and "
                  "stop_data is never delivered", fi, x)
            return
    ck.ob(R, f"{fi.fid} :: {norm1(x)}", ok,
          "every started output task is collected and gathered (return_exceptions=True: all of them are "
          "awaited whatever their outcome) before the control task ends"
          if ok else "output tasks of 'start' mode are not all awaited at the end", fi, x)


def _own_shield(ck, R, fi, x):
    v = _bound_name(fi, x)
    g = ck.cfg(fi.fid, 'M1')
    ok = v is not None
    if ok:
        brk = [n for n in g.nodes if n.kind == 'stmt' and isinstance(n.ast, ast.Break)]
        aw = nodes_where(g, lambda n: any(isinstance(a, ast.Await) and f'shield({v})' in norm(a.value)
                                          for a in walk_shallow(n.ast)))
        # the loop is left normally only after the awaited shield returned
        ok = len(aw) == 1 and bool(brk) and all(g.path_avoiding(g.entry, [b], avoid=aw) is None for b in brk)
        # a cancellation while the task is not done stays in the loop
        re_raise = [n for n in g.nodes if n.kind == 'stmt' and isinstance(n.ast, ast.Raise) and n.ast.exc is None]
        ok = ok and all(g.has_guard(r, f'{v}.done()', True) for r in re_raise) and bool(re_raise)
    ck.ob(R, f"{fi.fid} :: {norm1(x)}", ok,
          "the inner task is awaited through shield() until it is done" if ok else
          "shield_cancel can return or raise while the inner task is still running", fi, x)


def kwarg(call, name):
    for k in call.keywords:
        if k.arg == name:
            return k.value
    return None


def is_const_true(node):
    return isinstance(node, ast.Constant) and node.value is True
