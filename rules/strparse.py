"""Abstract run of timeinterval._convert_str (C13, R13.6): the string parser for dates and date-times
is interpreted by sa/minieval.py - with `_match_pattern`, `_name_to_month` and every module-level helper a
restructuring may have split off - on well-formed representatives of every documented notation and on
malformed strings built from them (a digit glued to a digit field, pieces that only become a number when
the text between them is removed, left-over text).  The regular expressions are the ones folded from the
source (`re.compile` calls of the module) and are matched by CPython's re engine; the numeric converters
are recording stand-ins.  Nothing of edzed is imported or executed."""
from __future__ import annotations

import ast
import re

from sa.loader import AnalysisError
from sa.minieval import MiniEval, Obj, ModuleGlobals
from sa.tables import compiled_patterns, fold, Unfoldable

TI = 'blocklib.timeinterval'

# (string, with_time, expected [year, month, day, time text] / [month, day])
GOOD = [
    ('July 1 2028 8:00', True, [2028, 7, 1, '8:00']),
    ('1. jul 2028 18:30:15', True, [2028, 7, 1, '18:30:15']),
    ('8:00 2028 JULY 21', True, [2028, 7, 21, '8:00']),
    ('21.Jul.2028 8:00:00.5', True, [2028, 7, 21, '8:00:00.5']),
    ('2028-07-01 8:00', True, [2028, 7, 1, '8:00']),
    ('2028-jul-01 08:00', True, [2028, 7, 1, '08:00']),
    ('1jun2028 8:00', True, [2028, 6, 1, '8:00']),
    ('dec 31 1999 23:59:59', True, [1999, 12, 31, '23:59:59']),
    ('jul 1', False, [7, 1]),
    ('21. July', False, [7, 21]),
    ('--0721', False, [7, 21]),
    ('--07-21', False, [7, 21]),
    ('  SEP  5 ', False, [9, 5]),
    ('Feb 29', False, [2, 29]),
    ('29. feb', False, [2, 29]),
    ('--0229', False, [2, 29]),
    ('29. Feb 2024 6:30', True, [2024, 2, 29, '6:30']),
    ('2024-02-29 6:30', True, [2024, 2, 29, '6:30']),
    ('jan 31', False, [1, 31]),
    ('31 dec', False, [12, 31]),
]
# malformed: must raise ValueError instead of yielding a date
BAD = [
    ('July 20281 8:00', True, "five-digit year (digit after the year)"),
    ('July 12028 8:00', True, "five-digit year (digit before the year)"),
    ('12028 jul 8:00', True, "five-digit year, no day"),
    ('8:00 20285jul', True, "five-digit year glued to the month"),
    ('July 2028 108:00', True, "digit glued in front of the time"),
    ('8:001 July 2028', True, "digit glued behind the time"),
    ('July 2028 8:00:001', True, "three-digit seconds"),
    ('1jun5 2028 8:00', True, "day digits separated by the month name ('1jun5' is not the 15th)"),
    ('1jun5', False, "day digits separated by the month name"),
    ('2jul0', False, "day digits separated by the month name"),
    ('July 1 2028 8:00 x', True, "left-over text"),
    ('July 1 2 2028 8:00', True, "two days"),
    ('July 2028 8:00', True, "no day"),
    ('July 1 8:00', True, "no year"),
    ('July 1 2028', True, "no time"),
    ('1 2028 8:00', True, "no month"),
    ('Ju 1 2028 8:00', True, "month name shorter than three letters"),
    ('Julius 1 2028 8:00', True, "not a month name"),
    ('jul', False, "no day"),
    ('7 1', False, "numeric month"),
    ('jul 1 2', False, "left-over number"),
    ('--07211', False, "digit glued to the ISO month-day form"),
]


def _last_def(mod, name):
    found = [st for st in mod.tree.body if isinstance(st, ast.FunctionDef) and st.name == name]
    return found[-1] if found else None


def convert_str_run(ck, rule):
    prog = ck.prog
    fi = prog.func(f"{TI}:_convert_str")
    mod = fi.module
    cs = _last_def(mod, '_convert_str')
    ck.need(rule, cs is not None, "_convert_str not found")
    params = [a.arg for a in cs.args.posonlyargs + cs.args.args]
    ck.need(rule, len(params) == 2, "unexpected signature of _convert_str")
    pats = compiled_patterns(prog, mod)
    ck.need(rule, len(pats) >= 5, f"only {len(pats)} compiled patterns found in timeinterval.py (6 confirmed by hand)")

    def wrap(name, cre):
        def search(s):
            if not isinstance(s, str):
                raise TypeError('search')
            m = cre.search(s)
            if m is None:
                return None
            return Obj(f'match of {name}', {'start': lambda *a: m.start(*a), 'end': lambda *a: m.end(*a),
                                            'groups': lambda: m.groups(), 'group': lambda *a: m.group(*a),
                                            'span': lambda *a: m.span(*a)})
        return Obj(name, {'search': search})
    env0 = {}
    for nm, (pat, flags, _node) in pats.items():
        try:
            env0[nm] = wrap(nm, re.compile(pat, flags))
        except re.error as err:
            raise AnalysisError(rule, f"pattern {nm} does not compile: {err}") from None
    try:
        tc = prog.modules.get('utils.tconst')
        months = None
        for st in tc.tree.body:
            if isinstance(st, ast.Assign) and isinstance(st.targets[0], ast.Name) and st.targets[0].id == 'MONTH_NAMES':
                months = fold(prog, tc, st.value)
    except (Unfoldable, AttributeError):
        months = None
    ck.need(rule, isinstance(months, tuple) and len(months) == 13, "MONTH_NAMES of utils/tconst.py not folded")

    def resolve(text):
        if text.isidentifier() and text not in ('convert_time_str', 'convert_datetime_seq', 'convert_date_seq',
                                                'export_dt', 'int', 'str', 'len'):
            return _last_def(mod, text)
        return None
    env0.update({
        'MONTH_NAMES': months, 'int': int,
        'convert_time_str': lambda s: ('TIME', s),
        'export_dt': lambda t: [t],
        'convert_datetime_seq': lambda seq: ('DT', list(seq)),
        'convert_date_seq': lambda seq: ('D', list(seq)),
    })
    glob = ModuleGlobals(prog, mod, {})
    bad_good, bad_bad = [], []
    for s, wt, want in GOOD:
        env = dict(env0)
        env[params[0]] = s
        env[params[1]] = wt
        out = MiniEval(rule, env, resolve, globals_=glob).run(cs.body)
        exp = ('return', ('DT', want[:3] + [('TIME', want[3])])) if wt else ('return', ('D', want))
        if out != exp:
            bad_good.append(f"{s!r} (a documented notation) gives {out[1] if out[0] == 'return' else out}, "
                            f"documented {exp[1]}")
    for s, wt, why in BAD:
        env = dict(env0)
        env[params[0]] = s
        env[params[1]] = wt
        out = MiniEval(rule, env, resolve, globals_=glob).run(cs.body)
        if not (out[0] in ('raise', 'fault') and 'ValueError' in str(out[1])):
            bad_bad.append(f"{s!r} ({why}) is not rejected with a ValueError: ends with {out}")
    ck.abstract_cases += len(GOOD) + len(BAD)
    ck.ob(rule, f"{fi.fid} :: abstract run :: documented notations", not bad_good,
          f"{len(GOOD)} well-formed strings (month names in any case, abbreviated, with and without dots, "
          "year-month-day, --MMDD, date and time in any order) yield the numbers they denote" if not bad_good
          else '; '.join(bad_good[:2]), fi, cs)
    ck.ob(rule, f"{fi.fid} :: abstract run :: malformed strings", not bad_bad,
          f"{len(BAD)} malformed strings (a digit glued to the year or to the time, digits separated only by "
          "a removed token, left-over text, missing parts) raise ValueError" if not bad_bad
          else '; '.join(bad_bad[:3]) + " - the string is misread instead of being rejected", fi, cs)
