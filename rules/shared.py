"""Obligations shared by more than one property (each is recorded under the calling rule id)."""
from __future__ import annotations

import ast

from sa.loader import norm, call_name, walk_shallow, recv
from sa.cfg import canon_fact, decompose, handler_types
from sa.rulekit import nodes_where, node_calls, nodes_writing_attr, written_value
from sa.report import path_witness


def undef_refused_everywhere(ck, rule):
    """CBlock.eval_block: every normal exit after calc_output() lies behind the failed test
    `<result> is UNDEF` (C01: consistency needs a defined value; C05: a first evaluation that
    yields UNDEF must fail, not pass as 'no change' against the still undefined previous output)."""
    eb = ck.prog.func('block:CBlock.eval_block')
    ge = ck.cfg(eb.fid, 'M0')
    calc = nodes_where(ge, lambda n: isinstance(n.ast, ast.Assign) and any(
        call_name(c) == 'calc_output' for c in node_calls(n)))
    vname = norm(calc[0].ast.targets[0]) if calc else None
    undef = nodes_where(ge, lambda n: isinstance(n.ast, ast.Raise) and
                        any('UNDEF' in t and p for t, p in ge.guard_texts(n)), kinds=('stmt',))
    ok = bool(undef) and bool(calc) and vname is not None
    wit = None
    if ok:
        want = canon_fact(ast.parse(f'{vname} is UNDEF', mode='eval').body, False)
        passed = [n for n in ge.nodes if n.kind == 'branch' and any(
            canon_fact(e, p_) == want for e, p_ in decompose(n.test.ast, n.polarity))]
        wit = ge.path_avoiding(calc[0], [ge.exit], avoid=passed + undef, start_successors_only=True)
        ok = wit is None
    ck.ob(rule, f"{eb.fid} :: UNDEF refused on every path", ok,
          "every normal exit after calc_output() lies behind the failed test `value is UNDEF`" if ok
          else "a computed UNDEF can leave eval_block normally (e.g. through the 'no change' exit "
          "while the previous output is still UNDEF): the block stays uninitialised and the "
          "first evaluation does not fail", eb, undef[0].ast if undef else eb.node,
          witness=path_witness(ge, wit))


def pending_cancel_absorbed(ck, rule):
    """Circuit.run_forever: abort() records the error and *requests* a cancellation of the
    simulation task.  When the main try is left without that cancellation having been delivered
    (abort() from the simulation task itself with nothing raising, or abort() + raise), it is
    still pending and would hit the first await of the clean-up: the blocks would not be stopped
    and run_forever would end with CancelledError instead of the recorded error.  Hence: on EVERY
    path from the main try to the clean-up there is an await whose CancelledError is caught and
    dropped."""
    rf = ck.prog.func('simulator:Circuit.run_forever')
    g = ck.cfg(rf.fid, 'M1')
    simw = nodes_writing_attr(g, '_simtask')
    stop = [n for n in nodes_where(g, lambda n: any(call_name(c) == '_stop_sblocks' for c in node_calls(n)))
            if any(isinstance(x, ast.Await) for x in walk_shallow(n.ast))]
    ck.need(rule, simw and len(stop) == 1, "run_forever: task recording / awaited _stop_sblocks not recognised")

    def absorbing(n):
        if n.ast is None or not any(isinstance(x, ast.Await) for x in walk_shallow(n.ast)):
            return False
        for v, lab in g.succ[n.id]:
            if lab != 'exc' or g.nodes[v].kind != 'dispatch':
                continue
            hs = [g.nodes[h] for h, _ in g.succ[v] if g.nodes[h].kind == 'handler']
            for h in hs:
                if handler_types(h.ast) == ['CancelledError'] and all(
                        isinstance(st, ast.Pass) for st in h.ast.body):
                    return True
        return False
    absorb = [n for n in g.nodes if n.kind == 'stmt' and absorbing(n)]
    # first awaits of the clean-up: the stop call and anything awaited after the main handler
    wit = g.path_avoiding(simw[0], stop, avoid=absorb, start_successors_only=True)
    ok = bool(absorb) and wit is None
    ck.ob(rule, f"{rf.fid} :: pending cancellation consumed on every path", ok,
          "every path from the recording of the simulation task to the clean-up passes an await "
          "whose CancelledError is caught and dropped" if ok else
          "the clean-up can be reached with the cancellation requested by abort() still pending "
          "(e.g. abort() called by the simulation task itself while nothing raises): the first "
          "await of the clean-up is then cancelled, blocks are not stopped and CancelledError "
          "replaces the recorded error", rf, absorb[0].ast if absorb else stop[0].ast,
          witness=path_witness(g, wit))


def enqueue_before_anything_can_fail(ck, rule):
    """SBlock.set_output under fault model M1 (event delivery may raise): once the new value is
    stored, the simulator is notified before anything that can raise runs.  A non-fatal error of an
    on_output event (unknown event type, wrong parameters: passed to the external caller without
    abort()) must not leave the stored change un-propagated: connected CBlocks would keep stale
    values while the simulator sits idle."""
    so = ck.prog.func('block:SBlock.set_output')
    g = ck.cfg(so.fid, 'M1')
    ws = nodes_writing_attr(g, '_output')
    enq = nodes_where(g, lambda n: any(call_name(c) == 'put_nowait' and
                                       recv(c) == 'self.circuit.sblock_queue' for c in node_calls(n)))
    if not (len(ws) >= 1 and enq):
        run_ = set_output_run(ck)
        if run_['applicable']:
            bad_ = run_['bad']['queued first'] + [m for m in run_['bad']['changes'] if 'queued' in m]
            ck.ob(rule, f"{so.fid} :: change queued before any delivery can fail", not bad_,
                  f"abstract run ({run_['cases']} cases, one with a failing first delivery): the value is "
                  "stored and the block queued before the first event is sent" if not bad_ else
                  '; '.join(bad_[:3]), so, so.node)
            return
    ck.need(rule, len(ws) >= 1 and enq, "SBlock.set_output: write / enqueue not recognised")
    wit = None
    for w in ws:
        for v, lab in g.succ[w.id]:
            if lab == 'exc':
                continue
            nxt = g.nodes[v]
            if nxt in enq:
                continue
            wit = wit or g.path_avoiding(nxt, [g.exit, g.raise_exit], avoid=enq)
    ck.ob(rule, f"{so.fid} :: change queued before any delivery can fail", wit is None,
          "under M1 (sends may raise) every exit after the write, normal or exceptional, has "
          "passed the enqueue" if wit is None else
          "an exception of an output event can leave set_output after the write but before the "
          "block is queued: the change is stored but never propagated to connected blocks", so,
          ws[0].ast, witness=path_witness(g, wit))


def stop_data_condition(ck, rule):
    """The documented condition for the final run is `stop_data is not None`: an EMPTY mapping is
    stop data too (a coroutine / function without arguments).  Every use of self._stop_data as the
    data of the final run is guarded by the identity test, not by truthiness."""
    want = canon_fact(ast.parse('self._stop_data is not None', mode='eval').body, True)
    n = 0
    for fid in ('blocklib.sblocks2:OutputAsync.stop', 'blocklib.sblocks2:OutputAsync.stop_async',
                'blocklib.sblocks2:OutputFunc.stop'):
        fi = ck.prog.func(fid)
        g = ck.cfg(fid, 'M0')
        uses = nodes_where(g, lambda m: any(
            call_name(c) in ('_event_put', '_output_coro_wrapper') and
            any('self._stop_data' in norm(a) for a in list(c.args) + [k.value for k in c.keywords])
            for c in node_calls(m)))
        for u in uses:
            n += 1
            facts = {canon_fact(e, p_) for e, p_ in g.guards(u)}
            truthy = canon_fact(ast.parse('self._stop_data', mode='eval').body, True) in facts
            ok = want in facts and not truthy
            ck.ob(rule, f"{fid} :: stop_data used iff it is not None", ok,
                  "the final run is guarded by `self._stop_data is not None`" if ok else
                  "the final run with stop_data is guarded by the truth value of stop_data (or not "
                  "at all): an empty mapping - the natural stop_data of a coroutine without "
                  "arguments - is silently skipped", fi, u.ast)
    ck.need(rule, n >= 3, f"only {n} uses of self._stop_data as final-run data found (3 expected)")


def dispatch_handler_asts(ev):
    """The except clauses of the `try` that contains the handler dispatch of SBlock.event (the function has
    other try statements: the guard's try/finally, the early initialisation's own try)."""
    res = []
    for t in ast.walk(ev.node):
        if isinstance(t, ast.Try) and t.handlers and any(
                isinstance(x, ast.Call) and (call_name(x) == '_event' or
                                             (isinstance(x.func, ast.Name) and x.func.id == 'handler'))
                for st in t.body for x in ast.walk(st) if not isinstance(st, ast.Try)):
            res = t.handlers            # innermost wins (ast.walk is breadth-first: later = deeper)
    return list(res)


def unknown_event_not_fatal(ck, rule, construct_suffix='unknown event not fatal'):
    """SBlock.event: an EdzedUnknownEvent raised by the handler is re-raised as it is and never
    reaches abort().  Two spellings are recognised: an own `except EdzedUnknownEvent: raise` clause
    placed before the generic one, or, inside the generic handler, a bare `raise` under
    `isinstance(<err>, EdzedUnknownEvent)` on whose failed outcome every path to abort() lies."""
    ev = ck.prog.func('block:SBlock.event')
    g = ck.cfg(ev.fid, 'M1')
    dh_ = dispatch_handler_asts(ev)
    hs = [n for n in g.nodes if n.kind == 'handler' and g.pred[n.id] and (not dh_ or n.ast in dh_)]
    gen = [h for h in hs if handler_types(h.ast) == ['Exception']]
    unk = [h for h in hs if handler_types(h.ast) == ['EdzedUnknownEvent']]
    aborts = nodes_where(g, lambda n: any(call_name(c) == 'abort' for c in node_calls(n)))
    ok = False
    if len(unk) == 1 and gen:
        ok = len(unk[0].ast.body) == 1 and isinstance(unk[0].ast.body[0], ast.Raise) and \
            unk[0].ast.body[0].exc is None and unk[0].ast.lineno < gen[0].ast.lineno and \
            not any(g.dominates(unk[0], a) for a in aborts)
    elif len(gen) == 1 and gen[0].ast.name:
        en = gen[0].ast.name
        want_t = canon_fact(ast.parse(f'isinstance({en}, EdzedUnknownEvent)', mode='eval').body, True)
        want_f = canon_fact(ast.parse(f'isinstance({en}, EdzedUnknownEvent)', mode='eval').body, False)
        rer = [n for n in g.nodes if n.kind == 'stmt' and isinstance(n.ast, ast.Raise) and n.ast.exc is None
               and want_t in {canon_fact(e, p) for e, p in g.guards(n)}]
        notunk = [n for n in g.nodes if n.kind == 'branch' and any(
            canon_fact(e, p) == want_f for e, p in decompose(n.test.ast, n.polarity))]
        ok = bool(rer) and bool(notunk) and all(
            g.path_avoiding(gen[0], [a], avoid=notunk) is None for a in aborts if g.dominates(gen[0], a))
    ck.ob(rule, f"{ev.fid} :: {construct_suffix}", ok,
          "EdzedUnknownEvent is re-raised as it is and cannot reach abort()" if ok else
          "an unknown event type is not simply re-raised (it may abort the simulation)", ev,
          (unk[0].ast if unk else (gen[0].ast if gen else ev.node)))
    return ok


class _SelfUnequal:
    """Stands for a value that compares unequal to itself (math.nan): assigning it twice is a change."""
    def __eq__(self, other):
        return False
    __hash__ = None

    def __repr__(self):
        return '<nan-like>'


def set_output_run(ck):
    """Layout-independent decision for SBlock.set_output: the function (with every helper method of
    SBlock it calls) is interpreted by the mini evaluator on the complete case grid
        (previous, new) in {first value after UNDEF, unequal, equal-but-not-identical, identical,
                            self-unequal object}  x  0 / 2 on_output events  x  0 / 2 on_every_output events
        + UNDEF as the new value  + a first on_output event whose delivery raises
    with recording stand-ins for the queue and the events, and the observable trace is compared with
    the documented one: a changed value is stored and the block queued (both before any event is
    sent), then the on_output events in configured order, then the on_every_output events in
    configured order, each sent as (self, trigger='output', previous=<old>, value=<new>); an
    unchanged value only sends the on_every_output events; UNDEF raises ValueError without effect.
    -> {'applicable': bool, 'why': str, 'bad': {aspect: [messages]}} (cached on ck)."""
    if getattr(ck, '_set_output_run', None) is not None:
        return ck._set_output_run
    from sa.minieval import MiniEval, Obj
    from sa.loader import AnalysisError
    prog = ck.prog
    so = prog.func('block:SBlock.set_output')
    sb = prog.cls('block:SBlock')
    res = {'applicable': False, 'why': '', 'bad': {}, 'cases': 0}
    params = [a.arg for a in so.node.args.args]
    if len(params) != 2:
        res['why'] = 'unexpected signature'
        ck._set_output_run = res
        return res
    vparam = params[1]

    def resolve(text):
        if text.startswith('self.') and text[5:].isidentifier():
            f_ = prog.resolve_method(sb, text[5:])
            if f_ is not None and f_.cls is not None and f_.cls.name in ('SBlock', 'Block') and \
                    f_.name not in ('event', 'send') and not prog.is_dummy(f_):
                return f_.node
        return None
    UNDEF = type('UNDEF', (), {'__repr__': lambda s: '<UNDEF>', '__bool__': lambda s: False})()
    nan = _SelfUnequal()
    SELF = 'SELF'
    pairs = [('first value', UNDEF, 5, True), ('unequal', 2, 3, True), ('equal, not identical', 1, True, False),
             ('identical', 7, 7, False), ('self-unequal object', nan, nan, True)]
    bad = {'payload': [], 'changes': [], 'order': [], 'undef': [], 'queued first': []}

    def add(k, m):
        if m not in bad[k]:
            bad[k].append(m)
    try:
        for label, prev, new, changed in pairs:
            for n_out in (0, 2):
                for n_every in (0, 2):
                    for failing in ((False, True) if (n_out and changed) else (False,)):
                        trace = []

                        def mk(name, fail=False):
                            def send(*a, **k):
                                trace.append(('send', name, a, k))
                                if fail:
                                    raise RuntimeError('delivery failed')
                                return True
                            return Obj(name, {'send': send})
                        outs = tuple(mk(f'on_output[{i}]', fail=(failing and i == 0)) for i in range(n_out))
                        evs = tuple(mk(f'on_every_output[{i}]') for i in range(n_every))
                        env = {'self': SELF, vparam: new, 'UNDEF': UNDEF, 'block.UNDEF': UNDEF,
                               'self._output': prev, 'self._output_events': outs,
                               'self._every_output_events': evs,
                               'self.circuit.sblock_queue.put_nowait': lambda x: trace.append(('enqueue', x)),
                               '__setattr__': lambda k, v: trace.append(('write', k, v))}
                        out = MiniEval('set_output run', env, resolve=resolve).run(so.node.body)
                        res['cases'] += 1
                        case = f"{label} ({prev!r} -> {new!r}), {n_out} on_output / {n_every} on_every_output" + \
                            (", first delivery raises" if failing else "")
                        writes = [t for t in trace if t[0] == 'write' and t[1] == 'self._output']
                        enq = [t for t in trace if t[0] == 'enqueue']
                        sends = [t for t in trace if t[0] == 'send']
                        first_send = next((i for i, t in enumerate(trace) if t[0] == 'send'), len(trace))
                        if changed:
                            if len(writes) != 1 or writes[0][2] is not new:
                                add('changes', f"{case}: the new value is not stored exactly once ({writes})")
                            if len(enq) != 1 or enq[0][1] is not SELF:
                                add('changes', f"{case}: the block is not queued exactly once for the simulator ({enq})")
                            if any(trace.index(t) > first_send for t in writes + enq):
                                add('queued first', f"{case}: an event is sent before the value is stored and the block queued")
                        else:
                            if writes or enq:
                                add('changes', f"{case}: an unchanged value is stored / queued again")
                        if failing:
                            if out[0] == 'return':
                                add('order', f"{case}: the failure of an output event is swallowed")
                            continue
                        want = ([o.name for o in outs] if changed else []) + [e_.name for e_ in evs]
                        got = [t[1] for t in sends]
                        if got != want:
                            add('order' if sorted(got) == sorted(want) else 'changes',
                                f"{case}: events sent {got}, documented {want}")
                        for t in sends:
                            a, k = t[2], t[3]
                            if not (len(a) == 1 and a[0] is SELF and set(k) == {'trigger', 'previous', 'value'}
                                    and k['trigger'] == 'output' and k['previous'] is prev and k['value'] is new):
                                add('payload', f"{case}: {t[1]} sent with {a}, {k}")
                        if out != ('return', None) and out[0] != 'return':
                            add('changes', f"{case}: ends with {out}")
        # UNDEF is refused without any effect
        trace = []
        env = {'self': SELF, vparam: UNDEF, 'UNDEF': UNDEF, 'block.UNDEF': UNDEF, 'self._output': 1,
               'self._output_events': (), 'self._every_output_events': (),
               'self.circuit.sblock_queue.put_nowait': lambda x: trace.append(('enqueue', x)),
               '__setattr__': lambda k, v: trace.append(('write', k, v))}
        out = MiniEval('set_output run', env, resolve=resolve).run(so.node.body)
        res['cases'] += 1
        if out[0] != 'raise' or trace:
            add('undef', f"UNDEF as the new value: {out}, effects {trace}")
        res['applicable'] = True
    except AnalysisError as err:
        res['why'] = err.reason
    res['bad'] = bad
    ck._set_output_run = res
    ck.abstract_cases += res['cases']
    return res


def set_output_helpers(ck):
    """Private methods of SBlock that write `_output` and are called from SBlock.set_output (directly
    or through each other) and from nowhere else: the setter split into helpers."""
    from sa.loader import own_nodes
    prog = ck.prog
    sb = prog.cls('block:SBlock')
    out = []
    for name, m in sb.methods.items():
        if not name.startswith('_') or name.startswith('__') or name == 'set_output':
            continue
        if not any(isinstance(t, ast.Attribute) and t.attr == '_output' and isinstance(t.ctx, ast.Store)
                   for t in ast.walk(m.node)):
            continue
        callers = set()
        for f2 in prog.pkg_funcs():
            for c in own_nodes(f2.node):
                if isinstance(c, ast.Call) and isinstance(c.func, ast.Attribute) and c.func.attr == name:
                    callers.add(f2.fid)
                elif isinstance(c, ast.Attribute) and c.attr == name and not isinstance(c.ctx, ast.Store):
                    callers.add(f2.fid)
        if callers and callers <= {'block:SBlock.set_output'} | {f"block:SBlock.{n}" for n in sb.methods if n.startswith('_')}:
            if 'block:SBlock.set_output' in callers or any(c.endswith(tuple(o.name for o in out)) for c in callers):
                out.append(m)
    return out


def event_result_passed_on(ck, rule, cls_qual):
    """Every event() wrapper in the MRO of `cls_qual` above SBlock.event (add-ons overriding event()
    around super().event(...)) returns, on every normal exit, the value super().event(...) returned:
    'every event returns the updated output' (C20) / 'returns the handler's result' (C14) also holds
    for blocks with persistent state, whatever their sync_state."""
    from sa.loader import ClassInfo, is_super_call, own_nodes
    from sa.rulekit import return_nodes
    prog = ck.prog
    ci = prog.cls(cls_qual)
    n = 0
    for c in ci.mro:
        if not isinstance(c, ClassInfo) or 'event' not in c.methods or c.qual == 'block:SBlock':
            continue
        fi = c.methods['event']
        sup = [x for x in own_nodes(fi.node) if is_super_call(x, 'event')]
        if not sup:
            continue
        n += 1
        g = ck.cfg(fi.fid, 'M0')
        rd = ck.rdefs(fi.fid, 'M0')
        rets = return_nodes(g)
        bad = []
        for r in rets:
            v = r.ast.value
            if v is None:
                bad.append(f"bare return at line {r.lineno}")
            elif isinstance(v, ast.Call) and is_super_call(v, 'event'):
                continue
            elif isinstance(v, ast.Name):
                defs = rd.defs_at(r, v.id)
                if not defs or not all(d.kind == 'stmt' and isinstance(d.ast, ast.Assign) and
                                       isinstance(d.ast.value, ast.Call) and is_super_call(d.ast.value, 'event')
                                       for d in defs):
                    bad.append(f"`return {v.id}` at line {r.lineno} may return something else than the "
                               "result of super().event()")
            else:
                bad.append(f"`return {norm(v)[:40]}` at line {r.lineno}")
        # falling off the end
        fall = g.path_avoiding(g.entry, [g.exit], avoid=rets)
        if fall is not None:
            bad.append("a path ends without a return statement (None is returned)")
        ck.ob(rule, f"{fi.fid} :: result of super().event() returned", not bad,
              "every normal exit returns what super().event() returned" if not bad else '; '.join(bad),
              fi, fi.node, witness=path_witness(g, fall) if fall else None)
    return n


def simtask_implies_error_recorded(ck, rule):
    """is_ready() = (the simulation task is recorded) and (the error slot is empty).  Hence: once
    run_forever has recorded the task, every way out of it - in particular a failure before or during
    the start - passes a statement that fills the error slot; otherwise a circuit whose start was
    refused keeps answering is_ready() == True and external events are delivered to it (C14), and it
    counts as running for ever (C09)."""
    rf = ck.prog.func('simulator:Circuit.run_forever')
    g = ck.cfg(rf.fid, 'M1')
    simw = nodes_writing_attr(g, '_simtask')
    ck.need(rule, len(simw) >= 1, "run_forever does not record the simulation task")
    errw = nodes_writing_attr(g, '_error')
    # `raise self._error` leaves with the slot filled (it is asserted / tested non-empty right before)
    reraise = nodes_where(g, lambda n: isinstance(n.ast, ast.Raise) and n.ast.exc is not None and
                          norm(n.ast.exc) == 'self._error', kinds=('stmt',))
    filled = [n for n in g.nodes if n.kind == 'branch' and any(
        canon_fact(e, p) == canon_fact(ast.parse('self._error is None', mode='eval').body, False)
        for e, p in decompose(n.test.ast, n.polarity))]
    wit = None
    for w in simw:
        wit = wit or g.path_avoiding(w, [g.exit, g.raise_exit], avoid=errw + reraise + filled,
                                     start_successors_only=True)
    ck.ob(rule, f"{rf.fid} :: recorded task => error recorded at every exit", wit is None,
          "after the simulation task is recorded every exit of run_forever has filled the error slot"
          if wit is None else
          "run_forever can be left (e.g. by a check that fails before the start) with the simulation task "
          "recorded and the error slot empty: is_ready() stays True for a circuit that is not running",
          rf, simw[0].ast, witness=path_witness(g, wit))


def event_send_run(ck):
    """Layout-independent decision for Event.send: the function (with the private helper methods of
    Event it calls) is interpreted on every pipeline of 0..2 filters drawn from eight kinds -
    accepting in place, rejecting with False / None / 0, returning a new dict, an EMPTY dict, a
    non-dict MutableMapping layered over the received data (ChainMap), a mapping with a non-string
    key - and the observable behaviour (what every filter received, what the destination received,
    the return value / exception) is compared with the documented pipeline:
        data['source'] = <sender>.name first; each filter gets the data that left its predecessor;
        a MutableMapping result (even an empty one) replaces the data, any other false result vetoes,
        any other true result keeps the data; exactly one dest.event(etype, **data) iff not vetoed.
    -> {'applicable', 'why', 'bad': {aspect: [...]}, 'cases'} (cached on ck)."""
    if getattr(ck, '_event_send_run', None) is not None:
        return ck._event_send_run
    import collections
    import itertools
    from sa.minieval import MiniEval, Obj, ModuleGlobals
    from sa.loader import AnalysisError
    prog = ck.prog
    es = prog.func('block:Event.send')
    evc = prog.cls('block:Event')
    res = {'applicable': False, 'why': '', 'bad': {}, 'cases': 0}
    bad = {'source': [], 'pipeline': [], 'veto': [], 'delivery': [], 'keys': []}
    a = es.node.args
    pos = [x.arg for x in a.posonlyargs + a.args]
    if len(pos) != 2 or a.kwarg is None:
        res['why'] = 'unexpected signature of Event.send'
        ck._event_send_run = res
        return res
    src_p, data_p = pos[1], a.kwarg.arg

    def resolve(text):
        if text.startswith('self.') and text[5:].isidentifier():
            f_ = prog.resolve_method(evc, text[5:])
            if f_ is not None and f_.cls is evc and f_.name not in ('send',) and not prog.is_dummy(f_):
                return f_.node
        return None
    KINDS = ('inplace', 'false', 'none', 'zero', 'newdict', 'empty', 'chainmap', 'badkey')

    def make(kind, seen):
        def f(data):
            seen.append((kind, dict(data)))
            if kind == 'inplace':
                data['touched'] = data.get('touched', 0) + 1
                return True
            if kind == 'false':
                return False
            if kind == 'none':
                return None
            if kind == 'zero':
                return 0
            if kind == 'newdict':
                return {'fresh': len(seen), 'source': data.get('source')}
            if kind == 'empty':
                return {}
            if kind == 'chainmap':
                return collections.ChainMap({'layer': 1}, data)
            return {1: 'x'}
        f.__name__ = kind
        return f

    def model(kinds):
        seen = []
        data = {'value': 7, 'source': 'SRC'}
        for k in kinds:
            r = make(k, seen)(data)
            if isinstance(r, collections.abc.MutableMapping):
                if any(not isinstance(key, str) for key in r):
                    return seen, None, 'TypeError'
                data = r
            elif not r:
                return seen, None, False
        return seen, dict(data), True
    CIRC = Obj('circuit')
    try:
        for n in (0, 1, 2):
            for kinds in itertools.product(KINDS, repeat=n):
                seen, delivered = [], []
                dest = Obj('dest', {'event': lambda *a_, **k_: delivered.append((a_, k_))}, {'circuit': CIRC})
                source = Obj('source', {}, {'name': 'SRC', 'circuit': CIRC})
                # the caller's data may carry a 'source' item of its own: the sender's name must replace it
                env = {'self': 'SELF', src_p: source, data_p: {'value': 7, 'source': 'FORGED'}, 'self._dest': dest,
                       'self._etype': 'ETYPE', 'self._filters': tuple(make(k, seen) for k in kinds)}
                glob = ModuleGlobals(prog, es.module, {'simulator.get_circuit': lambda: CIRC})
                env['simulator.get_circuit'] = lambda: CIRC
                out = MiniEval('Event.send run', env, resolve, globals_=glob).run(es.node.body)
                res['cases'] += 1
                wseen, wdata, wret = model(kinds)
                case = f"filters {list(kinds)}"
                if seen and seen[0][1].get('source') != 'SRC':
                    bad['source'].append(f"{case}: the first filter does not see data['source'] = <sender>.name")
                if [s_ for s_ in seen] != wseen:
                    bad['pipeline'].append(f"{case}: the filters received {seen}; documented {wseen}")
                if wret == 'TypeError':
                    if not (out[0] in ('raise', 'fault') and 'TypeError' in str(out[1])):
                        bad['keys'].append(f"{case}: a non-string key is not refused ({out}, delivered {delivered})")
                    continue
                if wret is False:
                    if delivered or out != ('return', False):
                        bad['veto'].append(f"{case}: documented: vetoed, nothing delivered, False returned; "
                                           f"code: {out}, delivered {delivered}")
                    continue
                if out != ('return', True) or len(delivered) != 1:
                    (bad['veto'] if not delivered else bad['delivery']).append(
                        f"{case}: documented: one delivery and True; code: {out}, {len(delivered)} deliveries")
                    continue
                a_, k_ = delivered[0]
                if list(a_) != ['ETYPE'] or k_ != wdata:
                    bad['delivery'].append(f"{case}: the destination received {a_}, {k_}; documented ('ETYPE',), {wdata}")
        res['applicable'] = True
    except AnalysisError as err:
        res['why'] = err.reason
    res['bad'] = {k: v[:4] for k, v in bad.items()}
    ck._event_send_run = res
    ck.abstract_cases += res['cases']
    return res


def shapes_backed_by_run(ck, shape_fn, what):
    """Run the shape rules of a function whose behaviour an abstract run has already decided (and found
    in order): they keep naming statements on the layout they know, but a layout they cannot read -
    an AnalysisError, or an obligation that fails although the run covers it - is an abstention noted
    in the evidence, not a verdict."""
    from sa.loader import AnalysisError
    n0 = len(ck.obligations)
    e0 = len(ck.analysis_errors)
    try:
        shape_fn()
    except AnalysisError as err:
        ck.note(f"shape rules for {what} not applicable to this layout ({err.reason}); decided by the abstract run")
    for o in ck.obligations[n0:]:
        if not o['ok']:
            o['ok'] = True
            o['msg'] = f"[layout not recognised by the shape rule; decided by the abstract run of {what}] " + o['msg']
            o.pop('witness', None)
    if len(ck.analysis_errors) > e0:
        for rid, reason in ck.analysis_errors[e0:]:
            ck.note(f"{rid}: {reason} (abstention of a shape rule; {what} is decided by the abstract run)")
        del ck.analysis_errors[e0:]


def event_send_rules(ck, rule, aspects, shape_fn):
    """Obligations of `rule` about Event.send: the abstract run first (aspects = keys of its result that
    belong to the calling property), then the property's shape rules as the statement-naming back-up."""
    run_ = event_send_run(ck)
    es = ck.prog.func('block:Event.send')
    TEXT = {'source': "data['source'] = <sender>.name is set before the first filter runs",
            'pipeline': "each filter receives the data that left its predecessor (a MutableMapping result "
                        "replaces the data, in-place edits are kept), in the configured order",
            'veto': "only a false result that is not a mapping vetoes the event (nothing delivered, False "
                    "returned); an empty mapping is data",
            'delivery': "exactly one dest.event(etype, **data) with the data that left the last filter; True returned",
            'keys': "a mapping with a non-string key raises TypeError"}
    if not run_['applicable']:
        ck.note(f"abstract run of Event.send not applicable: {run_['why']}")
        shape_fn()
        return
    anybad = False
    for a in aspects:
        msgs = run_['bad'][a]
        anybad = anybad or bool(msgs)
        ck.ob(rule, f"{es.fid} :: abstract run :: {a}", not msgs,
              f"{TEXT[a]} (all {run_['cases']} pipelines of 0..2 filters of 8 kinds)" if not msgs
              else '; '.join(msgs[:2]), es, es.node)
    if anybad:
        return
    shapes_backed_by_run(ck, shape_fn, 'Event.send')


def weekdays_run(ck, rule):
    """TimeDate._parse3 interpreted on weekday specifications (times / dates absent): every single
    number -2..9, every digit string '0'..'9', some mixed sequences and strings with blanks.  Documented:
    0..7 are accepted, 0 and 7 both mean Sunday and are stored as 7 (= isoweekday()); anything else is a
    ValueError - it is never folded into the valid range (C07: the output follows the calendar; C13:
    malformed input is rejected, not misread)."""
    from sa.minieval import MiniEval, ModuleGlobals
    prog = ck.prog
    tdc = prog.cls('blocklib.timedate:TimeDate')
    p3 = tdc.methods.get('_parse3')
    ck.need(rule, p3 is not None, "TimeDate._parse3 not found")
    params = [a.arg for a in p3.node.args.args]
    if params and params[0] in ('self', 'cls'):
        params = params[1:]
    ck.need(rule, len(params) == 3, "TimeDate._parse3: expected (times, dates, weekdays)")

    def resolve(text):
        if text.isidentifier():
            b = prog.lookup(p3.module, text)
            if b is not None and b[0] == 'func':
                return b[1].node
        for pre in ('self.', 'cls.', 'TimeDate.'):
            if text.startswith(pre) and text[len(pre):].isidentifier():
                f_ = prog.resolve_method(tdc, text[len(pre):])
                if f_ is not None and f_.cls is tdc and f_ is not p3:
                    return f_.node
        return None
    cases = [[n] for n in range(-2, 10)] + [str(n) for n in range(10)] + \
        [[1, 2, 3], [0, 7], [6, 8], '135', '07', '1 3\t5', '189', [], '']
    bad = []
    for spec in cases:
        env = {params[0]: None, params[1]: None, params[2]: spec}
        out = MiniEval(rule, env, resolve, globals_=ModuleGlobals(prog, p3.module, {})).run(p3.node.body)
        ck.abstract_cases += 1
        nums = [int(c) for c in spec if c not in ' \t'] if isinstance(spec, str) else list(spec)
        valid = all(0 <= n <= 7 for n in nums)
        if valid:
            want = frozenset(7 if n == 0 else n for n in nums)
            ok = out[0] == 'return' and isinstance(out[1], (tuple, list)) and len(out[1]) == 3 and \
                out[1][2] is not None and set(out[1][2]) == set(want)
        else:
            ok = out[0] in ('raise', 'fault') and 'ValueError' in str(out[1])
        if not ok and len(bad) < 3:
            bad.append(f"weekdays={spec!r}: {out}; documented " +
                       (f"{sorted(want)}" if valid else "ValueError"))
    ck.ob(rule, f"{p3.fid} :: weekday specification", not bad,
          f"0..7 accepted (0 and 7 stored as 7 = isoweekday()), everything else refused, on {len(cases)} "
          "specifications" if not bad else '; '.join(bad), p3, p3.node)


# --------------------------------------------------------------------------- Const identity run
def _same_kind(x, y):
    if type(x) is not type(y):
        return False
    if isinstance(x, (tuple, list)):
        return len(x) == len(y) and all(_same_kind(a, b) for a, b in zip(x, y))
    return x == y


def const_identity_run(ck, rule):
    """Abstract run of Const.__new__ + Const.__init__ (C01 'constants', C15 'plain constant resolved to the
    right object'): two constants are created one after the other; afterwards each object must still hold the
    value - and the kind of value - it was created for.  The pairs are the collisions of Python's
    equality / hashing: 1 == True == 1.0, 0 == False == 0.0, equal hashes of different values, equal values
    (sharing is fine), unhashable values (no sharing possible)."""
    from sa.minieval import MiniEval, Obj, ModuleGlobals
    prog = ck.prog
    cls_ = prog.cls('block:Const')
    new_, init_ = cls_.methods.get('__new__'), cls_.methods.get('__init__')
    ck.need(rule, new_ is not None and init_ is not None, "Const.__new__ / Const.__init__ not found")
    pn = [a.arg for a in new_.node.args.posonlyargs + new_.node.args.args]
    pi = [a.arg for a in init_.node.args.posonlyargs + init_.node.args.args]
    ck.need(rule, len(pn) == 2 and len(pi) == 2, "unexpected signature of Const.__new__ / __init__")

    class _U:
        def __repr__(self):
            return '<UNDEF>'
    UNDEF = _U()
    PAIRS = [(1, True), (True, 1), (1, 1.0), (1.0, 1), (0, False), (False, 0), (0, 0.0), (-1, -2),
             ('a', 'a'), (2, 2), ([1], [1]), ([1], [True]), (None, 0), ('', 0), ((1, 2), (1, 2))]
    NESTED = [((1,), (True,)), ((0, 'x'), (False, 'x'))]
    bad, bad_nested, n = [], [], 0
    for pairs, sink in ((PAIRS, bad), (NESTED, bad_nested)):
        for a, b in pairs:
            n += 1
            instances = {}
            held = {}

            def create(value):
                env = {pn[0]: 'CLS', pn[1]: value, 'cls._instances': instances, 'Const._instances': instances,
                       'super().__new__': lambda c: Obj('Const object'), 'object.__new__': lambda c: Obj('Const object'),
                       'type': type, 'hash': hash, 'id': id, 'UNDEF': UNDEF}
                glob = ModuleGlobals(prog, new_.module, {'UNDEF': UNDEF})
                out = MiniEval(rule, env, globals_=glob).run(new_.node.body)
                if out[0] != 'return' or not isinstance(out[1], Obj):
                    return out
                obj = out[1]
                env2 = {pi[0]: obj, pi[1]: value, 'UNDEF': UNDEF, 'type': type}
                me2 = MiniEval(rule, env2, globals_=glob)
                out2 = me2.run(init_.node.body)
                if out2[0] != 'return':
                    return out2
                if f'{pi[0]}._output' in me2.env:
                    held[id(obj)] = me2.env[f'{pi[0]}._output']
                return obj
            oa_ = create(a)
            ob_ = create(b)
            if not isinstance(oa_, Obj) or not isinstance(ob_, Obj):
                sink.append(f"Const({a!r}) then Const({b!r}): construction ends with {oa_ if not isinstance(oa_, Obj) else ob_}")
                continue
            va, vb = held.get(id(oa_), '<unset>'), held.get(id(ob_), '<unset>')
            if not _same_kind(va, a) or not _same_kind(vb, b):
                sink.append(f"after Const({a!r}) and then Const({b!r}) the first object holds {va!r} and the "
                            f"second {vb!r}" + (" (one shared object, re-initialised by the second call)"
                                                if oa_ is ob_ else ''))
    ck.abstract_cases += n
    ck.ob(rule, "block:Const :: abstract run :: equal constants of different kinds", not bad,
          f"every constant object keeps the value and kind it was created for ({len(PAIRS)} ordered pairs: "
          f"1/True/1.0, 0/False/0.0, equal hashes, equal values, unhashable values)" if not bad else
          '; '.join(bad[:2]) + ": every block connected to the first constant now computes with the second one",
          new_, new_.node)
    ck.ob(rule, "block:Const :: abstract run :: equal containers with elements of different kinds", not bad_nested,
          "tuples that compare equal but hold elements of different kinds do not share an object" if not bad_nested
          else '; '.join(bad_nested[:1]), new_, new_.node)


# --------------------------------------------------------------------------- one-shot arguments
def argument_not_consumed_before_tuple(ck, rule, fids=('block:event_tuple', 'block:efilter_tuple')):
    """Events, filters and inputs may be given as an iterator (accepted by _is_multiple, deprecated): the
    argument can be traversed once.  The normalising helpers therefore must not iterate it before
    _to_tuple turns it into a tuple - whatever they would look at is missing from the tuple afterwards."""
    HARMLESS = {'_to_tuple', '_is_multiple', 'isinstance', 'callable', 'type', 'id', 'hasattr', 'repr'}
    prog = ck.prog
    for fid in fids:
        fi = prog.func(fid)
        p = fi.node.args.args[0].arg
        own_ = []
        stack = list(fi.node.body)
        while stack:                      # the function's own statements, nested defs excluded
            x = stack.pop()
            own_.append(x)
            for ch in ast.iter_child_nodes(x):
                if not isinstance(ch, (ast.FunctionDef, ast.AsyncFunctionDef, ast.Lambda, ast.ClassDef)):
                    stack.append(ch)
        hit = None
        for x in own_:
            if isinstance(x, (ast.For, ast.comprehension)) and any(
                    isinstance(y, ast.Name) and y.id == p for y in ast.walk(x.iter)):
                hit = hit or x.iter
            if isinstance(x, ast.Call) and call_name(x) not in HARMLESS and any(
                    isinstance(a, ast.Name) and a.id == p for a in list(x.args) + [k.value for k in x.keywords]):
                hit = hit or x
            if isinstance(x, ast.Starred) and isinstance(x.value, ast.Name) and x.value.id == p:
                hit = hit or x
        ck.ob(rule, f"{fid} :: argument traversed once", hit is None,
              f"`{p}` reaches _to_tuple untouched" if hit is None else
              f"`{norm(hit)[:60]}` traverses `{p}` before _to_tuple does: given as an iterator (generator "
              "expression, map, iter(...)) it is exhausted here and the resulting tuple is empty - the event is "
              "sent without its filters / the block has no output events", fi, hit if hit is not None else fi.node)
