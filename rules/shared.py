"""Obligations shared by more than one property (each is recorded under the calling rule id)."""
from __future__ import annotations

import ast

from sa.loader import norm, call_name, walk_shallow, recv
from sa.cfg import canon_fact, decompose, handler_types
from sa.rulekit import nodes_where, node_calls, nodes_writing_attr, written_value
from sa.report import path_witness


def undef_refused_everywhere(ck, rule):
    """CBlock.eval_block: every normal exit after calc_output() lies behind the failed test
    `<result> is UNDEF` (C01: consistency needs a defined value; C05: a first evaluation that
    yields UNDEF must fail, not pass as 'no change' against the still undefined previous output)."""
    eb = ck.prog.func('block:CBlock.eval_block')
    ge = ck.cfg(eb.fid, 'M0')
    calc = nodes_where(ge, lambda n: isinstance(n.ast, ast.Assign) and any(
        call_name(c) == 'calc_output' for c in node_calls(n)))
    vname = norm(calc[0].ast.targets[0]) if calc else None
    undef = nodes_where(ge, lambda n: isinstance(n.ast, ast.Raise) and
                        any('UNDEF' in t and p for t, p in ge.guard_texts(n)), kinds=('stmt',))
    ok = bool(undef) and bool(calc) and vname is not None
    wit = None
    if ok:
        want = canon_fact(ast.parse(f'{vname} is UNDEF', mode='eval').body, False)
        passed = [n for n in ge.nodes if n.kind == 'branch' and any(
            canon_fact(e, p_) == want for e, p_ in decompose(n.test.ast, n.polarity))]
        wit = ge.path_avoiding(calc[0], [ge.exit], avoid=passed + undef, start_successors_only=True)
        ok = wit is None
    ck.ob(rule, f"{eb.fid} :: UNDEF refused on every path", ok,
          "every normal exit after calc_output() lies behind the failed test `value is UNDEF`" if ok
          else "a computed UNDEF can leave eval_block normally (e.g. through the 'no change' exit "
          "while the previous output is still UNDEF): the block stays uninitialised and the "
          "first evaluation does not fail", eb, undef[0].ast if undef else eb.node,
          witness=path_witness(ge, wit))


def pending_cancel_absorbed(ck, rule):
    """Circuit.run_forever: abort() records the error and *requests* a cancellation of the
    simulation task.  When the main try is left without that cancellation having been delivered
    (abort() from the simulation task itself with nothing raising, or abort() + raise), it is
    still pending and would hit the first await of the clean-up: the blocks would not be stopped
    and run_forever would end with CancelledError instead of the recorded error.  Hence: on EVERY
    path from the main try to the clean-up there is an await whose CancelledError is caught and
    dropped."""
    rf = ck.prog.func('simulator:Circuit.run_forever')
    g = ck.cfg(rf.fid, 'M1')
    simw = nodes_writing_attr(g, '_simtask')
    stop = [n for n in nodes_where(g, lambda n: any(call_name(c) == '_stop_sblocks' for c in node_calls(n)))
            if any(isinstance(x, ast.Await) for x in walk_shallow(n.ast))]
    ck.need(rule, simw and len(stop) == 1, "run_forever: task recording / awaited _stop_sblocks not recognised")

    def absorbing(n):
        if n.ast is None or not any(isinstance(x, ast.Await) for x in walk_shallow(n.ast)):
            return False
        for v, lab in g.succ[n.id]:
            if lab != 'exc' or g.nodes[v].kind != 'dispatch':
                continue
            hs = [g.nodes[h] for h, _ in g.succ[v] if g.nodes[h].kind == 'handler']
            for h in hs:
                if handler_types(h.ast) == ['CancelledError'] and all(
                        isinstance(st, ast.Pass) for st in h.ast.body):
                    return True
        return False
    absorb = [n for n in g.nodes if n.kind == 'stmt' and absorbing(n)]
    # first awaits of the clean-up: the stop call and anything awaited after the main handler
    wit = g.path_avoiding(simw[0], stop, avoid=absorb, start_successors_only=True)
    ok = bool(absorb) and wit is None
    ck.ob(rule, f"{rf.fid} :: pending cancellation consumed on every path", ok,
          "every path from the recording of the simulation task to the clean-up passes an await "
          "whose CancelledError is caught and dropped" if ok else
          "the clean-up can be reached with the cancellation requested by abort() still pending "
          "(e.g. abort() called by the simulation task itself while nothing raises): the first "
          "await of the clean-up is then cancelled, blocks are not stopped and CancelledError "
          "replaces the recorded error", rf, absorb[0].ast if absorb else stop[0].ast,
          witness=path_witness(g, wit))


def enqueue_before_anything_can_fail(ck, rule):
    """SBlock.set_output under fault model M1 (event delivery may raise): once the new value is
    stored, the simulator is notified before anything that can raise runs.  A non-fatal error of an
    on_output event (unknown event type, wrong parameters: passed to the external caller without
    abort()) must not leave the stored change un-propagated: connected CBlocks would keep stale
    values while the simulator sits idle."""
    so = ck.prog.func('block:SBlock.set_output')
    g = ck.cfg(so.fid, 'M1')
    ws = nodes_writing_attr(g, '_output')
    enq = nodes_where(g, lambda n: any(call_name(c) == 'put_nowait' and
                                       recv(c) == 'self.circuit.sblock_queue' for c in node_calls(n)))
    ck.need(rule, len(ws) >= 1 and enq, "SBlock.set_output: write / enqueue not recognised")
    wit = None
    for w in ws:
        for v, lab in g.succ[w.id]:
            if lab == 'exc':
                continue
            nxt = g.nodes[v]
            if nxt in enq:
                continue
            wit = wit or g.path_avoiding(nxt, [g.exit, g.raise_exit], avoid=enq)
    ck.ob(rule, f"{so.fid} :: change queued before any delivery can fail", wit is None,
          "under M1 (sends may raise) every exit after the write, normal or exceptional, has "
          "passed the enqueue" if wit is None else
          "an exception of an output event can leave set_output after the write but before the "
          "block is queued: the change is stored but never propagated to connected blocks", so,
          ws[0].ast, witness=path_witness(g, wit))


def stop_data_condition(ck, rule):
    """The documented condition for the final run is `stop_data is not None`: an EMPTY mapping is
    stop data too (a coroutine / function without arguments).  Every use of self._stop_data as the
    data of the final run is guarded by the identity test, not by truthiness."""
    want = canon_fact(ast.parse('self._stop_data is not None', mode='eval').body, True)
    n = 0
    for fid in ('blocklib.sblocks2:OutputAsync.stop', 'blocklib.sblocks2:OutputAsync.stop_async',
                'blocklib.sblocks2:OutputFunc.stop'):
        fi = ck.prog.func(fid)
        g = ck.cfg(fid, 'M0')
        uses = nodes_where(g, lambda m: any(
            call_name(c) in ('_event_put', '_output_coro_wrapper') and
            any('self._stop_data' in norm(a) for a in list(c.args) + [k.value for k in c.keywords])
            for c in node_calls(m)))
        for u in uses:
            n += 1
            facts = {canon_fact(e, p_) for e, p_ in g.guards(u)}
            truthy = canon_fact(ast.parse('self._stop_data', mode='eval').body, True) in facts
            ok = want in facts and not truthy
            ck.ob(rule, f"{fid} :: stop_data used iff it is not None", ok,
                  "the final run is guarded by `self._stop_data is not None`" if ok else
                  "the final run with stop_data is guarded by the truth value of stop_data (or not "
                  "at all): an empty mapping - the natural stop_data of a coroutine without "
                  "arguments - is silently skipped", fi, u.ast)
    ck.need(rule, n >= 3, f"only {n} uses of self._stop_data as final-run data found (3 expected)")


def unknown_event_not_fatal(ck, rule, construct_suffix='unknown event not fatal'):
    """SBlock.event: an EdzedUnknownEvent raised by the handler is re-raised as it is and never
    reaches abort().  Two spellings are recognised: an own `except EdzedUnknownEvent: raise` clause
    placed before the generic one, or, inside the generic handler, a bare `raise` under
    `isinstance(<err>, EdzedUnknownEvent)` on whose failed outcome every path to abort() lies."""
    ev = ck.prog.func('block:SBlock.event')
    g = ck.cfg(ev.fid, 'M1')
    hs = [n for n in g.nodes if n.kind == 'handler' and g.pred[n.id]]
    gen = [h for h in hs if handler_types(h.ast) == ['Exception']]
    unk = [h for h in hs if handler_types(h.ast) == ['EdzedUnknownEvent']]
    aborts = nodes_where(g, lambda n: any(call_name(c) == 'abort' for c in node_calls(n)))
    ok = False
    if len(unk) == 1 and gen:
        ok = len(unk[0].ast.body) == 1 and isinstance(unk[0].ast.body[0], ast.Raise) and \
            unk[0].ast.body[0].exc is None and unk[0].ast.lineno < gen[0].ast.lineno and \
            not any(g.dominates(unk[0], a) for a in aborts)
    elif len(gen) == 1 and gen[0].ast.name:
        en = gen[0].ast.name
        want_t = canon_fact(ast.parse(f'isinstance({en}, EdzedUnknownEvent)', mode='eval').body, True)
        want_f = canon_fact(ast.parse(f'isinstance({en}, EdzedUnknownEvent)', mode='eval').body, False)
        rer = [n for n in g.nodes if n.kind == 'stmt' and isinstance(n.ast, ast.Raise) and n.ast.exc is None
               and want_t in {canon_fact(e, p) for e, p in g.guards(n)}]
        notunk = [n for n in g.nodes if n.kind == 'branch' and any(
            canon_fact(e, p) == want_f for e, p in decompose(n.test.ast, n.polarity))]
        ok = bool(rer) and bool(notunk) and all(
            g.path_avoiding(gen[0], [a], avoid=notunk) is None for a in aborts if g.dominates(gen[0], a))
    ck.ob(rule, f"{ev.fid} :: {construct_suffix}", ok,
          "EdzedUnknownEvent is re-raised as it is and cannot reach abort()" if ok else
          "an unknown event type is not simply re-raised (it may abort the simulation)", ev,
          (unk[0].ast if unk else (gen[0].ast if gen else ev.node)))
    return ok
