"""C17 -- An Input never outputs a value that its validators reject (structural clauses)."""
from __future__ import annotations

import ast

from sa.loader import AnalysisError, recv, norm, norm1, walk_shallow, is_super_call, call_name, subscript_writes
from sa.rulekit import (nodes_calling, node_calls, nodes_where, return_nodes, must_pass,
                        nodes_writing_attr, node_roots, effect_free_to, is_const)
from sa.report import path_witness

VAL = 'blocklib.sblocks2:_Validation'
INPUT = 'blocklib.sblocks2:Input'
INPUTEXP = 'blocklib.sblocks2:InputExp'

UNDECIDED = [
    "the validators' semantics over value domains (membership in `allowed`, user check/schema "
    "functions) and put sequences -- value level, not decided",
]


def _is_validate_call(e) -> bool:
    return (isinstance(e, ast.Call) and isinstance(e.func, ast.Attribute)
            and e.func.attr == '_validate' and recv(e) == 'self')


def _validated_value(ck, fi, cfg, node, expr) -> tuple[bool, str]:
    """Does `expr` at `node` hold only results of self._validate(...)?"""
    if _is_validate_call(expr):
        return True, f"`{norm(expr)}` is the validation result itself"
    if not isinstance(expr, ast.Name):
        return False, f"`{norm(expr)}` is not a validation result"
    rd = ck.rdefs(fi.fid, cfg.model_name)
    defs = rd.defs_at(node, expr.id)
    if not defs:
        return False, f"`{expr.id}` has no reaching definition"
    for d in defs:
        if d.kind == 'stmt' and isinstance(d.ast, ast.Assign) and _is_validate_call(d.ast.value):
            continue
        what = 'the unvalidated parameter' if d.kind == 'entry' else f"`{norm1(d.ast)}` (line {d.lineno})"
        return False, f"`{expr.id}` may hold {what} instead of a self._validate(...) result"
    return True, f"every definition of `{expr.id}` reaching here is a self._validate(...) result"


_UNDEF17 = type('_Undef', (), {'__repr__': lambda self: '<UNDEF>', '__bool__': lambda self: False})()


def run(ck):
    ck.explanation = (
        "Input / InputExp (edzed/blocklib/sblocks2.py): the validator stages run in the order "
        "allowed, check, schema and each failure raises ValueError; every value that reaches "
        "set_output (Input) or sdata['input'] / _expired (InputExp) is the *result* of "
        "self._validate on the non-exceptional edge; the rejecting edge has no effect and returns "
        "False; init/restore paths of both classes reach the value only through that validation; "
        "initdef/expired are validated at construction.")
    ck.undecided = UNDECIDED
    prog = ck.prog
    valc = prog.cls(VAL)
    inp = prog.cls(INPUT)
    iexp = prog.cls(INPUTEXP)

    R1 = ck.rule('R17.1', "_validate runs allowed -> check -> schema in this order, each stage "
                 "skipped only when not given, each failure raises ValueError, and returns the "
                 "schema's result when a schema exists", 'M1', 6)
    R2 = ck.rule('R17.2', "every set_output() of Input receives the result of "
                 "self._validate(value); the rejecting edge returns False without effect", 'M1', 1)
    R2b = ck.rule('R17.2b', "init_from_value/_restore_state of Input reach the output only through "
                  "event('put', value=...); get_state is the default; initdef is validated at "
                  "creation; no direct _output write", 'M0', 5)
    R3 = ck.rule('R17.3', "every write of InputExp's value part (sdata['input'], _expired) is a "
                 "self._validate(...) result; calc_output returns only these", 'M1', 4)
    R3r = ck.rule('R17.3r', "the _restore_state that InputExp resolves to passes a restored "
                  "'input' value through self._validate before it is installed", 'M0', 1)

    with ck.section('R17.1'):
        # ------------------------------------------------------------ R17.1
        fi = valc.methods.get('_validate')
        ck.need(R1, fi is not None, "_Validation._validate not found")
        cfg = ck.cfg(fi.fid, 'M1')
        ck.need(R1, fi.node.args.args and len(fi.node.args.args) == 2, "unexpected _validate signature")
        param = fi.node.args.args[1].arg

        def mentions(n, text):
            return any(norm(x) == text for r in node_roots(n) for x in walk_shallow(r))

        # ---- layout-independent decision: abstract run of _validate on every combination of
        # (allowed given? member?, check given? passes?, schema given? converts / raises)
        from sa.minieval import MiniEval
        import itertools as _it
        run_bad = []
        n_run = 0
        for al, mem, chk_, passes, sch, sch_ok in _it.product((False, True), repeat=6):
            if (not al and mem) or (not chk_ and passes) or (not sch and sch_ok):
                continue
            trace = []

            def _check(v, trace=trace, passes=passes):
                trace.append(('check', v))
                return 'yes' if passes else 0      # truthiness decides, not identity with True / False

            def _schema(v, trace=trace, sch_ok=sch_ok):
                trace.append(('schema', v))
                if not sch_ok:
                    raise KeyError('schema failure')
                return ('CONVERTED', v)
            env = {param: 'RAW', 'self._allowed': (('RAW',) if mem else ('other',)) if al else None,
                   'self._check': _check if chk_ else None, 'self._schema': _schema if sch else None}
            try:
                out = MiniEval(R1, env).run(fi.node.body)
            except Exception as err:
                run_bad = None
                ck.note(f"R17.1 abstract run not applicable: {err}")
                break
            n_run += 1
            ck.abstract_cases += 1
            want_trace = []
            want = None
            if al and not mem:
                want = ('raise', 'ValueError')
            else:
                if chk_:
                    want_trace.append(('check', 'RAW'))
                if chk_ and not passes:
                    want = ('raise', 'ValueError')
                else:
                    if sch:
                        want_trace.append(('schema', 'RAW'))
                    want = ('raise', 'ValueError') if (sch and not sch_ok) else \
                        ('return', ('CONVERTED', 'RAW') if sch else 'RAW')
            if out != want or trace != want_trace:
                run_bad.append(f"allowed={'given' if al else 'None'}/member={mem}, check={'given' if chk_ else 'None'}"
                               f"/passes={passes}, schema={'given' if sch else 'None'}/ok={sch_ok}: {out}, calls {trace}; "
                               f"documented {want}, calls {want_trace}")
        run_ok = run_bad is not None and not run_bad
        if run_bad is not None:
            ck.ob(R1, f"{fi.fid} :: abstract run of the three stages", run_ok,
                  f"evaluated on {n_run} combinations: allowed, then check (on the original value), then "
                  f"schema (last, its result returned, its exceptions turned into ValueError)" if run_ok
                  else "; ".join(run_bad[:3]), fi, fi.node)

        allowed_nodes = nodes_where(cfg, lambda n: any(
            isinstance(x, ast.Compare) and any(isinstance(op, (ast.In, ast.NotIn)) for op in x.ops)
            and norm(x.comparators[-1]) == 'self._allowed' for r in node_roots(n) for x in walk_shallow(r)))
        check_nodes = nodes_calling(cfg, '_check', 'self')
        schema_nodes = nodes_calling(cfg, '_schema', 'self')
        ck.ob(R1, f"{fi.fid} :: stages present",
              bool(allowed_nodes) and bool(check_nodes) and bool(schema_nodes),
              f"membership test: {len(allowed_nodes)}, check call: {len(check_nodes)}, schema call: "
              f"{len(schema_nodes)} (each must exist)", fi, fi.node)
        if allowed_nodes and check_nodes and schema_nodes:
            a, c, s = allowed_nodes[0], check_nodes[0], schema_nodes[0]
            def before(x, y):
                # x can be followed by y, y is never followed by x
                return y.id in cfg.reachable_from(x) and x.id not in cfg.reachable_from(y)
            ok = before(a, c) and before(c, s) and before(a, s)
            ck.ob(R1, f"{fi.fid} :: stage order", ok,
                  "the allowed-test precedes the check-call which precedes the schema-call on every "
                  "path" if ok else
                  f"stage order is not allowed -> check -> schema (lines {a.lineno}, {c.lineno}, "
                  f"{s.lineno})", fi, s.ast)
            # arguments are the parameter
            for n, nm in ((c, '_check'), (s, '_schema')):
                call = node_calls(n, nm, 'self')[0]
                rd = ck.rdefs(fi.fid, 'M1')
                good = len(call.args) == 1 and isinstance(call.args[0], ast.Name)
                if good:
                    defs = rd.defs_at(n, call.args[0].id)
                    good = all(d.kind == 'entry' for d in defs) and call.args[0].id == param
                ck.ob(R1, f"{fi.fid} :: argument of self.{nm}", good,
                      f"self.{nm} receives the value being validated" if good else
                      f"self.{nm}({norm(call.args[0]) if call.args else ''}) does not receive the "
                      f"unmodified input value", fi, n.ast)
            # failing stages raise ValueError under the right guards
            raises = nodes_where(cfg, lambda n: isinstance(n.ast, ast.Raise), kinds=('stmt',))

            def find_raise(facts):
                for r in raises:
                    if r.kinds == {'N:ValueError'} and all(cfg.has_guard(r, t, p) for t, p in facts):
                        return r
                return None
            ra = find_raise([('self._allowed is not None', True), (f'{param} in self._allowed', False)])
            ck.ob(R1, f"{fi.fid} :: allowed stage", ra is not None or run_ok,
                  "raises ValueError iff `allowed` is given and the value is not a member" if ra else
                  "no `raise ValueError` guarded by (self._allowed is not None) and "
                  "(value not in self._allowed)", fi, a.ast)
            rc = find_raise([('self._check is not None', True), (f'self._check({param})', False)])
            ck.ob(R1, f"{fi.fid} :: check stage", rc is not None or run_ok,
                  "raises ValueError iff `check` is given and returns a false value" if rc else
                  "no `raise ValueError` guarded by (self._check is not None) and "
                  "(not self._check(value))", fi, c.ast)
            # a stage must not be skipped (nor its failure ignored) for any other reason
            extra_a = [t for t, p in (cfg.guard_texts(ra) if ra else ()) if '_allowed' not in t]
            extra_c = [t for t, p in (cfg.guard_texts(rc) if rc else ())
                       if '_allowed' not in t and '_check' not in t]
            ck.ob(R1, f"{fi.fid} :: stages unconditional", not extra_a and not extra_c,
                  "the rejections of the allowed and check stages depend only on their own tests"
                  if not extra_a and not extra_c else
                  f"a stage's rejection additionally depends on {extra_a + extra_c}", fi, a.ast)
            # schema stage: guarded by is-not-None only, exceptions converted to ValueError
            gs = cfg.has_guard(s, 'self._schema is not None', True)
            bad_path = None
            for v, lab in cfg.succ[s.id]:
                if lab == 'exc':
                    vn = cfg.nodes[v]
                    conv = [r for r in raises if r.kinds == {'N:ValueError'}]
                    bad_path = cfg.path_avoiding(vn, [cfg.raise_exit], avoid=conv)
                    if bad_path is None:
                        # and the handler must not fall through to a normal return
                        bad_path = cfg.path_avoiding(vn, [cfg.exit], avoid=conv)
            ck.ob(R1, f"{fi.fid} :: schema stage", (gs and bad_path is None) or run_ok,
                  "schema applied iff given; any exception it raises leaves as ValueError"
                  if gs and bad_path is None else
                  ("the schema call is not guarded by `self._schema is not None`" if not gs else
                   "an exception of the schema function can leave _validate unconverted or be "
                   "swallowed"), fi, s.ast, witness=path_witness(cfg, bad_path))
            # return value: the schema result flows to the return
            rets = return_nodes(cfg)
            rd = ck.rdefs(fi.fid, 'M1')
            ok = bool(rets)
            why = []
            for r in rets:
                v = r.ast.value
                if not isinstance(v, ast.Name):
                    ok = False
                    why.append(f"`{norm1(r.ast)}` does not return a plain value variable")
                    continue
                defs = rd.defs_at(r, v.id)
                kinds = set()
                for d in defs:
                    if d.kind == 'entry' and v.id == param:
                        kinds.add('param')
                    elif d is s:
                        kinds.add('schema')
                    else:
                        kinds.add('other')
                        why.append(f"`{v.id}` may come from `{norm1(d.ast)}`")
                if 'schema' not in kinds:
                    ok = False
                    why.append("the schema's result does not reach the return statement")
                if 'other' in kinds:
                    ok = False
                # on paths through the schema stage the raw parameter must be overwritten
                if 'param' in kinds:
                    p = cfg.path_avoiding(cfg.entry, [r], avoid=[s])
                    if p is not None and any(n.kind == 'branch' and n.polarity and
                                             'self._schema' in norm(n.test.ast) and
                                             'is not None' in norm(n.test.ast) for n in p):
                        ok = False
                        why.append("a path with a schema returns the raw value")
            ck.ob(R1, f"{fi.fid} :: returned value", ok or run_ok,
                  "returns schema(value) when a schema exists, else the value" if ok
                  else '; '.join(why), fi, rets[0].ast if rets else fi.node)

    R6 = ck.rule('R17.6', "the caller learns the verdict: True for an accepted put and False for a rejected one travel "
                 "unchanged through every event() override between the handler and the caller (the persistence "
                 "add-on saves the state and still returns the handler's result)", 'M0', 1)
    with ck.section('R17.6'):
        from rules.shared import event_result_passed_on
        event_result_passed_on(ck, R6, 'blocklib.sblocks2:Input')
        event_result_passed_on(ck, R6, 'blocklib.sblocks2:InputExp')
    with ck.section('R17.2'):
        # ------------------------------------------------------------ R17.2 (Input)
        # layout-independent decision for the put handler: abstract run with a validator that accepts
        # (returning a converted value) or rejects (ValueError); helper methods are stepped into
        from sa.minieval import MiniEval

        def _resolver(ci):
            def resolve(text):
                if text.startswith('self.') and text[5:].isidentifier() and text[5:] not in ('_validate', 'set_output'):
                    f_ = prog.resolve_method(ci, text[5:])
                    if f_ is not None and not prog.is_dummy(f_) and f_.module.name == ci.module.name:
                        return f_.node
                return None
            return resolve
        put = inp.methods.get('_event_put')
        ck.need(R2, put is not None, "Input._event_put not found")
        put_run_ok = None
        try:
            bad_ = []
            for accept in (True, False):
                outs = []

                def _val(v, accept=accept):
                    if not accept:
                        raise ValueError('rejected')
                    return ('VALIDATED', v)
                env = {'value': 'RAW', 'self._validate': _val, 'self.set_output': lambda v, outs=outs: outs.append(v)}
                kw_ = put.node.args.kwarg.arg if put.node.args.kwarg else None
                if kw_:
                    env[kw_] = _OtherItems()    # any other data item of the event: must not reach the output
                res = MiniEval(R2, env, resolve=_resolver(inp)).run(put.node.body)
                ck.abstract_cases += 1
                want = (('return', True), [('VALIDATED', 'RAW')]) if accept else (('return', False), [])
                if (res, outs) != want:
                    bad_.append(f"validator {'accepts' if accept else 'rejects'}: returns {res}, outputs {outs}")
            put_run_ok = not bad_
            ck.ob(R2, f"{put.fid} :: abstract run", put_run_ok,
                  "an accepted value is output in its validated form and True is returned; a rejected value "
                  "leaves the output alone and returns False" if put_run_ok else "; ".join(bad_), put, put.node)
        except AnalysisError as err:
            ck.note(f"R17.2 abstract run of Input._event_put not applicable: {err.reason}")
        n_sites = 0
        for name, m in sorted(inp.methods.items()):
            if m is put and put_run_ok:
                n_sites += 1
                continue
            g = ck.cfg(m.fid, 'M1')
            for n in nodes_calling(g, 'set_output'):
                for call in node_calls(n, 'set_output'):
                    n_sites += 1
                    ok, why = (False, 'unexpected call shape')
                    if len(call.args) == 1:
                        ok, why = _validated_value(ck, m, g, n, call.args[0])
                    ck.ob(R2, f"{m.fid} :: {norm1(n.ast)}", ok, why, m, n.ast)
        g = ck.cfg(put.fid, 'M1')
        vnodes = nodes_where(g, lambda n: any(_is_validate_call(c) for c in node_calls(n)))
        ck.need(R2, vnodes or put_run_ok, "Input._event_put does not call self._validate")
        if vnodes:
            so = nodes_calling(g, 'set_output')
            # validate receives the event's value item
            call = [c for c in node_calls(vnodes[0]) if _is_validate_call(c)][0]
            rd = ck.rdefs(put.fid, 'M1')
            arg_ok = (len(call.args) == 1 and isinstance(call.args[0], ast.Name)
                      and call.args[0].id == 'value'
                      and all(d.kind == 'entry' for d in rd.defs_at(vnodes[0], 'value')))
            ck.ob(R2, f"{put.fid} :: validated operand", arg_ok,
                  "self._validate receives the event's `value` item" if arg_ok else
                  f"self._validate({norm(call.args[0]) if call.args else ''}) is not applied to the "
                  f"event's unmodified `value` item", put, vnodes[0].ast)
            # rejecting edge: handler -> return False, no set_output
            hnodes = [n for n in g.nodes if n.kind == 'handler' and g.pred[n.id]]
            rej_ok = bool(hnodes)
            wit = None
            for h in hnodes:
                reach = g.reachable_from(h)
                if any(s.id in reach for s in so):
                    rej_ok = False
                    wit = g.path_avoiding(h, so)
                rets = [r for r in return_nodes(g) if r.id in reach]
                if not rets or not all(is_const(r.ast.value, False) for r in rets):
                    rej_ok = False
                if g.exit.id in reach and must_pass(g, h, rets, [g.exit]) is not None:
                    rej_ok = False
            ck.ob(R2, f"{put.fid} :: rejecting edge", rej_ok,
                  "a rejected value returns False and never reaches set_output" if rej_ok else
                  "the ValueError edge of self._validate reaches set_output or does not return False",
                  put, hnodes[0].ast if hnodes else put.node, witness=path_witness(g, wit))
            # accepted path returns True after set_output
            acc_rets = [r for r in return_nodes(g) if so and any(g.dominates(s, r) for s in so)]
            acc_ok = bool(acc_rets) and all(is_const(r.ast.value, True) for r in acc_rets)
            p = must_pass(g, so[0], acc_rets, [g.exit]) if so else None
            ck.ob(R2, f"{put.fid} :: accepting edge", acc_ok and p is None and bool(so),
                  "an accepted value is stored and the event returns True" if acc_ok and p is None else
                  "after set_output the handler does not return True on every path", put,
                  so[0].ast if so else put.node, witness=path_witness(g, p))


    with ck.section('R17.2b'):
        # ------------------------------------------------------------ R17.2b
        for hook in ('init_from_value', '_restore_state'):
            t = prog.resolve_method(inp, hook)
            ok = False
            why = "not defined"
            if t is not None and not prog.is_dummy(t):
                g2 = ck.cfg(t.fid, 'M0')
                direct = nodes_calling(g2, 'set_output') + nodes_writing_attr(g2, '_output', None)
                evs = nodes_where(g2, lambda n: any(
                    isinstance(c.func, ast.Attribute) and c.func.attr == 'event'
                    and recv(c) == 'self' and c.args and is_const(c.args[0], 'put')
                    and any(k.arg == 'value' and isinstance(k.value, ast.Name)
                            and k.value.id == t.node.args.args[1].arg for k in c.keywords)
                    for c in node_calls(n)))
                if direct:
                    why = f"{t.fid} sets the output directly, bypassing the validation"
                elif not evs or must_pass(g2, g2.entry, evs, [g2.exit]) is not None:
                    why = f"{t.fid} does not deliver its argument as event('put', value=...)"
                else:
                    ok = True
                    why = f"{hook} -> {t.fid}: delivers the value as a 'put' event (validated there)"
            ck.ob(R2b, f"{INPUT}.{hook}", ok, why, t, t.node if t is not None else None)
        gs = prog.resolve_method(inp, 'get_state')
        ck.ob(R2b, f"{INPUT}.get_state", gs is not None and gs.fid == 'block:SBlock.get_state',
              f"get_state resolves to {gs.fid if gs else None} (state = output)", gs,
              gs.node if gs else None)
        init = inp.methods.get('__init__')
        ck.need(R2b, init is not None, "Input.__init__ not found")
        g3 = ck.cfg(init.fid, 'M0')
        vcalls = nodes_where(g3, lambda n: any(_is_validate_call(c) and len(c.args) == 1
                                               and norm(c.args[0]) == 'self.initdef'
                                               for c in node_calls(n)))
        ok = False
        why = "Input.__init__ does not validate self.initdef"
        if vcalls:
            v = vcalls[0]
            other = [gt for gt in g3.guard_texts(v) if 'initdef' not in gt[0]]
            skipping = g3.path_avoiding(g3.entry, [g3.exit], avoid=[v])
            ok = not other
            if skipping is not None:
                # a path skipping the validation must go through the `initdef is UNDEF` branch
                ok = ok and any(n.kind == 'branch' and 'initdef' in norm(n.test.ast) and 'UNDEF' in
                                norm(n.test.ast) for n in skipping)
            why = ("initdef is validated at creation unless it is UNDEF" if ok else
                   "the validation of initdef can be skipped for a reason other than initdef being UNDEF")
        ck.ob(R2b, f"{init.fid} :: initdef validated", ok, why, init, init.node)
        nd = 0
        for cls in (inp, iexp, valc):
            for name, m in sorted(cls.methods.items()):
                for n in nodes_writing_attr(ck.cfg(m.fid, 'M0'), '_output', None):
                    nd += 1
                    ck.ob(R2b, f"{m.fid} :: {norm1(n.ast)}", False,
                          "writes _output directly (no validation, no notification)", m, n.ast)
        ck.ob(R2b, "Input/InputExp/_Validation :: direct _output writes", nd == 0,
              f"{nd} direct writes of _output in the three classes", None,
              f"{inp.module.path}:{inp.node.lineno}")

    with ck.section('R17.3'):
        # ------------------------------------------------------------ R17.3 (InputExp)
        cp = iexp.methods.get('cond_put')
        ck.need(R3, cp is not None, "InputExp.cond_put not found")
        cp_run_ok = None
        try:
            bad_ = []
            for accept, prior in ((True, None), (False, None), (True, 'same'), (True, 'other'), (False, 'same')):
                # prior: the block already holds a value (the same one: a periodic refresh, which must be
                # accepted like any other put - it restarts the expiration)
                sd = {'other': 1}
                if prior is not None:
                    sd['input'] = ('VALIDATED', 'RAW') if prior == 'same' else ('VALIDATED', 'OLD')
                sd0 = dict(sd)

                def _val(v, accept=accept):
                    if not accept:
                        raise ValueError('rejected')
                    return ('VALIDATED', v)
                env = {'fsm.fsm_event_data.get()': {'value': 'RAW'}, 'fsm_event_data.get()': {'value': 'RAW'},
                       'self._validate': _val, 'self.sdata': sd, 'block.UNDEF': _UNDEF17, 'UNDEF': _UNDEF17,
                       'self._state': 'valid' if prior else 'expired', 'self.state': 'valid' if prior else 'expired'}
                res = MiniEval(R3, env, resolve=_resolver(iexp)).run(cp.node.body)
                ck.abstract_cases += 1
                want = (('return', True), {'other': 1, 'input': ('VALIDATED', 'RAW')}) if accept else \
                    (('return', False), sd0)
                if (res, sd) != want:
                    bad_.append(f"validator {'accepts' if accept else 'rejects'}"
                                + (f", block already holds {'the same' if prior == 'same' else 'another'} value"
                                   if prior else '') + f": returns {res}, sdata {sd}")
            cp_run_ok = not bad_
            ck.ob(R3, f"{cp.fid} :: abstract run", cp_run_ok,
                  "an accepted value is stored in its validated form and the condition is true; a rejected "
                  "value is not stored and the condition is false" if cp_run_ok else "; ".join(bad_), cp, cp.node)
        except AnalysisError as err:
            ck.note(f"R17.3 abstract run of InputExp.cond_put not applicable: {err.reason}")
        for name, m in sorted(iexp.methods.items()):
            if m is cp and cp_run_ok:
                continue
            g = ck.cfg(m.fid, 'M1')
            for n in nodes_where(g, lambda n: n.kind == 'stmt'):
                for tgt, kind, stmt in subscript_writes(n.ast):
                    if norm(tgt.value) == 'self.sdata' and is_const(tgt.slice, 'input'):
                        if kind == 'del':
                            continue
                        ok, why = (False, "augmented assignment")
                        if kind == 'assign' and isinstance(stmt, ast.Assign):
                            ok, why = _validated_value(ck, m, g, n, stmt.value)
                        ck.ob(R3, f"{m.fid} :: {norm1(stmt)}", ok, why, m, stmt)
                for w in ([n] if n in nodes_writing_attr(g, '_expired') else []):
                    v = w.ast.value if isinstance(w.ast, ast.Assign) else None
                    ok, why = _validated_value(ck, m, g, w, v) if v is not None else (False, 'no value')
                    ck.ob(R3, f"{m.fid} :: {norm1(w.ast)}", ok, why, m, w.ast)
                for w in ([n] if n in nodes_writing_attr(g, 'sdata') else []):
                    ck.ob(R3, f"{m.fid} :: {norm1(w.ast)}", False,
                          "replaces self.sdata wholesale without validating its 'input' item",
                          m, w.ast)
        g = ck.cfg(cp.fid, 'M1')
        hn = [n for n in g.nodes if n.kind == 'handler' and g.pred[n.id]]
        writes = nodes_where(g, lambda n: n.kind == 'stmt' and any(
            norm(t.value) == 'self.sdata' for t, k, s in subscript_writes(n.ast)))
        ok = bool(hn) and bool(writes)
        wit = None
        for h in hn:
            reach = g.reachable_from(h)
            if any(w.id in reach for w in writes):
                ok = False
                wit = g.path_avoiding(h, writes)
            rets = [r for r in return_nodes(g) if r.id in reach]
            if not rets or not all(is_const(r.ast.value, False) for r in rets):
                ok = False
        acc = [r for r in return_nodes(g) if writes and any(g.dominates(w, r) for w in writes)]
        ok = ok and bool(acc) and all(is_const(r.ast.value, True) for r in acc)
        ck.ob(R3, f"{cp.fid} :: accept/reject edges", ok or bool(cp_run_ok),
              "a rejected value returns False without storing; an accepted one is stored and returns "
              "True" if ok else "cond_put stores on the rejecting edge or returns the wrong verdict",
              cp, cp.node, witness=path_witness(g, wit))
        co = prog.resolve_method(iexp, 'calc_output')
        ck.need(R3, co is not None, "InputExp.calc_output not found")
        g = ck.cfg(co.fid, 'M0')
        leaves = []

        def leaf(e):
            if isinstance(e, ast.IfExp):
                leaf(e.body)
                leaf(e.orelse)
            else:
                leaves.append(norm(e))
        for r in return_nodes(g):
            if r.ast.value is not None:
                leaf(r.ast.value)
        allowed_leaves = {"self.sdata['input']", "self._expired"}
        ok = co.cls is iexp and bool(leaves) and set(leaves) <= allowed_leaves \
            and set(leaves) == allowed_leaves
        ck.ob(R3, f"{co.fid} :: returned values", ok,
              f"calc_output returns only {sorted(allowed_leaves)}" if ok else
              f"calc_output of InputExp ({co.fid}) may return {sorted(set(leaves))}; expected exactly "
              f"the validated value and the validated `expired` value", co, co.node)

    with ck.section('R17.3r'):
        # ------------------------------------------------------------ R17.3r (restore)
        rs = prog.resolve_method(iexp, '_restore_state')
        ck.need(R3r, rs is not None, "InputExp has no _restore_state")
        ok = False
        why = (f"_restore_state of InputExp resolves to {rs.fid}, which installs the stored sdata "
               f"(incl. 'input') without calling self._validate: a persisted value outside the "
               f"accepted set becomes the output after a restart")
        wit = None
        if rs.cls in (iexp, valc):
            g = ck.cfg(rs.fid, 'M0')
            vn = nodes_where(g, lambda n: any(_is_validate_call(c) for c in node_calls(n)))
            installs = nodes_where(g, lambda n: any(is_super_call(c, '_restore_state')
                                                    for c in node_calls(n))) + \
                nodes_writing_attr(g, 'sdata')
            if not vn:
                why = f"{rs.fid} does not call self._validate"
            elif not installs:
                why = f"{rs.fid} neither calls super()._restore_state nor installs sdata"
            else:
                skip_ok = [n for n in g.nodes if n.kind == 'branch' and not n.polarity
                           and "'input'" in norm(n.test.ast)]
                p = g.path_avoiding(g.entry, installs, avoid=vn + skip_ok)
                # the validated result must be what is installed: the validate call's value is used
                used = any(isinstance(n.ast, (ast.Assign, ast.AnnAssign)) or
                           any(isinstance(x, (ast.Dict, ast.Subscript)) for x in walk_shallow(n.ast))
                           for n in vn)
                if p is None and used:
                    ok = True
                    why = (f"{rs.fid}: a stored 'input' value passes self._validate before the state "
                           f"is installed")
                else:
                    wit = p
                    why = (f"{rs.fid}: the state can be installed without validating the stored "
                           f"'input' value" if p is not None else
                           f"{rs.fid}: the validation result is discarded")
        ck.ob(R3r, f"{INPUTEXP}._restore_state", ok, why, rs, rs.node,
              witness=path_witness(ck.cfg(rs.fid, 'M0'), wit) if wit else None)
        # the same, decided on every shape of a stored FSM state (state, expiry[, sdata]): what reaches
        # the parent's _restore_state holds the VALIDATED input whenever an input was stored, and is
        # otherwise unchanged
        if rs.cls is iexp and len(rs.node.args.posonlyargs + rs.node.args.args) == 2:
            from sa.minieval import MiniEval
            par = (rs.node.args.posonlyargs + rs.node.args.args)[1].arg
            shapes = [('valid', 17.5), ('valid', 17.5, {}), ('valid', 17.5, {'input': 'RAW'}),
                      ('valid', 17.5, {'input': 'RAW', 'other': 1}), ('expired', None, {'input': 'RAW'}),
                      ['valid', 17.5, {'input': 'RAW'}]]
            bad = []
            for st_ in shapes:
                got = []
                env = {par: st_, 'self._validate': lambda v: ('VALIDATED', v),
                       'super()._restore_state': lambda x, got=got: got.append(x)}
                out = MiniEval(R3r, env).run(rs.node.body)
                ck.abstract_cases += 1
                want = list(st_)
                if len(st_) > 2 and 'input' in st_[2]:
                    want = [st_[0], st_[1], {**st_[2], 'input': ('VALIDATED', st_[2]['input'])}]
                okc = out[0] == 'return' and len(got) == 1 and list(got[0]) == want
                if not okc:
                    bad.append(f"stored state {st_!r}: the parent receives "
                               f"{got[0] if got else None!r} ({out[0]}), must be {want!r}")
            ck.ob(R3r, f"{INPUTEXP}._restore_state :: all stored shapes", not bad,
                  f"evaluated on {len(shapes)} shapes of the stored state: a stored input is replaced by "
                  f"its validated form, everything else is handed on unchanged" if not bad else
                  "; ".join(bad[:3]), rs, rs.node)


class _OtherItems(dict):
    """The remaining data items of an event (**_data): whatever key is read, a marker comes back, so a
    value that depends on anything but the validated `value` is visible in the outcome of the run."""

    def __contains__(self, key):
        return True

    def __getitem__(self, key):
        return ('OTHER-ITEM', key)

    def get(self, key, default=None):
        return ('OTHER-ITEM', key)
