"""C01 -- Combinational outputs agree with their inputs whenever the circuit is idle."""
from __future__ import annotations

import ast

from sa.loader import AnalysisError, recv, norm, norm1, walk_shallow, own_nodes, call_name, is_super_call
from sa.absval import Interp
from sa.dataflow import node_defs
from sa.rulekit import (nodes_where, node_calls, node_roots, nodes_calling, return_nodes, own,
                        nodes_writing_attr, must_pass, check_must_pass, is_const, written_value,
                        expr_is, kw)
from sa.report import path_witness
from sa.cfg import canon_fact, decompose
from rules.simloop import SimLoop, SIMULATE
from rules.wiring import wiring_rules

UNDECIDED = [
    "that user FuncBlock functions compute what their authors intend, Compare's arithmetic on "
    "concrete numbers, Xor for more than 4 inputs -- value level; the library functions are decided "
    "on finite abstract domains only: Not (truthiness), And/Or (function table), Xor (parity on "
    "all vectors of 0..4 inputs), Override (equality pattern), Compare (threshold selection table "
    "and comparator), FuncBlock's unpack switch, declared vs read input names",
    "enumeration of circuits and event sequences -- the idle-consistency follows from the "
    "work-list invariants R01.1-R01.8, which are the necessary conditions decided here",
]

CONN_MUTATORS = ('add', 'update', 'discard', 'remove', 'clear', 'pop', 'difference_update',
                 'intersection_update', 'symmetric_difference_update')


def run(ck):
    ck.explanation = (
        "The simulator is a chaotic-iteration work-list solver; 'idle => every combinational "
        "equation holds' follows from local invariants visible in the code: complete initial "
        "work-list, every queue notification honoured (must-use of dequeued items), removed => "
        "evaluated, changed => successors scheduled, idle only with nothing pending, output "
        "change => notification, what is written is what was computed, symmetric wiring, declared "
        "input names = read input names. Each is decided on the CFG of Circuit._simulate, "
        "SBlock.set_output, CBlock.eval_block, Circuit._finalize and the library CBlocks.")
    ck.undecided = UNDECIDED
    prog = ck.prog

    R1 = ck.rule('R01.1', "the initial work-list holds all combinational blocks", 'M0', 1)
    R2 = ck.rule('R01.2', "every dequeued notification is honoured: its oconnections are added to "
                 "the work-list before the item is dropped (only the documented drain before "
                 "_simulate may discard)", 'M0', 3)
    R3 = ck.rule('R01.3', "removed => evaluated: every block taken from the work-list reaches "
                 "eval_block()", 'M0', 2)
    R4 = ck.rule('R01.4', "changed => successors scheduled: a truthy eval_block() result adds the "
                 "block's oconnections to the work-list", 'M0', 1)
    R5 = ck.rule('R01.5', "idle => nothing pending: the only await is queue.get() under "
                 "work-list empty and queue empty", 'M0', 1)
    R6 = ck.rule('R01.6', "output change => notification: after writing _output, set_output "
                 "enqueues self on the circuit's queue on every normal path; _output has no other "
                 "writers", 'M0', 4)
    R7 = ck.rule('R01.7', "eval_block stores exactly calc_output()'s result, returns True iff it "
                 "stored, and skips only for equal values", 'M0', 4)
    R8 = ck.rule('R01.8', "wiring is symmetric: iconnections.add and oconnections.add come in "
                 "pairs under the same not-Const guard; both input shapes are resolved, collected "
                 "and written back; nobody else mutates the connection sets", 'M0', 6)
    R9 = ck.rule('R01.9', "names read = names declared for Not/Compare/Override; InputGetter "
                 "returns the stored blocks' outputs", 'M0', 5)
    R10 = ck.rule('R01.10', "library functions: Not negates its input (truthiness table); And/Or "
                  "apply all/any to the whole group; FuncBlock honours unpack", 'M0', 5)

    R11 = ck.rule('R01.11', "Compare: the threshold is (low+high)/2 before the first output, "
                  "`high` while the output is False and `low` while it is True (truthiness domain of "
                  "the previous output, 3 cases); output = input >= threshold", 'truthiness domain', 5)

    R12 = ck.rule('R01.12', "Override passes the input iff the override value equals null_value "
                  "(complete on the equality pattern); Xor is the parity of the true inputs (all "
                  "truthiness vectors of 0..4 inputs)", 'key-equality / truthiness domain', 3)

    with ck.section('R01.1'):
        sl = SimLoop(ck, R1)
        g, fi = sl.cfg, sl.fi
        W = sl.W

        # ------------------------------------------------------------------ R01.1
        wdefs = [n for n in g.nodes if n.kind == 'stmt' and W in node_defs(n) and n.id not in sl.loop_nodes
                 and g.dominates(n, sl.head)]
        ok = len(wdefs) == 1 and isinstance(wdefs[0].ast, ast.Assign)
        if ok:
            v = wdefs[0].ast.value
            ok = isinstance(v, ast.Call) and call_name(v) in ('set', 'list') and len(v.args) == 1 and \
                isinstance(v.args[0], ast.Call) and call_name(v.args[0]) == 'getblocks' and \
                [norm(a) for a in v.args[0].args] == ['block.CBlock']
        ck.ob(R1, f"{SIMULATE} :: initial {W}", ok,
              f"{W} = set(self.getblocks(block.CBlock)): everything is evaluated on the first run"
              if ok else f"the initial work-list is not the set of all CBlocks", fi,
              wdefs[0].ast if wdefs else fi.node)

    with ck.section('R01.2'):
        # ------------------------------------------------------------------ R01.2
        for gn in sl.get_nodes:
            a = gn.ast
            var = a.targets[0].id if isinstance(a, ast.Assign) and isinstance(a.targets[0], ast.Name) else None
            if var is None and sl._union_of(gn) is not None and sl._union_of(gn)[0] == W and \
                    any(call_name(c) in ('get', 'get_nowait') and norm(c) == sl._union_of(gn)[1].replace('await ', '')
                        for c in node_calls(gn)):
                ck.ob(R2, f"{SIMULATE} :: {norm1(a)}", True,
                      f"{W} receives the oconnections of the dequeued block in the same statement", fi, a)
                continue
            if var is None:
                ck.ob(R2, f"{SIMULATE} :: {norm1(a)}", False,
                      "a queue item is removed without being bound (the notification is lost)", fi, a)
                continue
            consumers = sl.unions_for(var)
            redefs = [n for n in g.nodes if n is not gn and var in node_defs(n)]
            p = g.path_avoiding(gn, [sl.head, g.exit] + redefs + [gn], avoid=consumers,
                                start_successors_only=True)
            ck.ob(R2, f"{SIMULATE} :: {norm1(a)}", p is None and bool(consumers),
                  f"{W} receives {var}.oconnections before {var} is dropped" if p is None and consumers
                  else f"the block taken from the queue by `{norm1(a)}` can be dropped without "
                  f"scheduling the blocks connected to its output", fi, a, witness=path_witness(g, p))
        ck.need(R2, len(sl.get_nodes) >= 2, "_simulate: fewer queue removals than confirmed by hand")
        # the permitted discard in _init_sblocks_sync_2 precedes _simulate
        rf = prog.func('simulator:Circuit.run_forever')
        grf = ck.cfg(rf.fid, 'M0')
        s2 = nodes_calling(grf, '_init_sblocks_sync_2')
        sim = nodes_calling(grf, '_simulate')
        ok = len(s2) == 1 and len(sim) == 1 and grf.dominates(s2[0], sim[0])
        ck.ob(R2, f"{rf.fid} :: drain before simulate", ok,
              "the queue is drained (discarding) only before _simulate starts with a complete "
              "work-list" if ok else "the discarding drain does not strictly precede _simulate", rf,
              sim[0].ast if sim else rf.node)
        # no other consumer of the queue in the package
        n_other = 0
        for f2 in prog.pkg_funcs():
            if f2.fid in (SIMULATE, 'simulator:Circuit._init_sblocks_sync_2'):
                continue
            for c in [x for x in own_nodes(f2.node) if isinstance(x, ast.Call)]:
                if call_name(c) in ('get', 'get_nowait') and 'sblock_queue' in norm(c.func):
                    n_other += 1
                    ck.ob(R2, f"{f2.fid} :: {norm(c)}", False,
                          "a third party removes notifications from the simulator's queue", f2, c)
        ck.ob(R2, "other consumers of sblock_queue", n_other == 0,
              f"{n_other} other consumer(s)", None, 'edzed/simulator.py:1')

    with ck.section('R01.3'):
        # ------------------------------------------------------------------ R01.3
        from rules.simloop import removed_implies_evaluated
        removed_implies_evaluated(ck, R3, sl)

    with ck.section('R01.4'):
        # ------------------------------------------------------------------ R01.4
        for e, x_, res_ in sl.sites:
            ck.need(R4, res_ is not None, "_simulate: the eval_block() result is not bound to a local")
            sched = sl.unions_for(x_)
            falsy = [n for n in g.nodes if n.kind == 'branch' and g.has_guard(n, res_, False)
                     and not g.has_guard(n.test, res_, False)]
            p = g.path_avoiding(e, [sl.head, g.exit], avoid=sched + falsy, start_successors_only=True)
            # exceptional edge of eval (M0 has none); the union must use the same block
            ck.ob(R4, f"{SIMULATE} :: changed => {W} |= {x_}.oconnections" +
                  ('' if len(sl.sites) == 1 else f" ({norm1(e.ast)})"), p is None and bool(sched),
                  "a truthy result always schedules the successors of the evaluated block"
                  if p is None and sched else
                  "after a changed output the blocks connected to it are not (always) scheduled", fi,
                  e.ast, witness=path_witness(g, p))

    with ck.section('R01.5'):
        # ------------------------------------------------------------------ R01.5
        idle = sl.idle_get()
        ok = len(idle) == 1 and len(sl.await_nodes) == 1 and sl.idle_facts(idle[0])
        ck.ob(R5, f"{SIMULATE} :: idle point", ok,
              "the simulator yields only in `await queue.get()` with empty work-list and empty queue"
              if ok else "the simulator can yield (be observed idle) with pending evaluations", fi,
              idle[0].ast if idle else fi.node)

    with ck.section('R01.6'):
        # ------------------------------------------------------------------ R01.6
        so = prog.func('block:SBlock.set_output')
        from rules.shared import set_output_run, set_output_helpers
        run_ = set_output_run(ck)
        if run_['applicable']:
            bad_ = run_['bad']
            ck.ob(R6, f"{so.fid} :: abstract run :: a change is stored and queued", not bad_['changes'],
                  f"on all {run_['cases']} cases a value that compares unequal to the previous output is "
                  "stored and the block is queued for the simulator exactly once" if not bad_['changes']
                  else '; '.join(bad_['changes'][:3]), so, so.node)
            ck.ob(R6, f"{so.fid} :: abstract run :: queued before any delivery", not bad_['queued first'],
                  "the write and the enqueue precede the first event (also when that delivery raises)"
                  if not bad_['queued first'] else '; '.join(bad_['queued first'][:3]), so, so.node)
            ck.ob(R6, f"{so.fid} :: abstract run :: UNDEF refused", not bad_['undef'],
                  "UNDEF is refused as an output value" if not bad_['undef'] else '; '.join(bad_['undef']),
                  so, so.node)
            if not (bad_['changes'] or bad_['queued first'] or bad_['undef']):
                from rules.shared import shapes_backed_by_run
                shapes_backed_by_run(ck, lambda: _set_output_shape(ck, R6, so), 'SBlock.set_output')
        else:
            ck.note(f"abstract run of set_output not applicable: {run_['why']}")
            _set_output_shape(ck, R6, so)
        helper_writers = {f_.fid: 'private helper of SBlock called by set_output only'
                          for f_ in set_output_helpers(ck)}
        own(ck, R6, '_output', {
            'block:Block.__init__': 'initial UNDEF', 'block:CBlock.eval_block': 'combinational result',
            so.fid: 'the setter of sequential blocks', 'block:Const.__init__': 'Const is not a Block',
            **helper_writers})

    with ck.section('R01.7'):
        # ------------------------------------------------------------------ R01.7
        eb = prog.func('block:CBlock.eval_block')
        ge = ck.cfg(eb.fid, 'M0')
        ws = nodes_writing_attr(ge, '_output')
        ck.need(R7, len(ws) == 1, "CBlock.eval_block: expected exactly one write of _output")
        v = written_value(ws[0], '_output')
        rd = ck.rdefs(eb.fid, 'M0')
        vals = rd.value_exprs(ws[0], v.id) if isinstance(v, ast.Name) else [v]
        ok = bool(vals) and all(not isinstance(x, str) and norm(x) == 'self.calc_output()' for x in vals)
        ck.ob(R7, f"{eb.fid} :: stored value", ok,
              "the stored output is calc_output()'s result" if ok else
              "eval_block stores something else than the result of self.calc_output()", eb, ws[0].ast)
        rets = return_nodes(ge)
        tr = [r for r in rets if is_const(r.ast.value, True)]
        fa = [r for r in rets if is_const(r.ast.value, False)]
        ok = bool(tr) and bool(fa) and len(tr) + len(fa) == len(rets) and \
            all(ge.dominates(ws[0], r) for r in tr) and \
            all(r.id not in ge.reachable_from(ws[0]) for r in fa) and \
            must_pass(ge, ws[0], tr, [ge.exit]) is None
        if not ok and len(rets) >= 1 and not tr:
            # flag style: `return <the very test that guards the write>` (true on the storing path,
            # false on every path that avoids the write)
            wfacts = {canon_fact(e_, p_) for e_, p_ in ge.guards(ws[0])}
            flag_rets = [r for r in rets if r.ast.value is not None and canon_fact(r.ast.value, True) in wfacts]
            other = [r for r in rets if r not in flag_rets]
            br = [n for n in ge.nodes if n.kind == 'branch' and flag_rets and any(
                canon_fact(e_, p_) == canon_fact(flag_rets[0].ast.value, True)
                for e_, p_ in decompose(n.test.ast, n.polarity))]
            ok = bool(flag_rets) and all(is_const(r.ast.value, False) and r.id not in ge.reachable_from(ws[0])
                                         for r in other) and bool(br) and \
                ge.path_avoiding(br[0], [ge.exit], avoid=ws) is None
        ck.ob(R7, f"{eb.fid} :: change indicator", ok,
              "returns True exactly on the path that stored a new value" if ok else
              "the change indicator does not correspond to 'a new value was stored'", eb, eb.node)
        prev_defs = nodes_where(ge, lambda n: isinstance(n.ast, ast.Assign) and
                                norm(n.ast.value) == 'self._output')
        pname = norm(prev_defs[0].ast.targets[0]) if prev_defs else None
        vname = v.id if isinstance(v, ast.Name) else None
        eq_t = {canon_fact(ast.parse(t_, mode='eval').body, True) for t_ in
                (f'{pname} == {vname}', f'{vname} == {pname}')} if pname and vname else set()
        eqT_nodes = [n for n in ge.nodes if n.kind == 'branch' and any(
            canon_fact(e_, p_) in eq_t for e_, p_ in decompose(n.test.ast, n.polarity))]
        ok = bool(pname) and bool(vname) and bool(eqT_nodes) and \
            ge.path_avoiding(ge.entry, [ge.exit], avoid=ws + eqT_nodes) is None and \
            (ge.has_guard(ws[0], f'{pname} == {vname}', False) or
             ge.has_guard(ws[0], f'{vname} == {pname}', False))
        ok = ok and all(ge.dominates(p, ws[0]) and p.id not in ge.reachable_from(ws[0]) for p in prev_defs)
        ck.ob(R7, f"{eb.fid} :: skip only for equal values", bool(ok),
              "the no-change exit is taken exactly when old == new (equality, not identity)" if ok else
              "the no-change test is not an equality comparison of the previous and the new value",
              eb, fa[0].ast if fa else eb.node)
        undef = nodes_where(ge, lambda n: isinstance(n.ast, ast.Raise) and
                            any('UNDEF' in t and p for t, p in ge.guard_texts(n)), kinds=('stmt',))
        ck.ob(R7, f"{eb.fid} :: UNDEF refused", bool(undef), "an UNDEF result raises", eb, eb.node)
        from rules.shared import undef_refused_everywhere
        undef_refused_everywhere(ck, R7)

    with ck.section('R01.8'):
        # ------------------------------------------------------------------ R01.8
        wiring_rules(ck, R8)

    with ck.section('R01.9'):
        # ------------------------------------------------------------------ R01.9
        for q in ('blocklib.cblocks:Not', 'blocklib.cblocks:Compare', 'blocklib.cblocks:Override'):
            ci = prog.cls(q)
            st = ci.methods.get('start')
            co = ci.methods.get('calc_output')
            ck.need(R9, st is not None and co is not None, f"{q}: start/calc_output not found")
            sig = None
            for c in [x for x in own_nodes(st.node) if isinstance(x, ast.Call)]:
                if call_name(c) == 'check_signature' and c.args and isinstance(c.args[0], ast.Dict):
                    try:
                        sig = ast.literal_eval(c.args[0])
                    except ValueError:
                        sig = None
            ck.need(R9, sig is not None, f"{q}.start: check_signature literal not found")
            reads = {}
            for x in own_nodes(co.node):
                if isinstance(x, ast.Subscript) and norm(x.value) == 'self._in' and \
                        isinstance(x.slice, ast.Constant):
                    reads.setdefault(x.slice.value, set())
                if isinstance(x, ast.Attribute) and norm(x.value) == 'self._in':
                    reads.setdefault(x.attr, set())
            for x in own_nodes(co.node):
                if isinstance(x, ast.Subscript) and isinstance(x.value, ast.Subscript) and \
                        norm(x.value.value) == 'self._in' and isinstance(x.value.slice, ast.Constant):
                    reads[x.value.slice.value].add('indexed')
            ok = set(reads) == set(sig)
            shape = all((('indexed' in reads.get(k, ())) == (sig[k] is not None)) for k in sig)
            ck.ob(R9, f"{q} :: declared vs read inputs", ok and shape,
                  f"declared {sig}; calc_output reads {sorted(reads)}" if ok and shape else
                  f"declared signature {sig} but calc_output reads "
                  f"{ {k: sorted(v) for k, v in reads.items()} } (names or single/group shape differ)",
                  co, co.node)
        ig = prog.func('block:CBlock.InputGetter.__getitem__')
        gi = ck.cfg(ig.fid, 'M0')
        rets = return_nodes(gi)
        single = [r for r in rets if gi.has_guard(r, 'isinstance(iblk, tuple)', False)]
        group = [r for r in rets if gi.has_guard(r, 'isinstance(iblk, tuple)', True)]
        def _group_ok(v):
            if not (isinstance(v, ast.Call) and call_name(v) == 'tuple' and len(v.args) == 1):
                return False
            ge_ = v.args[0]
            if not isinstance(ge_, (ast.GeneratorExp, ast.ListComp)) or len(ge_.generators) != 1:
                return False
            gen0 = ge_.generators[0]
            return norm(gen0.iter) == 'iblk' and not gen0.ifs and \
                norm(ge_.elt) == f"{norm(gen0.target)}.output"
        ok = len(single) == 1 and len(group) == 1 and norm(single[0].ast.value) == 'iblk.output' and \
            _group_ok(group[0].ast.value)
        src = nodes_where(gi, lambda n: isinstance(n.ast, ast.Assign) and norm(n.ast.targets[0]) == 'iblk')
        ok = ok and len(src) == 1 and norm(src[0].ast.value) == f"self._blk.inputs[{ig.node.args.args[1].arg}]"
        ck.ob(R9, ig.fid, ok, "returns .output of the stored block, or the tuple of .output values of "
              "a group, looked up by the requested name" if ok else
              "InputGetter does not return the current outputs of the connected blocks", ig, ig.node)
        ga = prog.func('block:CBlock.InputGetter.__getattr__')
        ok = any(isinstance(x, ast.Subscript) and norm(x) == f"self[{ga.node.args.args[1].arg}]"
                 for x in own_nodes(ga.node))
        ck.ob(R9, ga.fid, ok, "attribute access delegates to item access", ga, ga.node)

    with ck.section('R01.10'):
        # ------------------------------------------------------------------ R01.10
        nt = prog.func('blocklib.cblocks:Not.calc_output')
        for val in (0, 1):
            got = Interp(R10, {"self._in['_'][0]": val, "self._in._[0]": val}, 'truthiness').run(nt.node.body)
            ck.abstract_cases += 1
            ck.ob(R10, f"{nt.fid} :: input {'truthy' if val else 'falsy'}", got is (not val),
                  f"Not({'truthy' if val else 'falsy'}) = {got}", nt, nt.node)
        import itertools
        # And / Or: the function handed to FuncBlock is resolved (constructor chain, class attributes,
        # module functions, lambdas) and applied by the mini evaluator to every truthiness vector of
        # 0..4 inputs with two different truthy representatives
        for q, fname, spec in (('blocklib.cblocks:And', 'all', lambda vec: all(vec)),
                               ('blocklib.cblocks:Or', 'any', lambda vec: any(vec))):
            fn, unpack_false, desc, afi, anode = _gate_func(ck, R10, q)
            bad = None
            n = 0
            for arity in range(0, 5):
                for vec in itertools.product((0, 1, 2), repeat=arity):
                    got = _apply_gate(R10, fn, vec)
                    n += 1
                    ck.abstract_cases += 1
                    if got is not bool(spec(vec)) and bad is None:
                        bad = (vec, got)
            ok = bad is None and unpack_false
            ck.ob(R10, f"{q}", ok, f"{q.split(':')[1]} = {fname}() over the whole input group on all {n} "
                  f"truthiness vectors of 0..4 inputs ({desc})" if ok else
                  (f"{q.split(':')[1]}{bad[0]} yields {bad[1]}; documented: {fname}() of the inputs' truth values"
                   if bad else f"{q.split(':')[1]} does not pass unpack=False ({desc})"), afi, anode)
        # Compare: threshold selection on the truthiness domain of the previous output
        from sa.absval import UNDEF as _U
        cmpf = prog.func('blocklib.cblocks:Compare.calc_output')
        body = [st for st in cmpf.node.body if not (isinstance(st, ast.Expr) and isinstance(st.value, ast.Constant))]
        ret = body[-1] if body and isinstance(body[-1], ast.Return) else None
        ck.need(R11, ret is not None and isinstance(ret.value, ast.Compare) and len(ret.value.ops) == 1,
                "Compare.calc_output: final `return <input> <op> <threshold>` not recognised")
        thr_name = norm(ret.value.comparators[0])
        LOW, HIGH, MID = object(), object(), object()
        for prev, want, label in ((_U, MID, 'UNDEF (start-up)'), (0, HIGH, 'False'), (1, LOW, 'True')):
            env = {'self._output': prev, 'block.UNDEF': _U, 'UNDEF': _U, 'self._low': LOW, 'self._high': HIGH,
                   '(self._low + self._high) / 2': MID, '(self._high + self._low) / 2': MID}
            it = Interp(R11, env, 'truthiness')
            it.run(body[:-1])
            got = it.env.get(thr_name)
            ck.abstract_cases += 1
            names = {id(LOW): 'low', id(HIGH): 'high', id(MID): '(low+high)/2'}
            ck.ob(R11, f"{cmpf.fid} :: previous output {label}", got is want,
                  f"threshold = {names.get(id(got), got)}; documented: {names[id(want)]} (hysteresis: a "
                  f"False output needs the input to reach `high`, a True output stays until it drops "
                  f"below `low`)", cmpf, cmpf.node)
        okc = isinstance(ret.value.ops[0], ast.GtE) and norm(ret.value.left) in ("self._in['_'][0]", "self._in._[0]")
        ck.ob(R11, f"{cmpf.fid} :: comparison", okc,
              "output = input >= threshold (True when the input reaches the threshold)" if okc else
              f"`{norm(ret.value)}` is not `input >= threshold`", cmpf, ret)
        cin = prog.func('blocklib.cblocks:Compare.__init__')
        gci = ck.cfg(cin.fid, 'M0')
        okr = any(isinstance(n.ast, ast.Raise) and (gci.has_guard(n, 'high < low', True) or
                                                    gci.has_guard(n, 'low > high', True))
                  for n in gci.nodes if n.kind == 'stmt') and \
            any(isinstance(n.ast, ast.Assign) and norm(n.ast.targets[0]) == 'self._low' and norm(n.ast.value) == 'low'
                for n in gci.nodes if n.kind == 'stmt') and \
            any(isinstance(n.ast, ast.Assign) and norm(n.ast.targets[0]) == 'self._high' and norm(n.ast.value) == 'high'
                for n in gci.nodes if n.kind == 'stmt')
        ck.ob(R11, cin.fid, okr, "low/high stored as given; high < low refused" if okr else
              "Compare.__init__ swaps or does not validate its thresholds", cin, cin.node)

        # Override: decided on the equality pattern of (override, null_value) -- 2 cases, complete
        from sa.dictval import DictInterp
        ovf = prog.func('blocklib.cblocks:Override.calc_output')
        INP, OVR, NUL = 'INPUT', 'OVERRIDE', 'NULL'
        # third case: a value EQUAL to null_value that is another object (1.0 read from a file vs the
        # configured 1.0): the documented test is equality, not identity
        NUL2, NUL2b = tuple([1.5, 'null']), tuple([1.5, 'null'])       # equal, not identical
        for label, ovr_, nul_, want in (('==', NUL, NUL, INP), ('!=', OVR, NUL, OVR),
                                        ('== (equal, another object)', NUL2b, NUL2, INP)):
            env = {'self._in.override': ovr_, "self._in['override']": ovr_,
                   'self._in.input': INP, "self._in['input']": INP, 'self._null': nul_}
            got = DictInterp(R12, env).run(ovf.node.body)
            ck.abstract_cases += 1
            ck.ob(R12, f"{ovf.fid} :: override {label} null_value", got == want,
                  f"documented: {'pass the input' if want == INP else 'the override value'}; code yields {got}",
                  ovf, ovf.node)
        # Xor: parity of the number of true inputs, evaluated for every truthiness vector of 0..4 inputs
        fn, unpack_false, desc, xin, fnode = _gate_func(ck, R12, 'blocklib.cblocks:Xor')
        ck.need(R12, unpack_false, "Xor: the gate function is not applied to the input group with "
                "unpack=False (unrecognised idiom)")
        bad = None
        n = 0
        for arity in range(0, 5):
            # 0 = a false input; 1 and 2 = two different true inputs (the result may depend on the
            # truth of the inputs only, not on their numeric value: outputs of Counters are inputs too)
            for vec in itertools.product((0, 1, 2), repeat=arity):
                got = _apply_gate(R12, fn, vec)
                n += 1
                ck.abstract_cases += 1
                if got is not (sum(1 for x in vec if x) % 2 == 1) and bad is None:
                    bad = (vec, got)
        ck.ob(R12, f"blocklib.cblocks:Xor.__init__ :: parity", bad is None,
              f"Xor = odd number of true inputs on all {n} truthiness vectors of 0..4 inputs (bounded "
              f"arity, not a proof for every arity)" if bad is None else
              f"Xor{bad[0]} yields {bad[1]}; documented: True iff an odd number of inputs is true",
              xin, fnode)

        fb = prog.func('blocklib.cblocks:FuncBlock.calc_output')
        gb = ck.cfg(fb.fid, 'M0')
        rets = return_nodes(gb)
        un = [r for r in rets if gb.has_guard(r, 'self._unpack', True)]
        pk = [r for r in rets if gb.has_guard(r, 'self._unpack', False)]
        ok = len(un) == 1 and len(pk) == 1 and isinstance(un[0].ast.value, ast.Call) and \
            isinstance(pk[0].ast.value, ast.Call) and \
            any(isinstance(a, ast.Starred) for a in un[0].ast.value.args) and \
            not any(isinstance(a, ast.Starred) for a in pk[0].ast.value.args) and \
            norm(un[0].ast.value.func) == norm(pk[0].ast.value.func) == 'self._func'
        ck.ob(R10, fb.fid, ok, "unpack=True passes the unnamed inputs as separate arguments, "
              "unpack=False as one tuple" if ok else
              "FuncBlock.calc_output does not switch between *args and args on self._unpack", fb, fb.node)


def _apply_gate(rule, fn, vec):
    """Apply the interpreted gate function to one input vector -> bool result, or a text naming
    the fault (a gate must not fail on truthy / falsy inputs)."""
    from sa.minieval import _Fault, _Raised
    try:
        got = fn(tuple(vec))
    except (_Fault, _Raised) as exc:
        return f"<raises {exc.name}>"
    return got


def _gate_func(ck, rule, qual):
    """Resolve the function a FuncBlock subclass hands to FuncBlock.__init__ (func=...) through its
    constructor chain -> (callable over a tuple of inputs, unpack is False, description, FuncInfo,
    anchor node).  Followed: `super().__init__(..., func=E, unpack=False, ...)` in the class or a
    private base; E = builtin name, module function, lambda, or a class attribute read through
    type(self) / self / self.__class__ (resolved in the MRO of the concrete class)."""
    from sa.minieval import MiniEval
    from sa.loader import ClassInfo
    prog = ck.prog
    ci = prog.cls(qual)
    ini = prog.resolve_method(ci, '__init__')
    ck.need(rule, ini is not None and ini.cls is not None and ini.cls.name != 'FuncBlock' and
            ini.cls.is_subclass_of('FuncBlock'),
            f"{qual}: no constructor between the class and FuncBlock hands over the function "
            "(unrecognised idiom)")
    sup = [c for c in own_nodes(ini.node) if is_super_call(c, '__init__')]
    ck.need(rule, len(sup) == 1, f"{ini.fid}: exactly one super().__init__ call expected")
    f = kw(sup[0], 'func')
    up = kw(sup[0], 'unpack')
    ck.need(rule, f is not None, f"{ini.fid}: super().__init__ is not given func= (unrecognised idiom)")

    def module_resolver(mod):
        def resolve(text):
            if not text.isidentifier():
                return None
            b = prog.lookup(mod, text)
            if b is not None and b[0] == 'func':
                return b[1].node
            return None
        return resolve

    def to_callable(expr, mod, depth=0):
        ck.need(rule, depth < 4, f"{qual}: func= indirection too deep")
        t = norm(expr)
        for pre in ('type(self).', 'self.__class__.', 'self.', 'cls.'):
            if t.startswith(pre) and t[len(pre):].isidentifier():
                name = t[len(pre):]
                for c in ci.mro:
                    if isinstance(c, ClassInfo) and name in c.values:
                        return to_callable(c.values[name], c.module, depth + 1)
                    if isinstance(c, ClassInfo) and name in c.methods:
                        m = c.methods[name]
                        static = any(norm(d) == 'staticmethod' for d in m.node.decorator_list)
                        me = MiniEval(rule, {}, module_resolver(c.module))
                        return me._closure(m.node.args, m.node.body, bound_method=not static), f"{c.name}.{name}"
                ck.need(rule, False, f"{qual}: attribute {name} not found in the class hierarchy")
        me = MiniEval(rule, {}, module_resolver(mod))
        if isinstance(expr, ast.Lambda):
            return me.ev(expr), 'lambda'
        if isinstance(expr, (ast.Name, ast.Attribute)):
            fn_ = me._pure_callable(expr)
            if fn_ is not None:
                return fn_, t
        ck.need(rule, False, f"{qual}: func={t[:60]} is neither a builtin, a module function, a lambda "
                "nor a class attribute (unrecognised idiom)")

    fn, what = to_callable(f, ini.module)
    ck.need(rule, fn is not None, f"{qual}: func={norm(f)[:60]} has an unsupported signature")
    return fn, is_const(up, False), f"func={what}, unpack={norm(up) if up is not None else None}", ini, f

def _set_output_shape(ck, R6, so):
    """Shape form of R01.6 for the layout of the pinned tree."""
    prog = ck.prog
    gs = ck.cfg(so.fid, 'M0')
    ws = nodes_writing_attr(gs, '_output')
    ck.need(R6, len(ws) == 1, "SBlock.set_output: expected exactly one write of _output")
    enq = nodes_where(gs, lambda n: any(call_name(c) in ('put_nowait',) and
                                        recv(c) == 'self.circuit.sblock_queue' and
                                        [norm(a) for a in c.args] == ['self'] for c in node_calls(n)))
    check_must_pass(ck, R6, f"{so.fid} :: enqueue after write", so, gs, ws[0], enq, [gs.exit],
                    "notification of the simulator after an output change")
    from rules.shared import enqueue_before_anything_can_fail
    enqueue_before_anything_can_fail(ck, R6)
    vparam = so.node.args.args[1].arg
    ok = expr_is(ck, so.fid, 'M0', ws[0], written_value(ws[0], '_output'), vparam)
    ck.ob(R6, f"{so.fid} :: stored value", ok, "the parameter is what is stored" if ok else
          "set_output stores something else than its argument", so, ws[0].ast)
    undef = nodes_where(gs, lambda n: isinstance(n.ast, ast.Raise) and
                        any('UNDEF' in t and p for t, p in gs.guard_texts(n)), kinds=('stmt',))
    ck.ob(R6, f"{so.fid} :: UNDEF refused", bool(undef) and
          all(gs.has_guard(w, f'{vparam} is UNDEF', False) for w in ws),
          "UNDEF is refused as an output value", so, so.node)
