"""C07 -- TimeDate and TimeSpan outputs follow the wall clock (structural clauses)."""
from __future__ import annotations

import ast
import itertools

from sa.loader import recv, norm, norm1, walk_shallow, own_nodes, call_name, is_super_call, AnalysisError
from sa.absval import Interp
from sa.typestate import check_language
from sa.tables import fold, Unfoldable
from sa.rulekit import (nodes_where, node_calls, node_roots, nodes_calling, return_nodes, own,
                        nodes_writing_attr, must_pass, is_const, written_value, expr_is, kw,
                        superchain, check_must_pass)
from sa.report import path_witness

CRON = 'blocklib.cron:Cron'
TD = 'blocklib.timedate:TimeDate'
TS = 'blocklib.timedate:TimeSpan'

UNDECIDED = [
    "that the output equals the calendar predicate at every instant, sub-millisecond boundary "
    "races between a block's own recalc and the scheduler, the sleep/overhead arithmetic, "
    "midnight / month / year wrap and DST -- timing and datetime value semantics; NOT decided "
    "(a static tool cannot bound the clock-read and wake-up latencies the property quantifies "
    "over)",
]

PARTIAL_ON_EMPTY = ('union', 'intersection')


def run(ck):
    ck.explanation = (
        "blocklib/cron.py + timedate.py: Cron._maintask runs as a monitored service, so any "
        "exception leaving it terminates the simulation; a container non-emptiness domain shows "
        "that every operation that is partial on an empty operand (type-level set.union(*xs), "
        "max/min without default, modulo by a length) is applied to a provably non-empty value "
        "although the alarm registry may be empty; the reset branch recalculates all registered "
        "blocks, forgets the index and continues; the hourly table bounds the detection delay; "
        "every reconfiguration follows remove* store add* reload recalc (typestate); recalc is "
        "the only output writer; TimeDate.recalc has the documented truth table on the finite "
        "domain {configured?, member?}^3 (27 consistent cases); the weekday normalisation agrees with "
        "isoweekday().")
    ck.undecided = UNDECIDED
    prog = ck.prog
    cron = prog.cls(CRON)
    mod = prog.module('blocklib.cron')
    mt = cron.methods.get('_maintask')
    ck.need('R07.1', mt is not None, "Cron._maintask not found")

    R1 = ck.rule('R07.1', "no operation that is partial on an empty operand is applied to the "
                 "possibly empty alarm registry (a clock jump must not raise in the monitored "
                 "service task)", 'non-emptiness', 2)
    R2 = ck.rule('R07.2', "reset path: recalc(now) for every registered block, index forgotten, "
                 "continue; no raise statement in the scheduler; the time table always contains "
                 "the 24 hourly wake-ups", 'M0', 5)
    R3 = ck.rule('R07.3', "registry protocol: every reconfiguration performs remove* store add* "
                 "reload recalc; TimeDate always registers midnight; reload wakes the task through "
                 "the queue on which the long sleep waits; the queue exists before the task runs",
                 'M0', 7)
    R4 = ck.rule('R07.4', "recalc is the only output writer of TimeDate/TimeSpan and both "
                 "reconfigurations read 'now' from the scheduler's clock; the scheduler is chosen "
                 "by the same utc flag it is created with", 'M0', 5)
    R5 = ck.rule('R07.5', "TimeDate.recalc = configured and (times None or time in times) and "
                 "(dates None or date in dates) and (weekdays None or isoweekday in weekdays) on "
                 "all 27 consistent cases; weekday 0 is normalised to 7 = isoweekday() of Sunday; TimeSpan = "
                 "now in span", 'truthiness domain', 30)

    with ck.section('R07.1'):
        # ------------------------------------------------------------------ R07.1
        # non-emptiness facts
        try:
            set24 = prog.lookup(mod, '_SET24')
            nonempty24 = set24 is not None and set24[0] == 'value' and isinstance(set24[1], ast.Call) and \
                call_name(set24[1]) == 'frozenset' and isinstance(set24[1].args[0], ast.GeneratorExp) and \
                norm(set24[1].args[0].generators[0].iter) == 'range(24)' and \
                not set24[1].args[0].generators[0].ifs
        except Exception:
            nonempty24 = False
        elt_ok = nonempty24 and norm(set24[1].args[0].elt) in ('dt.time(hour, 0, 0)', 'dt.time(hour)',
                                                               'dt.time(hour, 0)')
        ck.ob(R2, f"{mod.path} :: _SET24", bool(elt_ok),
              "_SET24 = the 24 full hours (non-empty): wake-ups at least hourly" if elt_ok else
              "_SET24 is not the set of the 24 full hours", None, f"{mod.path}:1")
        n_partial = 0
        for m in cron.methods.values():
            g = None
            for x in own_nodes(m.node):
                if not isinstance(x, ast.Call):
                    continue
                bad = None
                if isinstance(x.func, ast.Attribute) and x.func.attr in PARTIAL_ON_EMPTY and \
                        isinstance(x.func.value, ast.Name) and x.func.value.id in ('set', 'frozenset') and \
                        x.args and all(isinstance(a, ast.Starred) for a in x.args):
                    bad = f"`{norm(x)}`: the unbound method needs at least one argument"
                    operand = norm(x.args[0].value)
                elif isinstance(x.func, ast.Name) and x.func.id in ('max', 'min') and len(x.args) == 1 and \
                        not any(k.arg == 'default' for k in x.keywords) and '_alarms' in norm(x.args[0]):
                    bad = f"`{norm(x)}` has no default"
                    operand = norm(x.args[0])
                elif isinstance(x.func, ast.Name) and x.func.id == 'next' and len(x.args) == 1 and \
                        '_alarms' in norm(x.args[0]):
                    bad = f"`{norm(x)}` has no default"
                    operand = norm(x.args[0])
                if bad is None:
                    continue
                n_partial += 1
                g = g or ck.cfg(m.fid, 'M0')
                nodes = g.node_of(x)
                guarded = bool(nodes) and (g.has_guard(nodes[0], 'self._alarms', True) or
                                           g.has_guard(nodes[0], 'len(self._alarms) > 0', True))
                possibly_empty = '_alarms' in operand
                ck.ob(R1, f"{m.fid} :: {norm1(x)}", guarded or not possibly_empty,
                      "operand is never empty here" if guarded or not possibly_empty else
                      f"{bad}; self._alarms may be empty (remove_block deletes keys; a TimeSpan whose "
                      f"ranges lie in the past registers nothing) -> TypeError in the monitored "
                      f"service task -> the simulation is terminated", m, x)
        g = ck.cfg(mt.fid, 'M0')
        tt = nodes_where(g, lambda n: isinstance(n.ast, ast.Assign) and norm(n.ast.targets[0]) == 'timetable')
        ok = len(tt) == 1 and '_SET24' in norm(tt[0].ast.value) and 'union' in norm(tt[0].ast.value) \
            and call_name(tt[0].ast.value) == 'sorted'
        ck.ob(R1, f"{mt.fid} :: time table", ok and bool(nonempty24),
              "timetable = sorted(_SET24 U alarms): non-empty, so `% len(timetable)` and "
              "timetable[index] are total" if ok and nonempty24 else
              "the time table may be empty (modulo by zero / index error in the scheduler) or is not "
              "sorted", mt, tt[0].ast if tt else mt.node)
        mods = [x for x in own_nodes(mt.node) if isinstance(x, ast.BinOp) and isinstance(x.op, ast.Mod)]
        tl = nodes_where(g, lambda n: isinstance(n.ast, ast.Assign) and norm(n.ast.value) == 'len(timetable)')
        lname = norm(tl[0].ast.targets[0]) if tl else None
        ok = bool(mods) and all(norm(m_.right) in (lname, 'len(timetable)') for m_ in mods)
        ck.ob(R1, f"{mt.fid} :: modulo operands", ok,
              f"every modulo in the scheduler is by len(timetable) ({len(mods)} sites)" if ok else
              "a modulo operand in the scheduler is not the (non-zero) table length", mt, mt.node)
        # the reset loop covers all registered blocks without a partial operation
        rs_branch = [n for n in g.nodes if n.kind == 'branch' and n.polarity and
                     norm(n.test.ast) == 'reset.test_clear()']
        ck.need(R2, len(rs_branch) == 1, "_maintask: reset branch not recognised")
        rb = rs_branch[0]
        in_reset = g.reachable_from(rb, avoid=[n for n in g.nodes if n.kind == 'test' and
                                               isinstance(n.stmt, ast.While)])
        rc = [n for n in nodes_calling(g, 'recalc') if n.id in in_reset and g.dominates(rb, n)]
        loops = [l for l in g.nodes if l.kind == 'for' and rc and g.dominates(l, rc[0]) and g.dominates(rb, l)]
        ok = len(rc) == 1 and len(loops) == 1 and 'self._alarms.values()' in norm(loops[0].ast.iter)
        if ok:
            c = node_calls(rc[0], 'recalc')[0]
            ok = [norm(a) for a in c.args] == ['nowdt'] and recv(c) == norm(loops[0].ast.target)
        ck.ob(R2, f"{mt.fid} :: reset recalculates everything", ok,
              "after a clock anomaly every registered block gets recalc(now)" if ok else
              "the reset branch does not call recalc(now) on every registered block", mt,
              rc[0].ast if rc else mt.node)
        idx = [n for n in g.nodes if n.kind == 'stmt' and isinstance(n.ast, ast.Assign) and
               norm(n.ast.targets[0]) == 'index' and is_const(n.ast.value, None) and g.dominates(rb, n)]
        cont = [n for n in g.nodes if n.kind == 'stmt' and isinstance(n.ast, ast.Continue) and g.dominates(rb, n)]
        ok = bool(idx) and bool(cont) and g.path_avoiding(rb, cont, avoid=idx) is None
        ck.ob(R2, f"{mt.fid} :: reset forgets the index", ok,
              "index = None, continue: the next wake-up is recomputed from the current clock" if ok
              else "after a reset the scheduler keeps a stale position in the time table", mt,
              idx[0].ast if idx else mt.node)
        raises = [x for x in own_nodes(mt.node) if isinstance(x, ast.Raise)]
        ck.ob(R2, f"{mt.fid} :: no raise", not raises,
              "the scheduler contains no raise statement" if not raises else
              f"the scheduler raises: {norm1(raises[0])}", mt, raises[0] if raises else mt.node)
        nowr = nodes_where(g, lambda n: isinstance(n.ast, ast.Assign) and norm(n.ast.value) == 'self.dtnow()')
        ok = len(nowr) >= 2 and all(norm(n.ast.targets[0]) == 'nowdt' for n in nowr)
        ck.ob(R2, f"{mt.fid} :: clock re-read", ok,
              "the clock is re-read after every sleep" if ok else
              "the scheduler does not re-read the clock after sleeping", mt, mt.node)

    with ck.section('R07.6'):
        # ------------------------------------------------------------------ R07.6
        R6 = ck.rule('R07.6', "the next wake-up is the first table entry that is NOT BEFORE the current "
                     "time (equality included): an alarm whose time equals the clock reading at start / "
                     "reload / reset is due now, not tomorrow", 'M0', 1)
        searches = [x for x in own_nodes(mt.node) if isinstance(x, ast.Call) and
                    call_name(x) in ('bisect_left', 'bisect_right', 'bisect') and
                    len(x.args) >= 2 and norm(x.args[0]) == 'timetable']
        ck.need(R6, len(searches) == 1, "_maintask: the time-table search is not a single bisect call "
                "(unrecognised idiom)")
        sc_ = searches[0]
        okb = call_name(sc_) == 'bisect_left' and norm(sc_.args[1]) == 'nowt'
        nowt_defs = [x for x in own_nodes(mt.node) if isinstance(x, ast.Assign) and norm(x.targets[0]) == 'nowt']
        okb = okb and bool(nowt_defs) and all(norm(x.value) == 'nowdt.time()' for x in nowt_defs)
        ck.ob(R6, f"{mt.fid} :: {norm1(sc_)}", okb,
              "bisect_left(timetable, now): an entry equal to now is the next wake-up" if okb else
              f"`{norm(sc_)}` skips an alarm whose time equals the current clock reading (its blocks "
              f"stay stale until the next day)", mt, sc_)

    with ck.section('R07.3'):
        # ------------------------------------------------------------------ R07.3
        for q, store_attrs in ((TD, ('_times', '_dates', '_weekdays')), (TS, ('_span',))):
            ci = prog.cls(q)
            rcf = ci.methods.get('_event_reconfig')
            ck.need(R3, rcf is not None, f"{q}._event_reconfig not found")
            gq = ck.cfg(rcf.fid, 'M0')

            def events(n, gq=gq, store_attrs=store_attrs):
                ev = []
                for c in node_calls(n):
                    cn = call_name(c)
                    if cn == 'remove_block' and recv(c) == 'self._cron':
                        ev.append('Rm')
                    elif cn == 'add_block' and recv(c) == 'self._cron':
                        ev.append('Ad')
                    elif cn == 'reload' and recv(c) == 'self._cron':
                        ev.append('Rl')
                    elif cn == 'recalc' and recv(c) == 'self':
                        ev.append('Rc')
                if n.kind == 'stmt' and any(n in nodes_writing_attr(gq, a) for a in store_attrs):
                    ev.append('St')
                return ev
            ok, wit, st = check_language(gq, "Rm* St Ad* Rl Rc", events, [gq.exit])
            ck.product_states += st['product_states']
            ck.ob(R3, f"{rcf.fid} :: remove* store add* reload recalc", ok,
                  "old end points are removed, the configuration is stored, the new end points are "
                  "added, the scheduler is reloaded, the output is recalculated -- on every path"
                  if ok else f"a path performs {' '.join(wit[1])}", rcf, rcf.node,
                  witness=path_witness(gq, wit[0]) if wit else None)
            for n in nodes_calling(gq, 'add_block') + nodes_calling(gq, 'remove_block'):
                c = [c for c in node_calls(n) if call_name(c) in ('add_block', 'remove_block')][0]
                okself = len(c.args) == 2 and norm(c.args[1]) == 'self'
                if not okself:
                    ck.ob(R3, f"{rcf.fid} :: {norm1(n.ast)}", False,
                          "a block registers/unregisters something else than itself", rcf, n.ast)
            nowsrc = [n for n in nodes_calling(gq, 'recalc')]
            okn = bool(nowsrc)
            for n in nowsrc:
                a = node_calls(n, 'recalc')[0].args[0]
                okn = okn and expr_is(ck, rcf.fid, 'M0', n, a, 'self._cron.dtnow()')
            ck.ob(R4, f"{rcf.fid} :: now from the scheduler", okn,
                  "recalc receives self._cron.dtnow() (same clock and UTC/local mode as the "
                  "scheduler)" if okn else "the reconfiguration computes 'now' from another clock",
                  rcf, nowsrc[0].ast if nowsrc else rcf.node)
        tdr = prog.cls(TD).methods['_event_reconfig']
        gq = ck.cfg(tdr.fid, 'M0')
        mid = nodes_where(gq, lambda n: any(call_name(c) == 'add_block' and
                                            norm(c.args[0]) in ('dt.time(0, 0, 0)', 'dt.time(0, 0)', 'dt.time(0)',
                                                                'dt.time()', 'dt.time.min')
                                            for c in node_calls(n)))
        check_must_pass(ck, R3, f"{tdr.fid} :: midnight", tdr, gq, gq.entry, mid, [gq.exit],
                        "TimeDate always registers midnight (dates and weekdays change there)")
        # TimeSpan registers end points from today on
        tsr = prog.cls(TS).methods['_event_reconfig']
        gq = ck.cfg(tsr.fid, 'M0')
        adds = nodes_calling(gq, 'add_block')
        ok = len(adds) == 1 and (gq.has_guard(adds[0], 'datetime.date() >= now_date', True) or
                                 gq.has_guard(adds[0], 'now_date <= datetime.date()', True))
        ck.ob(R3, f"{tsr.fid} :: future end points", ok,
              "end points of today and later are registered (>=, today included)" if ok else
              "TimeSpan does not register the end points of today and later", tsr,
              adds[0].ast if adds else tsr.node)
        rl = cron.methods.get('reload')
        gl = ck.cfg(rl.fid, 'M0')
        puts = nodes_where(gl, lambda n: any(call_name(c) == 'put_nowait' and recv(c) == 'self._queue'
                                             for c in node_calls(n)))
        ok = len(puts) == 1 and gl.has_fact(puts[0], 'self._needs_reload.test_clear()', True)
        ck.ob(R3, rl.fid, ok, "a needed reload wakes the task through the queue" if ok else
              "reload() does not wake the scheduler through its queue", rl, rl.node)
        waits = [x for x in own_nodes(mt.node) if isinstance(x, ast.Await) and isinstance(x.value, ast.Call)
                 and norm(x.value.func) == 'asyncio.wait_for' and 'self._queue.get()' in norm(x.value.args[0])]
        others = [x for x in own_nodes(mt.node) if isinstance(x, ast.Await) and x not in waits]
        ok = len(waits) == 1 and all(call_name(o.value) == 'sleep' for o in others)
        ck.ob(R3, f"{mt.fid} :: long sleep waits on the queue", ok,
              "the long sleep is wait_for(self._queue.get(), ...): a reload cannot be missed" if ok
              else "the scheduler's long sleep does not wait on the reload queue", mt,
              waits[0] if waits else mt.node)
        gw = ck.cfg(mt.fid, 'M1')
        wn = nodes_where(gw, lambda n: any(x in waits for r in node_roots(n) for x in walk_shallow(r)))
        oks = False
        if wn:
            # woken by the queue => reload flag set
            sets = nodes_where(gw, lambda n: any(call_name(c) == 'set' and recv(c) == 'reload' for c in node_calls(n)))
            oks = bool(sets) and any(s_.id in gw.reachable_from(wn[0], labels_excluded=('exc',)) for s_ in sets)
        ck.ob(R3, f"{mt.fid} :: wake-up => reload", oks,
              "an item on the queue sets the reload flag (time table rebuilt from the current "
              "registry)" if oks else "a wake-up through the queue does not rebuild the time table",
              mt, mt.node)
        st = cron.methods.get('start')
        gs = ck.cfg(st.fid, 'M0')
        qn = nodes_writing_attr(gs, '_queue')
        ok = len(qn) == 1 and norm(written_value(qn[0], '_queue')) == 'asyncio.Queue()' and \
            must_pass(gs, gs.entry, qn, [gs.exit]) is None and not st.is_async
        ck.ob(R3, st.fid, ok, "start() creates the queue synchronously: the task created by "
              "super().start() first runs after run_forever yields, i.e. after all start() calls"
              if ok else "Cron.start does not create the reload queue before the task can run", st, st.node)
        superchain(ck, R3, 'start', classes={CRON})

    R12 = ck.rule('R07.12', "a recalculation never edits the scheduler's registry: add_block / remove_block on the "
                  "cron service are called from the reconfiguration handlers only (a registration is keyed by the "
                  "time of day and may serve end points on other dates; what recalc - which runs for every alarm - "
                  "removes is lost for them)", 'M0', 3)
    with ck.section('R07.12'):
        n12 = 0
        for q in (TD, TS):
            ci = prog.cls(q)
            for m in ci.methods.values():
                for x in own_nodes(m.node):
                    if isinstance(x, ast.Call) and call_name(x) in ('add_block', 'remove_block') and \
                            recv(x).endswith('_cron'):
                        n12 += 1
                        ok = m.node.name == '_event_reconfig'
                        ck.ob(R12, f"{m.fid} :: {call_name(x)}", ok,
                              "registration changed by the reconfiguration handler" if ok else
                              f"`{norm1(x)}` in {m.node.name}(): the registry of wake-up times is edited outside a "
                              "reconfiguration - an alarm removed here is also the alarm of every other end point "
                              "with the same time of day, whose boundary is then never recalculated", m, x)
        ck.need(R12, n12 >= 3, f"only {n12} cron registration sites found in TimeDate/TimeSpan (5 confirmed by hand)")
    with ck.section('R07.4'):
        # ------------------------------------------------------------------ R07.4
        for q in (TD, TS):
            ci = prog.cls(q)
            sites = []
            for m in ci.methods.values():
                for x in own_nodes(m.node):
                    if isinstance(x, ast.Call) and call_name(x) == 'set_output':
                        sites.append(m.fid)
            ok = sites == [f"{q}.recalc"]
            ck.ob(R4, f"{q} :: set_output sites", ok, f"set_output is called from {sites}", None,
                  f"{ci.module.path}:{ci.node.lineno}")
        gcf = prog.func('blocklib.timedate:_get_cron')
        up = gcf.node.args.args[0].arg
        nm = [x for x in own_nodes(gcf.node) if isinstance(x, ast.Assign) and isinstance(x.value, ast.IfExp)]
        mk = [x for x in own_nodes(gcf.node) if isinstance(x, ast.Call) and norm(x.func) == 'cron.Cron']
        ok = len(nm) == 1 and norm(nm[0].value.test) == up and len(mk) == 1 and \
            any(k.arg == 'utc' and norm(k.value) == up for k in mk[0].keywords) and \
            norm(mk[0].args[0]) == norm(nm[0].targets[0]) and \
            ast.literal_eval(nm[0].value.body) != ast.literal_eval(nm[0].value.orelse)
        ck.ob(R4, gcf.fid, ok, "the scheduler's name and its utc mode are chosen by the same flag; "
              "the two modes use different schedulers" if ok else
              "a block could get a scheduler running in the other (UTC/local) mode", gcf, gcf.node)
        dn = cron.methods.get('dtnow')
        gd = ck.cfg(dn.fid, 'M0')
        rets = return_nodes(gd)
        u = [r for r in rets if gd.has_guard(r, 'self._utc', True)]
        l = [r for r in rets if gd.has_guard(r, 'self._utc', False)]
        ok = len(u) == 1 and len(l) == 1 and 'utc' in norm(u[0].ast.value).lower() and \
            'tzinfo=None' in norm(u[0].ast.value) + 'tzinfo=None' * ('utcnow' in norm(u[0].ast.value)) and \
            norm(l[0].ast.value) == 'dt.datetime.now()'
        ck.ob(R4, dn.fid, ok, "UTC mode reads the UTC clock (made naive), local mode the local clock"
              if ok else "dtnow() does not select the clock by the utc flag", dn, dn.node)

    R9 = ck.rule('R07.9', "membership in the interval containers the outputs are computed from is the "
                 "documented rule (time of day: right-open, wrapping at midnight; dates: inclusive, "
                 "wrapping at New Year; date-time spans: right-open, never wrapping), for one and for "
                 "several stored ranges (abstract run of __contains__, shared with C13 R13.1)",
                 'ordering domain', 3)
    with ck.section('R07.9'):
        from rules.c13 import _contains_run, CLASSES as _ICLASSES, TI as _TI, _describe as _desc13
        from sa.absval import weak_orderings3
        from sa.tables import fold as _fold, Unfoldable as _Unf
        ords_ = weak_orderings3()
        for cname_, (kind_, closed_, *_rest) in _ICLASSES.items():
            ci_ = prog.cls(f"{_TI}:{cname_}")
            try:
                flag_ = _fold(prog, prog.module(_TI), prog.class_value(ci_, '_RCLOSED_INTERVAL'))
            except (_Unf, AttributeError, TypeError):
                flag_ = None
            try:
                bad1_, bad2_, n1_, n2_ = _contains_run(ck, R9, ci_, kind_, flag_, ords_)
            except AnalysisError as err_:
                ck.ob(R9, f"{ci_.qual} :: item in interval", False,
                      f"the membership test could not be interpreted ({err_.reason})", None,
                      f"edzed/blocklib/timeinterval.py:{ci_.node.lineno}", shape=True)
                continue
            cont_ = prog.resolve_method(ci_, '__contains__')
            okm = not bad1_ and not bad2_
            ck.ob(R9, f"{ci_.qual} :: item in interval", okm,
                  f"{kind_} rule on all 13 orderings of one range and all {n2_} combinations of two ranges"
                  if okm else (bad2_[0] if bad2_ else f"single range, {_desc13(sorted(bad1_)[0])}: "
                               f"{bad1_[sorted(bad1_)[0]]}"), cont_, cont_.node)

    R10 = ck.rule('R07.10', "the scheduler's registry: after any sequence of add_block / remove_block calls "
                  "(two blocks, a full-hour and another time of day, up to three calls) a time of day is a key "
                  "of _alarms exactly while at least one block is registered for it, with exactly those "
                  "blocks; creating or deleting a key that is not one of the 24 fixed wake-ups requests a "
                  "reload (abstract run)", 'abstract run', 1)
    with ck.section('R07.10'):
        _registry_run(ck, R10, prog)

    R11 = ck.rule('R07.11', "a delay that cannot be legitimate always reaches the clock-jump reset: whatever the "
                  "step of the wake-up procedure, a computed delay of more than one hour (the 24 fixed hourly "
                  "wake-ups bound every legitimate delay) or of more than _TT_ERROR in the past takes the branch "
                  "that tests for a time-tracking problem and sets the reset flag, so the scheduler never goes "
                  "to sleep on it (a forward jump across midnight turns 'ten minutes' into '23 hours')",
                  'abstract evaluation of the guard', 1)
    with ck.section('R07.11'):
        _jump_guard(ck, R11, prog)

    with ck.section('R07.5'):
        # ------------------------------------------------------------------ R07.5
        tdc = prog.cls(TD)
        rcm = tdc.methods.get('recalc')
        ck.extra['exhaustive_parts'] = ['R07.5: all 27 consistent (given?, member?) combinations of times/dates/weekdays']
        ck.need(R5, rcm is not None, "TimeDate.recalc not found")
        so = [x for x in own_nodes(rcm.node) if isinstance(x, ast.Call) and call_name(x) == 'set_output']
        ck.need(R5, len(so) == 1 and len(so[0].args) == 1, "TimeDate.recalc: set_output call not recognised")
        expr = so[0].args[0]
        nowp = rcm.node.args.args[1].arg
        member_texts = {}
        for x in [y for st_ in rcm.node.body for y in ast.walk(st_)]:
            if isinstance(x, ast.Compare) and len(x.ops) == 1 and isinstance(x.ops[0], (ast.In, ast.NotIn)):
                member_texts[norm(x.comparators[0])] = (norm(x), norm(x.left))
        ok_ops = set(member_texts) == {'self._times', 'self._dates', 'self._weekdays'} and \
            member_texts['self._times'][1] == f'{nowp}.time()' and \
            member_texts['self._weekdays'][1] == f'{nowp}.isoweekday()' and \
            member_texts['self._dates'][1].replace(' ', '') in (
                f'ti.convert_date_seq([{nowp}.month,{nowp}.day])',)
        ck.ob(R5, f"{rcm.fid} :: operands", ok_ops,
              "time of day, (month, day) and ISO weekday of `now` are tested against the three "
              "configured sets" if ok_ops else
              f"the membership tests use unexpected operands: {member_texts}", rcm, rcm.node)
        if ok_ops:
            cfgm = tdc.methods.get('_is_configured')
            conf_ok = cfgm is not None and any(
                isinstance(x, ast.Call) and call_name(x) == 'any' and isinstance(x.args[0], ast.GeneratorExp)
                and norm(x.args[0].elt) == f"{norm(x.args[0].generators[0].target)} is not None"
                and norm(x.args[0].generators[0].iter).replace(' ', '') == '(self._times,self._dates,self._weekdays)'
                for x in own_nodes(cfgm.node))
            ck.ob(R5, f"{TD}._is_configured", bool(conf_ok),
                  "configured = any of times/dates/weekdays is not None" if conf_ok else
                  "_is_configured is not 'any of the three settings is given'", cfgm, cfgm.node if cfgm else None)
            tok = object()
            for given in itertools.product((False, True), repeat=3):
                for member in itertools.product((False, True), repeat=3):
                    if any(m_ and not g_ for m_, g_ in zip(member, given)):
                        continue        # membership in an absent set is meaningless
                    # the whole body is run (whatever its layout: one expression, an if/elif chain, a
                    # flag): the left operands are opaque tokens, the configured sets contain the token
                    # or not, and the argument of set_output is recorded
                    from sa.minieval import MiniEval
                    env = {'self._is_configured()': any(given), 'self._is_configured': lambda given=given: any(given)}
                    outv = []
                    env['self.set_output'] = lambda v, outv=outv: outv.append(v)
                    for key, g_, m_ in zip(('self._times', 'self._dates', 'self._weekdays'), given, member):
                        left = member_texts[key][1]
                        env[left] = ('TOKEN', key)
                        env[key] = ({('TOKEN', key)} if m_ else set()) if g_ else None
                    res = MiniEval(R5, env).run(rcm.node.body)
                    got = outv[0] if (res[0] == 'return' and len(outv) == 1) else None
                    ck.abstract_cases += 1
                    want = any(given) and all((not g_) or m_ for g_, m_ in zip(given, member))
                    ck.ob(R5, f"{rcm.fid} :: given={given} member={member}", bool(got) == want,
                          f"documented {want}; code {bool(got)}", rcm, rcm.node)
        from rules.shared import weekdays_run
        weekdays_run(ck, R5)
        tsc = prog.cls(TS)
        rct = tsc.methods.get('recalc')
        so = [x for x in own_nodes(rct.node) if isinstance(x, ast.Call) and call_name(x) == 'set_output']
        ok = len(so) == 1 and norm(so[0].args[0]) == f"{rct.node.args.args[1].arg} in self._span"
        ck.ob(R5, rct.fid, ok, "output = now in span" if ok else
              "TimeSpan.recalc does not output `now in self._span`", rct, rct.node)

    with ck.section('R07.7'):
        # ------------------------------------------------------------------ R07.7
        R7 = ck.rule('R07.7', "the wake-up latency estimate that shortens the interruptible wait is "
                     "updated only with samples that passed the clock-jump test (a jump must not inflate "
                     "it: the scheduler would then sleep un-interruptibly, deaf to reload(), for up to "
                     "half the jump before every wake-up)", 'M0', 1)
        g7 = ck.cfg(mt.fid, 'M0')
        est = None
        for x in own_nodes(mt.node):
            if isinstance(x, ast.Call) and call_name(x) == 'wait_for' and len(x.args) == 2 and \
                    isinstance(x.args[1], ast.BinOp) and isinstance(x.args[1].op, ast.Sub) and \
                    isinstance(x.args[1].right, ast.Name):
                est = x.args[1].right.id
        if est is None:
            # no latency estimate shortens an interruptible wait: nothing to protect (whether the wait
            # is interruptible at all is R07.3's business)
            ck.ob(R7, f"{mt.fid} :: no latency estimate in use", True,
                  "no `wait_for(<queue>.get(), <sleep> - <estimate>)`: nothing to decide here", mt, mt.node)
            from sa.report import SkipSection
            raise SkipSection()
        upd = nodes_where(g7, lambda n: isinstance(n.ast, ast.AugAssign) and norm(n.ast.target) == est)
        # the jump test: the test whose true outcome sets the reset flag (flag.OR(...) / flag.set())
        flagname = None
        for n in g7.nodes:
            if n.kind == 'test' and isinstance(n.stmt, ast.If) and 'test_clear()' in norm(n.ast):
                for n2 in nodes_where(g7, lambda m_: 'recalc' in norm(m_.ast) and m_.kind == 'stmt'):
                    if g7.dominates(n, n2) and 'reload' not in norm(n.ast):
                        flagname = norm(n.ast).split('.')[0]
        ck.need(R7, flagname is not None, "_maintask: the reset flag was not recognised")
        jump_false = [n for n in g7.nodes if n.kind == 'branch' and not n.polarity and
                      f'{flagname}.OR(' in norm(n.test.ast)]
        ok7 = bool(upd) and bool(jump_false) and all(any(g7.dominates(j, u) for j in jump_false) for u in upd)
        ck.ob(R7, f"{mt.fid} :: `{est}` updated only after the clock-jump test", ok7,
              f"every update of `{est}` lies behind the failed test `{flagname}.OR(...)`" if ok7 else
              f"`{est}` is updated with a wake-up sample that has not passed the clock-jump test "
              f"`{flagname}.OR(...)`: a forward jump of J seconds inflates it by about J/2", mt,
              upd[0].ast if upd else mt.node)

    with ck.section('R07.8'):
        # ------------------------------------------------------------------ R07.8
        R8 = ck.rule('R07.8', "the delay until the wake-up is the affine form 3600*dh + 60*dm + ds + du/1e6 "
                     "of the field differences (wake-up minus now), plus one day exactly when now is in "
                     "hour 23 and the wake-up in hour 0 (the table has an entry in every hour)", 'tables', 2)
        st8 = [x for x in own_nodes(mt.node) if isinstance(x, ast.Assign) and len(x.targets) == 1 and
               isinstance(x.targets[0], ast.Name) and sum(1 for a in ast.walk(x.value)
                                                          if isinstance(a, ast.Attribute) and a.attr in
                                                          ('hour', 'minute', 'second', 'microsecond')) >= 8]
        ck.need(R8, len(st8) == 1, "_maintask: the delay computation from the hour/minute/second/microsecond "
                "fields was not recognised")
        dvar = st8[0].targets[0].id

        def affine(e):
            """-> {variable text: coefficient, '': constant}; AnalysisError outside +,-,*const,/const."""
            if isinstance(e, ast.Constant) and isinstance(e.value, (int, float)) and not isinstance(e.value, bool):
                return {'': float(e.value)}
            if isinstance(e, ast.Name):
                try:
                    v = fold(prog, mod, e)
                except Unfoldable:
                    v = None
                if isinstance(v, (int, float)) and not isinstance(v, bool):
                    return {'': float(v)}
                return {e.id: 1.0}
            if isinstance(e, ast.Attribute):
                return {norm(e): 1.0}
            if isinstance(e, ast.UnaryOp) and isinstance(e.op, ast.USub):
                return {k: -v for k, v in affine(e.operand).items()}
            if isinstance(e, ast.BinOp) and isinstance(e.op, (ast.Add, ast.Sub)):
                a, b = affine(e.left), affine(e.right)
                sg = 1.0 if isinstance(e.op, ast.Add) else -1.0
                out = dict(a)
                for k, v in b.items():
                    out[k] = out.get(k, 0.0) + sg * v
                return out
            if isinstance(e, ast.BinOp) and isinstance(e.op, (ast.Mult, ast.Div)):
                a, b = affine(e.left), affine(e.right)
                if set(b) <= {''} and (isinstance(e.op, ast.Mult) or b.get('', 0.0) != 0.0):
                    c = b.get('', 0.0)
                    return {k: (v * c if isinstance(e.op, ast.Mult) else v / c) for k, v in a.items()}
                if set(a) <= {''} and isinstance(e.op, ast.Mult):
                    c = a.get('', 0.0)
                    return {k: v * c for k, v in b.items()}
            raise AnalysisError(R8, f"delay computation is not affine in the time fields: `{norm(e)[:70]}`")
        co = {k: v for k, v in affine(st8[0].value).items() if abs(v) > 1e-12}
        vars_ = sorted({k.rsplit('.', 1)[0] for k in co if '.' in k})
        okf = len(vars_) == 2
        msg = f"coefficients {co}"
        if okf:
            # which of the two is the wake-up: the one with the positive hour coefficient
            wk = [v for v in vars_ if co.get(f'{v}.hour', 0) > 0]
            nw = [v for v in vars_ if co.get(f'{v}.hour', 0) < 0]
            okf = len(wk) == 1 and len(nw) == 1
            if okf:
                want = {}
                for fld, c in (('hour', 3600.0), ('minute', 60.0), ('second', 1.0), ('microsecond', 1e-6)):
                    want[f'{wk[0]}.{fld}'] = c
                    want[f'{nw[0]}.{fld}'] = -c
                okf = set(co) == set(want) and all(abs(co[k] - want[k]) <= 1e-9 * max(1.0, abs(want[k])) for k in want)
                # the wake-up operand is the table entry, the other one the clock reading
                wdefs = [x for x in own_nodes(mt.node) if isinstance(x, ast.Assign) and norm(x.targets[0]) == wk[0]]
                okf = okf and bool(wdefs) and all('timetable[' in norm(x.value) for x in wdefs)
        ck.ob(R8, f"{mt.fid} :: {dvar} = wake-up - now in seconds", okf,
              "3600*dh + 60*dm + ds + du/1e6 with d = (table entry) - (clock reading)" if okf else
              f"the delay is not the difference wake-up minus now in seconds: {msg}", mt, st8[0])
        g8 = ck.cfg(mt.fid, 'M0')
        wraps = nodes_where(g8, lambda n: isinstance(n.ast, ast.AugAssign) and norm(n.ast.target) == dvar)
        okw = False
        if okf and len(wraps) == 1 and isinstance(wraps[0].ast.op, ast.Add):
            try:
                amount = fold(prog, mod, wraps[0].ast.value)
            except Unfoldable:
                amount = None
            from sa.cfg import canon_fact as _cf8
            facts = {_cf8(e_, p_) for e_, p_ in g8.guards(wraps[0])}
            need = {_cf8(ast.parse(f'{nw[0]}.hour == 23', mode='eval').body, True),
                    _cf8(ast.parse(f'{wk[0]}.hour == 0', mode='eval').body, True)}
            # the guards that dominate the wrap are exactly the two hour tests (plus loop conditions)
            hour_facts = {f for f in facts if '.hour' in f[0] and ' and ' not in f[0] and ' or ' not in f[0]}
            okw = amount == 86400 and need <= facts and hour_facts == need and \
                all(g8.dominates(g8.node_of(st8[0])[0], w_) for w_ in wraps)
        ck.ob(R8, f"{mt.fid} :: midnight wrap", okw,
              "one day is added exactly when now is in hour 23 and the wake-up in hour 0" if okw else
              "the midnight wrap of the delay is missing, conditional on something else, or not one day: "
              "the wake-up after 23:xx would be scheduled a day early / late", mt,
              wraps[0].ast if wraps else st8[0])


def _registry_run(ck, R10, prog):
    from sa.minieval import MiniEval, Obj, ModuleGlobals
    cron = prog.cls('blocklib.cron:Cron')
    add, rem = cron.methods.get('add_block'), cron.methods.get('remove_block')
    ck.need(R10, add is not None and rem is not None, "Cron.add_block / remove_block not found")

    def resolve(text):
        if text.startswith('self.') and text[5:].isidentifier() and text[5:] not in ('_check_tz',):
            f_ = prog.resolve_method(cron, text[5:])
            if f_ is not None and f_.cls is cron and not prog.is_dummy(f_):
                return f_.node
        return None
    TIMES = ('HOUR', 'OTHER')          # a time that is one of the 24 fixed wake-ups, and one that is not
    BLOCKS = ('b1', 'b2')
    ops = [(k, t, b) for k in ('add', 'remove') for t in TIMES for b in BLOCKS]
    bad = []
    n = 0
    for length in (1, 2, 3):
        for seq in itertools.product(ops, repeat=length):
            alarms = {}
            flag = [False]
            fl = Obj('flag', {'OR': lambda v: flag.__setitem__(0, flag[0] or bool(v)),
                              'set': lambda v=True: flag.__setitem__(0, bool(v)),
                              'clear': lambda: flag.__setitem__(0, False)})
            model, mflag = {}, False
            for k, t, b in seq:
                fi = add if k == 'add' else rem
                params = [a.arg for a in fi.node.args.args]
                env = {'self': 'SELF', params[1]: t, params[2]: b, 'self._alarms': alarms,
                       'self._needs_reload': fl, 'self._check_tz': lambda x: x, 'hasattr': lambda o, a: True}
                glob = ModuleGlobals(prog, fi.module, {'_SET24': frozenset({'HOUR'})})
                out = MiniEval(R10, env, resolve, globals_=glob).run(fi.node.body)
                if k == 'add':
                    if t not in model:
                        model[t] = set()
                        mflag = mflag or t != 'HOUR'
                    model[t].add(b)
                elif t in model:
                    model[t].discard(b)
                    if not model[t]:
                        del model[t]
                        mflag = mflag or t != 'HOUR'
                if out != ('return', None):
                    bad.append(f"{list(seq)}: {k}_block ends with {out}")
                    break
            n += 1
            got = {t_: set(v) for t_, v in alarms.items()}
            if got != model and len(bad) < 3:
                bad.append(f"after {[f'{k}({t},{b})' for k, t, b in seq]}: _alarms = {got}, documented {model}")
            elif mflag and not flag[0] and len(bad) < 3:
                bad.append(f"after {[f'{k}({t},{b})' for k, t, b in seq]}: no reload requested although a wake-up "
                           "time was created or deleted")
    ck.abstract_cases += n
    ck.ob(R10, f"{add.fid} / {rem.fid} :: abstract run", not bad,
          f"registry = registered blocks per time on all {n} call sequences" if not bad else '; '.join(bad[:2]),
          rem, rem.node)


def _jump_guard(ck, R11, prog):
    from sa.minieval import MiniEval, ModuleGlobals, _Fault, _Raised
    mt = prog.func('blocklib.cron:Cron._maintask')
    g = ck.cfg(mt.fid, 'M0')
    # the statement that sets the reset flag from the size of the difference: reset.OR(... diff > _TT_ERROR)
    sites = nodes_where(g, lambda n: any(call_name(c) in ('OR', 'set') and '_TT_ERROR' in norm(c)
                                         for c in node_calls(n)))
    ck.need(R11, len(sites) == 1, f"_maintask: expected one reset test mentioning _TT_ERROR, found {len(sites)}")
    site = sites[0]
    call = [c for c in node_calls(site) if call_name(c) in ('OR', 'set') and '_TT_ERROR' in norm(c)][0]
    ck.need(R11, len(call.args) == 1, "_maintask: unexpected arguments of the reset test")
    # the guards between the delay computation and that statement (tests inside the step loop)
    loops = [n for n in g.nodes if n.kind == 'for' and g.dominates(n, site)]
    ck.need(R11, loops, "_maintask: the step loop was not recognised")
    loop = max(loops, key=lambda n: n.id)
    stepvar = norm(loop.ast.target)
    guards = [(e, p) for e, p in g.guards(site)
              if any(isinstance(x, ast.Name) and x.id in (stepvar, 'sleeptime') for x in ast.walk(e))]
    # the local holding the delay: the operand of abs() feeding `diff`
    local_names = {t.id for x in ast.walk(mt.node) for t in ast.walk(x) if isinstance(t, ast.Name)
                   and isinstance(t.ctx, ast.Store)}
    dvars = ({x.id for e, _ in guards for x in ast.walk(e) if isinstance(x, ast.Name)} & local_names) - {stepvar}
    ck.need(R11, len(dvars) == 1, f"_maintask: the delay variable was not identified ({sorted(dvars)})")
    dvar = dvars.pop()
    glob = ModuleGlobals(prog, mt.module, {})
    tt_error = glob['_TT_ERROR'] if '_TT_ERROR' in glob else None
    ck.need(R11, isinstance(tt_error, (int, float)), "_TT_ERROR is not a foldable constant")
    bad = []
    n = 0
    for step in (0, 1, 2):
        for delay in (-90000.0, -4200.0, -(tt_error + 0.5), 3600.0 + tt_error + 0.5, 7000.0, 40000.0, 83700.0):
            env = {stepvar: step, dvar: delay, 'diff': abs(delay)}
            n += 1
            try:
                reached = all(bool(MiniEval(R11, dict(env), globals_=glob).ev(e)) == p for e, p in guards)
                flagged = reached and bool(MiniEval(R11, dict(env), globals_=glob).ev(call.args[0]))
            except (_Fault, _Raised) as exc:
                raise AnalysisError(R11, f"guard evaluation failed: {exc}")
            if not flagged:
                bad.append(f"step {step}, delay {delay:+.1f} s: " +
                           ("the reset test is not reached" if not reached else "the reset flag is not set"))
    ck.abstract_cases += n
    ck.ob(R11, f"{mt.fid} :: impossible delays reach the reset", not bad,
          f"all {n} combinations of step and an impossible delay set the reset flag" if not bad else
          '; '.join(bad[:3]) + " -- the scheduler then sleeps for that delay (up to a day) without "
          "recalculating any block", mt, site.ast)
