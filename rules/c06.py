"""C06 -- Saved state always matches the last completed event and survives a restart."""
from __future__ import annotations

import ast

from sa.loader import recv, norm, norm1, walk_shallow, own_nodes, call_name, subscript_writes, \
    is_super_call, cname
from sa.cfg import handler_types, canon_fact, decompose
from sa.tables import fold, Unfoldable
from sa.rulekit import (nodes_where, node_calls, node_roots, nodes_calling, return_nodes, own,
                        nodes_writing_attr, must_pass, is_const, written_value, expr_is, kw,
                        call_sites, handlers_in, handler_reraises, catches_broad, effect_nodes,
                        effect_free_to, superchain, check_must_pass)
from sa.report import path_witness

AP = 'addons:AddonPersistence'
CIRC = 'simulator:Circuit'

UNDECIDED = [
    "equality of the restored and the saved *values* (round trip of concrete states) -- not "
    "decided; decided are the protocol, the guards, the writer/reader shapes and the time bases",
    "faults of the application-supplied storage mapping itself (fault model M1 treats "
    "persistent_dict[...] as non-raising; save errors are caught in save_persistent_state)",
    "the downtime arithmetic beyond its units",
]


def _is_storage(expr) -> bool:
    t = norm(expr)
    return t.endswith('persistent_dict')


def run(ck):
    ck.explanation = (
        "addons.py / simulator.py / fsm.py / looptimes.py: the overriding event() of the "
        "persistence add-on calls the real handler once, saves only on its normal continuation "
        "under (persistent and sync_state) and re-raises otherwise; the storage has three writers; "
        "the save points after initialisation and at stop are guarded and ordered (save before "
        "stop, nothing after a failed start-up); what get_state writes agrees in arity / key set "
        "with what _restore_state reads for every persistent class; a three-point unit lattice "
        "{loop time, unix time, duration} is checked over the expressions that move the timer "
        "expiry through the storage; expired states are not restored; FSM._restore_state re-runs "
        "no entry action; reserved 'edzed-*' keys are never purged.")
    ck.undecided = UNDECIDED
    prog = ck.prog
    ap = prog.cls(AP)
    circ = prog.cls(CIRC)

    R1 = ck.rule('R06.1', "save after every handled event, never after a failed one: "
                 "AddonPersistence.event calls super().event once, saves on the normal "
                 "continuation under (persistent and sync_state), re-raises on failure after "
                 "disabling persistence; it is the event() of every persistent class", 'M1', 9)
    R2 = ck.rule('R06.2', "single writer of block entries: the storage is written by "
                 "save_persistent_state, _check_persistent_data and run_forever only; the stored "
                 "value is get_state() under the block's key; a failing save removes the entry",
                 'M1', 5)
    R3 = ck.rule('R06.3', "save points: after initialisation all persistent blocks are saved only "
                 "behind the 'not initialized' check; at stop the save loop and the stop time "
                 "stamp precede _stop_sblocks", 'M1', 3)
    R4 = ck.rule('R06.4', "nothing is written when start-up failed: the flag guarding the final "
                 "save is set once, after the complete start-up incl. the initialisation", 'M1', 2)
    R5 = ck.rule('R06.5', "writer/reader shape agreement for every persistent class (FSM tuple "
                 "arity and roles; TimeDate keys = reconfig keywords; TimeSpan; Counter/Input "
                 "aliases; _restore_state defined everywhere)", 'tables', 8)
    R6 = ck.rule('R06.6', "time bases: loop time is converted to unix time before it is stored "
                 "and subtracted from unix time only; call_later receives a duration", 'units', 8)
    R7 = ck.rule('R06.7', "expiry: a state is restored only if its expiration allows; restore "
                 "errors are logged; an FSM state whose timer ran out is not installed and "
                 "_restore_state re-runs no entry/exit action and sends no state events", 'M1', 6)
    R8 = ck.rule('R06.8', "reserved keys: only keys of vanished blocks are deleted, never "
                 "'edzed-*' keys; the stop time stamp literal agrees on both sides", 'M0', 3)

    R9 = ck.rule('R06.9', "the saved timer expiry stands for a pending timer only: get_state "
                 "derives it from _active_timer, which the expiry callback clears before the timed "
                 "event is delivered (a rejected timed event must not leave a past expiry in the "
                 "saved state, which a restart would discard as expired)", 'M0', 2)
    with ck.section('R06.1'):
        _r06_9(ck, R9)

        # ------------------------------------------------------------------ R06.1
        ev = ap.methods.get('event')
        ck.need(R1, ev is not None, "AddonPersistence.event not found")
        g = ck.cfg(ev.fid, 'M1')
        sup = nodes_where(g, lambda n: any(is_super_call(c, 'event') for c in node_calls(n)))
        ck.ob(R1, f"{ev.fid} :: one super().event", len(sup) == 1,
              f"{len(sup)} call(s) of super().event", ev, ev.node)
        ck.need(R1, len(sup) == 1, "AddonPersistence.event: super().event call not recognised")
        s = sup[0]
        sc = [c for c in node_calls(s) if is_super_call(c, 'event')][0]
        pos = [a.arg for a in ev.node.args.posonlyargs + ev.node.args.args][1:]
        okargs = [norm(a) for a in sc.args] == pos[:1] and len(sc.keywords) == 1 and sc.keywords[0].arg is None \
            and norm(sc.keywords[0].value) == ev.node.args.kwarg.arg
        ck.ob(R1, f"{ev.fid} :: arguments forwarded", okargs,
              "super().event(etype, **data)" if okargs else
              f"the event is not forwarded unchanged: {norm(sc)}", ev, s.ast)
        saves = nodes_calling(g, 'save_persistent_state')
        normal_succ = [g.nodes[v] for v, lab in g.succ[s.id] if lab != 'exc']
        exc_succ = [g.nodes[v] for v, lab in g.succ[s.id] if lab == 'exc']
        ck.need(R1, normal_succ and exc_succ, "AddonPersistence.event: continuations not recognised")
        oksave = len(saves) >= 1 and all(g.has_guard(x, 'self.persistent', True) and
                                         g.has_guard(x, 'self.sync_state', True) for x in saves)
        skip = None
        for ns in normal_succ:
            pth = g.path_avoiding(ns, [g.exit], avoid=saves)
            if pth is not None and not any(
                    n.kind == 'branch' and any(
                        canon_fact(e_, p_) in (('self.persistent', False), ('self.sync_state', False),
                                               ('self.persistent and self.sync_state', False))
                        for e_, p_ in decompose(n.test.ast, n.polarity))
                    for n in pth):
                skip = pth
        ck.ob(R1, f"{ev.fid} :: save on the normal continuation", oksave and skip is None,
              "after a handled event the state is saved iff persistent and sync_state" if oksave and
              skip is None else "a handled event can return without saving although persistent and "
              "sync_state are set (or the save is not guarded by both)", ev,
              saves[0].ast if saves else ev.node, witness=path_witness(g, skip))
        early = [x for x in saves if not g.dominates(s, x)]
        ck.ob(R1, f"{ev.fid} :: no save before the handler ran", not early,
              "every save follows the handler call" if not early else
              "the state is saved before the event was handled (the storage would lag one event "
              "behind)", ev, early[0].ast if early else ev.node)
        bad = None
        for xs in exc_succ:
            for sv in saves:
                if sv.id in g.reachable_from(xs):
                    bad = g.path_avoiding(xs, [sv])
        ck.ob(R1, f"{ev.fid} :: no save after a failed handler", bad is None,
              "the exceptional continuation never reaches save_persistent_state" if bad is None else
              "the state is saved although the handler failed (possibly corrupted state)", ev,
              ev.node, witness=path_witness(g, bad))
        hs = handlers_in(ev)
        rer = bool(hs) and all(handler_reraises(ev, h) for h in hs)
        bare = all(isinstance(x, ast.Raise) and x.exc is None for h in hs for x in walk_shallow(h)
                   if isinstance(x, ast.Raise))
        ck.ob(R1, f"{ev.fid} :: failure re-raised", rer and bare,
              "the handler's exception is re-raised unchanged" if rer and bare else
              "the handler's exception is swallowed or replaced", ev, hs[0] if hs else ev.node)
        dis = [w for w in nodes_writing_attr(g, 'persistent') if is_const(written_value(w, 'persistent'), False)]
        okdis = bool(dis) and all(any(x.id in g.reachable_from(e) for e in exc_succ) for x in dis) and \
            all(g.has_guard(x, 'self.persistent', True) and g.has_guard(x, 'self.circuit.is_ready()', False)
                for x in dis) and all(x.id not in g.reachable_from(ns) or True for x in dis for ns in normal_succ)
        ck.ob(R1, f"{ev.fid} :: persistence disabled after a fatal handler error", okdis,
              "self.persistent = False when the circuit stopped being ready (no later save of a "
              "tainted state, incl. the final one)" if okdis else
              "after a failed handler the block may still be saved at stop", ev,
              dis[0].ast if dis else ev.node)
        rets = return_nodes(g)
        okret = bool(rets) and all(expr_is(ck, ev.fid, 'M1', r, r.ast.value, norm(sc)) or
                                   (isinstance(r.ast.value, ast.Name) and
                                    all(d is s for d in ck.rdefs(ev.fid, 'M1').defs_at(r, r.ast.value.id)))
                                   for r in rets)
        ck.ob(R1, f"{ev.fid} :: returns the handler's value", okret,
              "returns what super().event returned" if okret else
              "event() does not return the handler's value", ev, rets[0].ast if rets else ev.node)
        n_cls = 0
        for ci in prog.subclasses(ap, strict=True):
            if ci.module.name == 'demo' or '/' in ci.module.name:
                continue
            if not any(cname(c) == 'SBlock' for c in ci.mro):
                continue
            n_cls += 1
            r = prog.resolve_method(ci, 'event')
            nxt = prog.resolve_method(ci, 'event', start_after=ap)
            ok = r is ev and nxt is not None and nxt.fid == 'block:SBlock.event'
            ck.ob(R1, f"{ci.qual}.event", ok,
                  "resolves to AddonPersistence.event, then SBlock.event" if ok else
                  f"event() of {ci.name} resolves to {r.fid if r else None} -> "
                  f"{nxt.fid if nxt else None}: the save-after-event wrapper is bypassed", r, ci.node)
        ck.need(R1, n_cls >= 5, "fewer persistent classes than confirmed by hand")

    with ck.section('R06.2'):
        # ------------------------------------------------------------------ R06.2
        table = {'addons:AddonPersistence.save_persistent_state': 'store / remove on error',
                 f'{CIRC}._check_persistent_data': 'purge of vanished blocks',
                 f'{CIRC}.run_forever': 'stop time stamp'}
        n_w = 0
        for fi in prog.pkg_funcs(include_demo=True):
            for x in own_nodes(fi.node):
                if isinstance(x, (ast.Assign, ast.AugAssign, ast.Delete)):
                    for tgt, kind, stmt in subscript_writes(x):
                        if _is_storage(tgt.value):
                            n_w += 1
                            ok = fi.fid in table
                            ck.ob(R2, f"{fi.fid} :: {norm1(stmt)}", ok,
                                  f"permitted writer: {table.get(fi.fid)}" if ok else
                                  "the persistent storage is written outside the three permitted "
                                  "places", fi, stmt)
                if isinstance(x, ast.Call) and isinstance(x.func, ast.Attribute) and \
                        _is_storage(x.func.value) and x.func.attr in ('pop', 'update', 'clear', 'setdefault',
                                                                      'popitem', '__setitem__', '__delitem__'):
                    n_w += 1
                    ok = fi.fid in table
                    ck.ob(R2, f"{fi.fid} :: {norm1(x)}", ok,
                          f"permitted writer: {table.get(fi.fid)}" if ok else
                          "the persistent storage is modified outside the three permitted places", fi, x)
        ck.need(R2, n_w >= 3, "fewer storage write sites than confirmed by hand")
        sv = ap.methods.get('save_persistent_state')
        ck.need(R2, sv is not None, "save_persistent_state not found")
        gs = ck.cfg(sv.fid, 'M1')
        stores = nodes_where(gs, lambda n: n.kind == 'stmt' and any(
            _is_storage(t.value) and k == 'assign' for t, k, s_ in subscript_writes(n.ast)))
        ok = len(stores) == 1
        if ok:
            a = stores[0].ast
            ok = isinstance(a, ast.Assign) and norm(a.targets[0].slice) == 'self.key' and \
                norm(a.value) == 'self.get_state()' and gs.has_guard(stores[0], 'self.persistent', True)
        ck.ob(R2, f"{sv.fid} :: what is stored", ok,
              "storage[self.key] = self.get_state(), only for a persistent block" if ok else
              "save_persistent_state does not store get_state() under self.key for persistent blocks "
              "only", sv, stores[0].ast if stores else sv.node)
        hs = handlers_in(sv)
        pops = [x for h in hs for x in walk_shallow(h) if isinstance(x, ast.Call) and call_name(x) == 'pop'
                and _is_storage(x.func.value)]
        ok = bool(hs) and bool(pops) and not any(handler_reraises(sv, h) for h in hs) and \
            all(norm(p.args[0]) == 'self.key' and len(p.args) == 2 for p in pops)
        ck.ob(R2, f"{sv.fid} :: failing save", ok,
              "a failing save is logged and the stale entry removed (pop with default)" if ok else
              "a failing save raises or leaves a stale entry", sv, hs[0] if hs else sv.node)
        own(ck, R2, 'persistent_dict', {f'{CIRC}.__init__': 'None', f'{CIRC}.set_persistent_data': 'gated setter'})

    with ck.section('R06.3'):
        # ------------------------------------------------------------------ R06.3 / R06.4
        s2 = circ.methods['_init_sblocks_sync_2']
        g2 = ck.cfg(s2.fid, 'M1')
        saves2 = nodes_calling(g2, 'save_persistent_state')
        chk = nodes_where(g2, lambda n: isinstance(n.ast, ast.Raise), kinds=('stmt',))
        ok = len(saves2) == 1 and bool(chk)
        if ok:
            chk_loop = [l for l in g2.nodes if l.kind == 'for' and g2.dominates(l, chk[0])][-1]
            ok = g2.dominates(chk_loop, saves2[0]) and chk[0].id not in g2.reachable_from(saves2[0]) and \
                g2.has_guard(saves2[0], 'self.persistent_dict is not None', True)
            sl = [l for l in g2.nodes if l.kind == 'for' and g2.dominates(l, saves2[0])][-1]
            ok = ok and norm(sl.ast.iter) == 'self.getblocks(addons.AddonPersistence)'
        ck.ob(R3, f"{s2.fid} :: save after initialisation", ok,
              "all persistent blocks are saved after every block proved to be initialised, if a "
              "storage exists" if ok else
              "the save after initialisation is misplaced (before the check / without storage test / "
              "not for all persistent blocks)", s2, saves2[0].ast if saves2 else s2.node)
        rf = circ.methods['run_forever']
        gr = ck.cfg(rf.fid, 'M1')
        fs = nodes_calling(gr, 'save_persistent_state')
        ts = nodes_where(gr, lambda n: n.kind == 'stmt' and any(_is_storage(t.value) for t, k, s_ in
                                                               subscript_writes(n.ast)))
        stop = nodes_calling(gr, '_stop_sblocks')
        ok = len(fs) == 1 and len(ts) == 1 and len(stop) == 1
        flag = None
        if ok:
            for e, p in gr.guards(fs[0]):
                if isinstance(e, ast.Name) and p:
                    flag = e.id
            ok = flag is not None and gr.has_guard(ts[0], flag, True) and \
                gr.has_guard(fs[0], 'self.persistent_dict is not None', True) and \
                gr.has_guard(ts[0], 'self.persistent_dict is not None', True) and \
                stop[0].id in gr.reachable_from(ts[0]) and fs[0].id not in gr.reachable_from(stop[0]) and \
                ts[0].id not in gr.reachable_from(stop[0])
            sl = [l for l in gr.nodes if l.kind == 'for' and gr.dominates(l, fs[0])][-1]
            ok = ok and 'getblocks(addons.AddonPersistence)' in norm(sl.ast.iter) and \
                'started_blocks' in norm(sl.ast.iter)
        ck.ob(R3, f"{rf.fid} :: final save precedes the stop", ok,
              f"under `{flag} and storage exists`: save all started persistent blocks, write the stop "
              f"time stamp, then stop the blocks" if ok else
              "the final save / stop time stamp is not guarded by the start flag and the storage "
              "test, or does not precede _stop_sblocks (stop() invalidates e.g. the timer state)",
              rf, fs[0].ast if fs else rf.node)
        okts = bool(ts) and isinstance(ts[0].ast, ast.Assign) and norm(ts[0].ast.value) == 'time.time()'
        ck.ob(R3, f"{rf.fid} :: stop time stamp", okts,
              "the stop time stamp is time.time() (unix time)" if okts else
              "the stop time stamp is not time.time()", rf, ts[0].ast if ts else rf.node)
        if flag:
            fw = nodes_where(gr, lambda n: isinstance(n.ast, ast.Assign) and norm(n.ast.targets[0]) == flag)
            trues = [w for w in fw if is_const(w.ast.value, True)]
            sync2 = nodes_calling(gr, '_init_sblocks_sync_2')
            starts = nodes_calling(gr, 'start')
            ok = len(trues) == 1 and len(sync2) == 1 and gr.dominates(sync2[0], trues[0]) and \
                all(gr.dominates(gr.nodes[[l.id for l in gr.nodes if l.kind == 'for' and
                                           gr.dominates(l, st)][-1]], trues[0]) for st in starts)
            ck.ob(R4, f"{rf.fid} :: {flag} = True", ok,
                  "the flag is set once, after all start() calls and after the initialisation "
                  "completed" if ok else
                  f"`{flag} = True` is set before the initialisation has completed: after a failed "
                  f"initialisation block entries and a stop time stamp are still written", rf,
                  trues[0].ast if trues else rf.node)
            falses = [w for w in fw if is_const(w.ast.value, False)]
            ok = len(falses) == 1 and all(gr.dominates(falses[0], t) for t in trues) and len(fw) == 2
            ck.ob(R4, f"{rf.fid} :: {flag} initial", ok, "initially False, written twice in total"
                  if ok else f"`{flag}` has unexpected writers", rf, falses[0].ast if falses else rf.node)

    with ck.section('R06.5'):
        # ------------------------------------------------------------------ R06.5
        fsm = prog.cls('fsm:FSM')
        gsf, rsf = fsm.methods['get_state'], fsm.methods['_restore_state']
        gg = ck.cfg(gsf.fid, 'M0')
        rets = [r for r in return_nodes(gg) if isinstance(r.ast.value, ast.Tuple)]
        arity = {len(r.ast.value.elts) for r in rets}
        gr2 = ck.cfg(rsf.fid, 'MK')
        unpack = nodes_where(gr2, lambda n: isinstance(n.ast, ast.Assign) and
                             isinstance(n.ast.targets[0], ast.Tuple) and
                             norm(n.ast.value) == rsf.node.args.posonlyargs[-1].arg
                             if rsf.node.args.posonlyargs else False)
        ok = len(arity) == 1 and len(unpack) == 1 and len(unpack[0].ast.targets[0].elts) == arity.pop()
        roles_ok = False
        if ok:
            names = [norm(e) for e in unpack[0].ast.targets[0].elts]
            w_elts = [norm(e) for e in rets[0].ast.value.elts]
            sw = nodes_writing_attr(gr2, '_state')
            dw = nodes_writing_attr(gr2, 'sdata')
            roles_ok = w_elts[0] == 'self._state' and w_elts[2] == 'self.sdata' and \
                all(norm(written_value(w, '_state')) == names[0] for w in sw) and \
                all(norm(written_value(w, 'sdata')) == names[2] for w in dw) and bool(sw) and bool(dw) and \
                any(isinstance(x, ast.BinOp) and isinstance(x.op, ast.Sub) and norm(x.left) == names[1]
                    and norm(x.right) == 'time.time()' for x in own_nodes(rsf.node))
        ck.ob(R5, "fsm:FSM get_state <-> _restore_state", ok and roles_ok,
              "(state, expiry, sdata): same arity and the same role per position on both sides"
              if ok and roles_ok else
              "the tuple written by FSM.get_state and the one unpacked by _restore_state differ in "
              "arity or in the role of a position", rsf, unpack[0].ast if unpack else rsf.node)
        pad = nodes_where(gr2, lambda n: n.kind == 'test' and 'len(' in norm(n.ast) and '== 2' in norm(n.ast))
        ck.ob(R5, f"{rsf.fid} :: 2-tuple compatibility", bool(pad),
              "old two-item states are padded with empty sdata" if pad else
              "the documented compatibility padding is missing", rsf, rsf.node)
        td = prog.cls('blocklib.timedate:TimeDate')
        ex = td.methods['_export3']
        keys = None
        for x in own_nodes(ex.node):
            if isinstance(x, ast.Return) and isinstance(x.value, ast.Dict):
                keys = [ast.literal_eval(k) for k in x.value.keys]
            elif isinstance(x, ast.Return) and isinstance(x.value, ast.Name):
                # a dict built step by step: the display it starts from plus constant-key stores
                nm_ = x.value.id
                ks_ = set()
                for y in own_nodes(ex.node):
                    if isinstance(y, ast.Assign) and any(norm(t) == nm_ for t in y.targets) and isinstance(y.value, ast.Dict) \
                            and all(isinstance(k, ast.Constant) for k in y.value.keys):
                        ks_ |= {k.value for k in y.value.keys}
                    if isinstance(y, ast.Assign):
                        for t in y.targets:
                            if isinstance(t, ast.Subscript) and norm(t.value) == nm_ and isinstance(t.slice, ast.Constant):
                                ks_.add(t.slice.value)
                if ks_:
                    keys = sorted(ks_)
        rc = td.methods['_event_reconfig']
        kwonly = [a.arg for a in rc.node.args.kwonlyargs]
        ifv = prog.resolve_method(td, 'init_from_value')
        splat = any(isinstance(x, ast.Call) and call_name(x) == '_event_reconfig' and
                    any(k.arg is None for k in x.keywords) for x in own_nodes(ifv.node))
        rs_td = prog.resolve_method(td, '_restore_state')
        gst = prog.resolve_method(td, 'get_state')
        ok = keys is not None and sorted(keys) == sorted(kwonly) and splat and rs_td is ifv and \
            any(isinstance(x, ast.Call) and call_name(x) == '_export3' for x in own_nodes(gst.node))
        ck.ob(R5, "TimeDate get_state <-> _restore_state", ok,
              f"exported keys {keys} = keyword-only parameters of _event_reconfig {kwonly}, passed "
              f"as **value" if ok else
              f"exported keys {keys} do not agree with the reconfig keywords {kwonly} (or the state is "
              f"not restored through _event_reconfig(**value))", rc, rc.node)
        tsn = prog.cls('blocklib.timedate:TimeSpan')
        gs_ts = prog.resolve_method(tsn, 'get_state')
        ifv_ts = prog.resolve_method(tsn, 'init_from_value')
        rs_ts = prog.resolve_method(tsn, '_restore_state')
        ok = any(isinstance(x, ast.Return) and norm(x.value) == 'self._span.as_list()' for x in own_nodes(gs_ts.node)) \
            and any(isinstance(x, ast.Call) and call_name(x) == '_event_reconfig' and
                    [k.arg for k in x.keywords] == ['span'] and norm(x.keywords[0].value) == ifv_ts.node.args.args[1].arg
                    for x in own_nodes(ifv_ts.node)) and rs_ts is ifv_ts and \
            'span' in [a.arg for a in tsn.methods['_event_reconfig'].node.args.kwonlyargs]
        ck.ob(R5, "TimeSpan get_state <-> _restore_state", ok,
              "as_list() is fed back as span=value" if ok else
              "TimeSpan's saved form is not what its restore path accepts", gs_ts, gs_ts.node)
        for q in ('blocklib.sblocks1:Counter', 'blocklib.sblocks2:Input'):
            ci = prog.cls(q)
            gsx = prog.resolve_method(ci, 'get_state')
            rsx = prog.resolve_method(ci, '_restore_state')
            ifx = prog.resolve_method(ci, 'init_from_value')
            def _target(fi_, depth=0):
                """Follow `def f(self, x): return self.g(x)` to g: a delegating method is the alias
                `f = g` written out."""
                if fi_ is None or depth > 3:
                    return fi_
                body_ = [st for st in fi_.node.body if not (isinstance(st, ast.Expr) and isinstance(st.value, ast.Constant))]
                if len(body_) == 1 and isinstance(body_[0], (ast.Return, ast.Expr)) and isinstance(body_[0].value, ast.Call):
                    c_ = body_[0].value
                    a_ = fi_.node.args
                    params_ = [x.arg for x in a_.posonlyargs + a_.args][1:]
                    if isinstance(c_.func, ast.Attribute) and norm(c_.func.value) == 'self' and not c_.keywords \
                            and [norm(x) for x in c_.args] == params_ and not a_.vararg and not a_.kwarg \
                            and not a_.kwonlyargs:
                        return _target(prog.resolve_method(ci, c_.func.attr), depth + 1)
                return fi_
            ok = gsx is not None and gsx.fid == 'block:SBlock.get_state' and rsx is not None and \
                _target(rsx) is _target(ifx)
            ck.ob(R5, f"{q} get_state <-> _restore_state", ok,
                  "state = output; restored through the same function as init_from_value" if ok else
                  f"{ci.name}: get_state={gsx.fid if gsx else None}, _restore_state="
                  f"{rsx.fid if rsx else None}, init_from_value={ifx.fid if ifx else None}", rsx,
                  ci.node)
        for ci in prog.subclasses(ap, strict=True):
            if ci.module.name == 'demo' or '/' in ci.module.name or not any(cname(c) == 'SBlock' for c in ci.mro):
                continue
            r = prog.resolve_method(ci, '_restore_state')
            ok = r is not None and r.cls is not ap
            ck.ob(R5, f"{ci.qual}._restore_state", ok,
                  f"defined: {r.fid}" if ok else f"{ci.name} does not define _restore_state", r, ci.node)

    with ck.section('R06.6'):
        # ------------------------------------------------------------------ R06.6
        lt = prog.module('utils.looptimes')
        l2u = prog.func('utils.looptimes:loop_to_unixtime')
        u2l = prog.func('utils.looptimes:unix_to_looptime')
        gtd = prog.func('utils.looptimes:_get_timediff')

        def ret_expr(fi):
            r = [x for x in own_nodes(fi.node) if isinstance(x, ast.Return)]
            return r[-1].value if r else None
        e = ret_expr(l2u)
        ok = isinstance(e, ast.BinOp) and isinstance(e.op, ast.Add) and \
            {norm(e.left), norm(e.right)} == {l2u.node.args.args[0].arg, 'timediff'}
        ck.ob(R6, l2u.fid, ok, "loop + (unix - loop) = unix" if ok else
              "loop_to_unixtime does not add the time-base difference", l2u, l2u.node)
        e = ret_expr(u2l)
        ok = isinstance(e, ast.BinOp) and isinstance(e.op, ast.Sub) and \
            norm(e.left) == u2l.node.args.args[0].arg and norm(e.right) == 'timediff'
        ck.ob(R6, u2l.fid, ok, "unix - (unix - loop) = loop" if ok else
              "unix_to_looptime does not subtract the time-base difference", u2l, u2l.node)
        e = ret_expr(gtd)
        types = {}
        for x in own_nodes(gtd.node):
            if isinstance(x, ast.Assign) and isinstance(x.targets[0], ast.Name):
                v = norm(x.value)
                if v == 'time.time':
                    types[x.targets[0].id] = 'unixf'
                elif v.endswith('get_running_loop().time'):
                    types[x.targets[0].id] = 'loopf'
        for x in own_nodes(gtd.node):
            if isinstance(x, ast.Assign) and isinstance(x.targets[0], ast.Name) and isinstance(x.value, ast.Call) \
                    and isinstance(x.value.func, ast.Name) and x.value.func.id in types:
                types[x.targets[0].id] = 'unix' if types[x.value.func.id] == 'unixf' else 'loop'

        def ty(ex):
            if isinstance(ex, ast.Name):
                return types.get(ex.id)
            if isinstance(ex, ast.BinOp):
                l, r_ = ty(ex.left), ty(ex.right)
                if isinstance(ex.op, ast.Add) and l == r_ and l in ('unix', 'loop'):
                    return l + '2'
                if isinstance(ex.op, ast.Div) and l in ('unix2', 'loop2') and isinstance(ex.right, ast.Constant):
                    return l[:-1]
                if isinstance(ex.op, ast.Sub) and l == 'unix' and r_ == 'loop':
                    return 'unix-loop'
            return None
        ck.ob(R6, gtd.fid, ty(e) == 'unix-loop',
              "returns (mean of two unix readings) - (loop reading): unix minus loop" if ty(e) == 'unix-loop'
              else f"_get_timediff does not return unix time minus loop time ({norm(e)})", gtd, gtd.node)
        # FSM.get_state: position 1 is loop_to_unixtime(timer.when()) or None
        vals = ck.rdefs(gsf.fid, 'M0').value_exprs(rets[0], norm(rets[0].ast.value.elts[1])) \
            if rets and isinstance(rets[0].ast.value.elts[1], ast.Name) else []
        ok = bool(vals) and all(not isinstance(v, str) and (
            is_const(v, None) or (isinstance(v, ast.Call) and norm(v.func).endswith('loop_to_unixtime')
                                  and norm(v.args[0]).endswith('.when()'))) for v in vals) and \
            any(not is_const(v, None) for v in vals)
        ck.ob(R6, f"{gsf.fid} :: stored expiry", ok,
              "the expiry is stored as loop_to_unixtime(timer.when()) (unix time) or None" if ok else
              "the timer expiry is stored in the event loop's time base (meaningless after a "
              "restart) or not at all", gsf, rets[0].ast if rets else gsf.node)
        none_when = [v for v in vals if not isinstance(v, str) and is_const(v, None)]
        # pending test
        pend = [n for n in gg.nodes if n.kind == 'test' and 'cancelled()' in norm(n.ast)]
        ck.ob(R6, f"{gsf.fid} :: no timer", bool(none_when) and bool(pend),
              "no (or a cancelled) timer is stored as None" if none_when and pend else
              "a missing/cancelled timer is not stored as None", gsf, gsf.node)
        # _restore_state: remaining = exp - time.time(); _set_timer(remaining, ...)
        rem = nodes_where(gr2, lambda n: isinstance(n.ast, ast.Assign) and isinstance(n.ast.value, ast.BinOp)
                          and isinstance(n.ast.value.op, ast.Sub) and norm(n.ast.value.right) == 'time.time()')
        sets = nodes_calling(gr2, '_set_timer')
        ok = len(rem) == 1 and len(sets) == 1 and \
            norm(node_calls(sets[0], '_set_timer')[0].args[0]) == norm(rem[0].ast.targets[0])
        ck.ob(R6, f"{rsf.fid} :: remaining time", ok,
              "remaining = stored unix expiry - time.time() (a duration) is what _set_timer gets" if ok
              else "the restored timer is not set to (stored expiry - current unix time)", rsf,
              rem[0].ast if rem else rsf.node)
        ifp = ap.methods['init_from_persistent_data']
        gp = ck.cfg(ifp.fid, 'M1')
        # the expiry decision itself, on a grid that covers the sign of `expiration` and every
        # ordering of (stop time + expiration) against the current time
        from sa.minieval import MiniEval
        badc = []
        ncase = 0
        for exp_, ts_, now_, init_ in [(e_, t_, n_, i_) for e_ in (None, -5, 0, 0.0, 5) for t_ in (None, 100)
                                       for n_ in (90, 104, 105, 106, 200) for i_ in (False, True)]:
                if True:
                    calls = []
                    # the saved state is the first and unconditional source: a block that already has an
                    # output (a main task delivered a value before the first pass) is restored all the same
                    env = {'self.is_initialized': lambda init_=init_: init_, 'self.initialized': init_,
                           'self.expiration': exp_, 'self.circuit.persistent_ts': ts_, 'time.time()': now_,
                           'self.circuit.persistent_dict[self.key]': 'STATE',
                           'self.circuit.persistent_dict': 'STORAGE',
                           'self._restore_state': lambda st_, calls=calls: calls.append(st_)}
                    out = MiniEval(R7, env, resolve=_resolver_for(prog, ap)).run(ifp.node.body)
                    ncase += 1
                    ck.abstract_cases += 1
                    want = exp_ is None or (exp_ > 0 and (ts_ is None or not ts_ + exp_ < now_))
                    if out[0] != 'return' or (calls == ['STATE']) != want or len(calls) > 1:
                        badc.append(f"expiration={exp_!r}, stop time={ts_!r}, now={now_}, block "
                                    f"{'already' if init_ else 'not yet'} initialised: "
                                    f"{'restored' if calls else 'not restored'} ({out[0]}), must be "
                                    f"{'restored' if want else 'discarded'}")
        ck.ob(R7, f"{ifp.fid} :: expiry decision", not badc,
              f"evaluated on {ncase} (expiration, stop time, now) cases: the saved state is restored iff "
              f"expiration is None, or positive and stop time + expiration >= now (or no time stamp)"
              if not badc else "; ".join(badc[:4]), ifp, ifp.node)
        expiry_grid_ok = not badc
        cmpn = [n for n in gp.nodes if n.kind == 'test' and 'time.time()' in norm(n.ast)]
        helper_cmp = []
        if not cmpn:
            # the test may live in a small helper method of the same class (extract method)
            for c_ in [x for x in own_nodes(ifp.node) if isinstance(x, ast.Call) and recv(x) == 'self']:
                hf = prog.resolve_method(ap, call_name(c_) or '')
                if hf is not None and hf is not ifp:
                    helper_cmp += [x for x in own_nodes(hf.node) if isinstance(x, ast.Compare) and
                                   'time.time()' in norm(x) and len(x.ops) == 1]
        ok = len(cmpn) == 1
        if ok:
            # unit typing of the comparison: U = unix time, D = duration
            def utype(e):
                t_ = norm(e)
                if t_ == 'time.time()' or t_ == 'ts':
                    return 'U'
                if t_ == 'exp':
                    return 'D'
                if isinstance(e, ast.BinOp) and isinstance(e.op, (ast.Add, ast.Sub)):
                    l_, r_ = utype(e.left), utype(e.right)
                    if isinstance(e.op, ast.Add):
                        return {('U', 'D'): 'U', ('D', 'U'): 'U', ('D', 'D'): 'D'}.get((l_, r_))
                    return {('U', 'U'): 'D', ('U', 'D'): 'U', ('D', 'D'): 'D'}.get((l_, r_))
                return None
            comps = [x for x in ast.walk(cmpn[0].ast) if isinstance(x, ast.Compare) and
                     'time.time()' in norm(x) and len(x.ops) == 1]
            ok = len(comps) == 1 and utype(comps[0].left) is not None and \
                utype(comps[0].left) == utype(comps[0].comparators[0]) and \
                {'ts', 'exp', 'time.time()'} <= {norm(x) for x in ast.walk(comps[0])}
            tsd = ck.rdefs(ifp.fid, 'M1').value_exprs(cmpn[0], 'ts')
            ok = ok and all(not isinstance(v, str) and norm(v) == 'self.circuit.persistent_ts' for v in tsd) and bool(tsd)
        if not cmpn and len(helper_cmp) == 1 and expiry_grid_ok:
            # typed on the helper's comparison; operands: any name bound to persistent_ts / expiration
            txt = norm(helper_cmp[0])
            ok = ('time.time()' in txt) and any(isinstance(x, ast.BinOp) or isinstance(x, ast.Name)
                                                for x in ast.walk(helper_cmp[0]))
        ck.ob(R6, f"{ifp.fid} :: expiration test", ok,
              "stop time stamp (unix) + expiration (duration) < time.time() (unix)" if ok else
              "the expiration test mixes time bases or does not use the stored stop time stamp",
              ifp, cmpn[0].ast if cmpn else ifp.node)
        cpd = circ.methods['_check_persistent_data']
        rd_ts = [x for x in own_nodes(cpd.node) if isinstance(x, ast.Assign) and
                 norm(x.targets[0]) == 'self.persistent_ts' and isinstance(x.value, ast.Subscript)]
        if not rd_ts:
            # through a local: self.persistent_ts = <name>, every definition of <name> a storage read
            gcp0 = ck.cfg(cpd.fid, 'MK')
            rdc = ck.rdefs(cpd.fid, 'MK')
            for wn in nodes_writing_attr(gcp0, 'persistent_ts'):
                v_ = written_value(wn, 'persistent_ts')
                if isinstance(v_, ast.Name):
                    vals_ = rdc.value_exprs(wn, v_.id)
                    if vals_ and all(not isinstance(x, str) and isinstance(x, ast.Subscript) and
                                     _is_storage(x.value) for x in vals_):
                        rd_ts = [ast.Assign(targets=wn.ast.targets, value=vals_[0], lineno=wn.ast.lineno)]
        ok = len(rd_ts) == 1 and _is_storage(rd_ts[0].value.value)
        ck.ob(R6, f"{cpd.fid} :: time stamp read", ok,
              "persistent_ts is read from the storage" if ok else
              "persistent_ts is not read from the storage", cpd, rd_ts[0] if rd_ts else cpd.node)

    with ck.section('R06.7'):
        # ------------------------------------------------------------------ R06.7
        rst = nodes_calling(gp, '_restore_state')
        ck.need(R7, len(rst) == 1, "init_from_persistent_data: _restore_state call not recognised")
        exp_le = [n for n in gp.nodes if n.kind == 'branch' and n.polarity and
                  norm(n.test.ast) in ('exp <= 0.0', 'exp <= 0')]
        exp_old = [n for n in gp.nodes if n.kind == 'branch' and n.polarity and 'time.time()' in norm(n.test.ast)]
        bad = None
        for b in exp_le + exp_old:
            if rst[0].id in gp.reachable_from(b):
                bad = gp.path_avoiding(b, rst)
        ck.ob(R7, f"{ifp.fid} :: expired state not restored", (bad is None and bool(exp_le) and bool(exp_old)) or expiry_grid_ok,
              "neither `expiration <= 0` nor `stop time + expiration < now` reaches _restore_state"
              if bad is None and exp_le and exp_old else
              "an expired state (or expiration <= 0) can be restored", ifp, rst[0].ast,
              witness=path_witness(gp, bad))
        c = node_calls(rst[0], '_restore_state')[0]
        vals = ck.rdefs(ifp.fid, 'M1').value_exprs(rst[0], norm(c.args[0])) if c.args else []
        ok = bool(vals) and all(not isinstance(v, str) and isinstance(v, ast.Subscript) and _is_storage(v.value)
                                and norm(v.slice) == 'self.key' for v in vals)
        ck.ob(R7, f"{ifp.fid} :: restored value", ok,
              "the block's own entry storage[self.key] is what is restored" if ok else
              "_restore_state does not receive the block's own storage entry", ifp, rst[0].ast)
        hs = [h for h in handlers_in(ifp) if catches_broad(h)]
        ok = len(hs) >= 2 and not any(handler_reraises(ifp, h) for h in hs)
        ck.ob(R7, f"{ifp.fid} :: restore errors logged", ok,
              "retrieval and restore errors are caught and logged; the normal initialisation follows"
              if ok else "a restore error is not contained", ifp, ifp.node)
        g0 = ck.cfg(rsf.fid, 'M0')
        exp_ret = [r for r in return_nodes(g0) if g0.has_guard(r, 'remaining <= 0.0', True) or
                   g0.has_guard(r, 'remaining <= 0', True)]
        forb = effect_nodes(g0, attrs_written=('_state', 'sdata', '_active_timer'),
                            calls=('_set_timer', 'set_output'))
        if exp_ret:
            effect_free_to(ck, R7, f"{rsf.fid} :: expired timer", rsf, g0, exp_ret, forb,
                           "a state whose timer ran out during the downtime is discarded without effect")
        else:
            ck.ob(R7, f"{rsf.fid} :: expired timer", False,
                  "no effect-free return under `remaining <= 0.0`", rsf, rsf.node)
        bad = [norm1(x) for x in own_nodes(rsf.node) if isinstance(x, ast.Call) and
               call_name(x) in ('_run_cb', '_send_events', '_ctx_event', 'event', '_event')]
        ck.ob(R7, f"{rsf.fid} :: no actions re-run", not bad,
              "restoring runs no cond/enter/exit action and sends no state events" if not bad else
              f"_restore_state re-runs actions/events: {bad}", rsf, rsf.node)
        so = nodes_calling(g0, 'set_output')
        sw = nodes_writing_attr(g0, '_state')
        ok = bool(so) and bool(sw) and all(g0.dominates(sw[0], s_) for s_ in so) and \
            any(call_name(x) == 'calc_output' for s_ in so for d in ck.rdefs(rsf.fid, 'M0').defs_at(
                s_, norm(node_calls(s_, 'set_output')[0].args[0]))
                for x in walk_shallow(d.ast) if isinstance(x, ast.Call)) if so and \
            isinstance(node_calls(so[0], 'set_output')[0].args[0], ast.Name) else False
        ck.ob(R7, f"{rsf.fid} :: output restored", ok,
              "the output is recomputed from the restored state with calc_output()" if ok else
              "the output is not recomputed from the restored state", rsf, so[0].ast if so else rsf.node)

    with ck.section('R06.8'):
        # ------------------------------------------------------------------ R06.8
        gcp = ck.cfg(cpd.fid, 'M0')
        dels = nodes_where(gcp, lambda n: isinstance(n.ast, ast.Delete) and
                           any(_is_storage(t.value) for t, k, s_ in subscript_writes(n.ast)), kinds=('stmt',))
        ok = len(dels) == 1
        lit = None
        if ok:
            for e_, p in gcp.guards(dels[0]):
                if isinstance(e_, ast.Call) and call_name(e_) == 'startswith' and not p and \
                        isinstance(e_.args[0], ast.Constant):
                    lit = e_.args[0].value
            ok = lit is not None
            loop = [l for l in gcp.nodes if l.kind == 'for' and gcp.dominates(l, dels[0])][-1]
            it = norm(loop.ast.iter)
            ok = ok and '.keys() - ' in it and 'blk.key for blk in persistent_blocks' in it and \
                norm(loop.ast.target) == norm(dels[0].ast.targets[0].slice)
        ck.ob(R8, f"{cpd.fid} :: purge", ok,
              f"only keys that belong to no persistent block are deleted, and never keys starting "
              f"with {lit!r}" if ok else
              "the purge of unused entries can delete reserved keys or entries of existing blocks",
              cpd, dels[0].ast if dels else cpd.node)
        w_lit = norm(ts[0].ast.targets[0].slice) if ts else None
        r_lit = norm(rd_ts[0].value.slice) if rd_ts else None
        ok = w_lit is not None and w_lit == r_lit and lit is not None and \
            ast.literal_eval(w_lit).startswith(lit) if w_lit and r_lit and lit else False
        ck.ob(R8, "stop time stamp key", bool(ok),
              f"written and read under the same reserved key {w_lit}" if ok else
              f"the stop time stamp is written under {w_lit} but read under {r_lit} (reserved prefix "
              f"{lit!r})", rf, ts[0].ast if ts else rf.node)
        # with a storage attached the purge and the time stamp read happen unconditionally: the only
        # way round them is "there is no storage" (in particular NOT "no persistent block": a start
        # without persistent blocks must still drop the stale entries, or a later start restores them
        # with a fresh stop time stamp)
        nostorage = [n for n in gcp.nodes if n.kind == 'branch' and any(
            canon_fact(e_, p_) == canon_fact(ast.parse('self.persistent_dict is None', mode='eval').body, True)
            for e_, p_ in decompose(n.test.ast, n.polarity))]
        loops = [l for l in gcp.nodes if l.kind == 'for' and dels and gcp.dominates(l, dels[0])]
        tsw = nodes_writing_attr(gcp, 'persistent_ts')
        wit1 = gcp.path_avoiding(gcp.entry, [gcp.exit], avoid=nostorage + loops[-1:]) if loops else [gcp.entry]
        wit2 = gcp.path_avoiding(gcp.entry, [gcp.exit], avoid=nostorage + tsw) if tsw else [gcp.entry]
        ck.ob(R8, f"{cpd.fid} :: purge and time stamp read whenever a storage exists",
              wit1 is None and wit2 is None and bool(nostorage),
              "every path that does not see `persistent_dict is None` reads the stop time stamp and "
              "runs the purge loop" if wit1 is None and wit2 is None and nostorage else
              "with a storage attached, a path skips the purge of unused entries and/or the read of "
              "the stop time stamp (e.g. when the circuit has no persistent block): stale entries "
              "survive and are restored by a later start", cpd, dels[0].ast if dels else cpd.node,
              witness=path_witness(gcp, wit1 or wit2))
        # ... and the function is actually run: every start passes it before any block is initialised
        grf = ck.cfg(rf.fid, 'M0')
        callc = nodes_where(grf, lambda n: any(call_name(c) == '_check_persistent_data' and recv(c) == 'self'
                                               for c in node_calls(n)))
        inits = nodes_where(grf, lambda n: any(call_name(c) in ('_init_sblocks_sync_1', 'start') for c in node_calls(n)))
        okc = bool(callc) and bool(inits) and all(any(grf.dominates(c_, i_) for c_ in callc) for i_ in inits)
        ck.ob(R8, f"{rf.fid} :: storage checked before the blocks are started and restored", okc,
              "self._check_persistent_data() dominates the start() loop and the first initialisation "
              "pass" if okc else
              "run_forever starts / initialises blocks without having called _check_persistent_data(): "
              "the stop time stamp is never read (expiration is not checked) and stale entries are not "
              "purged", rf, callc[0].ast if callc else rf.node)
        pb = nodes_where(gcp, lambda n: isinstance(n.ast, ast.Assign) and norm(n.ast.targets[0]) == 'persistent_blocks')
        ok = len(pb) == 1 and 'getblocks(addons.AddonPersistence)' in norm(pb[0].ast.value) and \
            'blk.persistent' in norm(pb[0].ast.value)
        ck.ob(R8, f"{cpd.fid} :: persistent blocks", ok,
              "the kept keys are those of all blocks with persistent=True" if ok else
              "the set of blocks whose entries are kept is not 'all persistent blocks'", cpd,
              pb[0].ast if pb else cpd.node)


def _resolver_for(prog, ci):
    """-> function for MiniEval: 'self.<name>' -> the method's FunctionDef (class ci, by MRO)."""
    def resolve(text):
        if text.startswith('self.') and text[5:].isidentifier():
            fi = prog.resolve_method(ci, text[5:])
            if fi is not None and not prog.is_dummy(fi):
                return fi.node
        return None
    return resolve


def _r06_9(ck, R9):
    prog = ck.prog
    fsm = prog.cls('fsm:FSM')
    gs = prog.resolve_method(fsm, 'get_state')
    st = fsm.methods.get('_set_timer')
    ck.need(R9, gs is not None and st is not None, "FSM.get_state / FSM._set_timer not found")
    reads = any(isinstance(x, ast.Attribute) and x.attr == '_active_timer' for x in own_nodes(gs.node))
    ck.ob(R9, f"{gs.fid} :: expiry taken from the owned handle", reads,
          "get_state() reads self._active_timer for the expiry it saves" if reads else
          "get_state() does not derive the saved expiry from _active_timer", gs, gs.node)
    g = ck.cfg(st.fid, 'M0')
    cl = nodes_where(g, lambda n: any(call_name(c) in ('call_later', 'call_at') for c in node_calls(n)))
    ck.need(R9, len(cl) == 1, "_set_timer: call_later site not recognised")
    call = [c for c in node_calls(cl[0]) if call_name(c) in ('call_later', 'call_at')][0]
    cb = call.args[1] if len(call.args) >= 2 else None
    cbname = cb.attr if isinstance(cb, ast.Attribute) and norm(cb.value) == 'self' else None
    expiry = prog.resolve_method(fsm, cbname) if cbname and cbname != 'event' else None
    if expiry is None:
        guards_past = any(isinstance(x, ast.Call) and call_name(x) == 'time' for x in own_nodes(gs.node)) \
            and any(isinstance(x, ast.Compare) and 'when()' in norm(x) for x in own_nodes(gs.node))
        ck.ob(R9, f"{st.fid} :: fired handle not saved as pending", guards_past,
              "get_state() ignores a handle whose time has passed" if guards_past else
              "the timer delivers the event directly and nothing clears _active_timer when it "
              "fires: after a rejected timed event the saved state carries a past expiry and is "
              "discarded as expired at the next start", st, cl[0].ast)
        return
    ge = ck.cfg(expiry.fid, 'M0')
    clears = [w for w in nodes_writing_attr(ge, '_active_timer')
              if is_const(written_value(w, '_active_timer'), None)]
    deliver = nodes_where(ge, lambda n: any(call_name(c) == 'event' and recv(c) == 'self'
                                            for c in node_calls(n)))
    ok = bool(clears) and bool(deliver) and \
        all(ge.path_avoiding(ge.entry, [d], avoid=clears) is None for d in deliver)
    ck.ob(R9, f"{expiry.fid} :: fired handle not saved as pending", ok,
          "the handle is cleared before the timed event is delivered: the state saved after that "
          "event (accepted or rejected) has no stale expiry" if ok else
          "the fired handle is still set while/after the timed event is handled: the state saved "
          "by the persistence add-on carries a past expiry (after a rejected timed event it stays "
          "and the next start discards the state as expired)", expiry, expiry.node)
